//go:build verif && amd64 && !purego && !force32bit

package main

import (
	"fmt"
	"math/rand/v2"

	"github.com/oasisprotocol/curve25519-voi/curve"
	"github.com/oasisprotocol/curve25519-voi/curve/scalar"
	"github.com/oasisprotocol/curve25519-voi/zzverif/ref"
)

func verifVectorSingle(x *ctx, rng *rand.Rand, lp *curve.EdwardsPoint, sc, sc2 *scalar.Scalar, w1, w3 ref.Pt, d func() string) {
	x.try("internal/edwardsMulVector", func() *curve.EdwardsPoint { return curve.VerifMulVector(curve.NewEdwardsPoint(), lp, sc) }, w1, d)
	x.try("internal/doubleBaseVector", func() *curve.EdwardsPoint {
		return curve.VerifDoubleBaseVector(curve.NewEdwardsPoint(), sc, lp, sc2)
	}, w3, d)
	if rng.IntN(4) == 0 {
		x.try("internal/basepointTableVector", func() *curve.EdwardsPoint {
			return curve.VerifBasepointTableVectorMul(curve.NewEdwardsPoint(), lp, sc)
		}, w1, d)
	}
}

func verifVectorMsm(x *ctx, size int, scalars []*scalar.Scalar, points []*curve.EdwardsPoint, exps []*curve.ExpandedEdwardsPoint, want ref.Pt) {
	d := func() string { return fmt.Sprintf("size=%d", size) }
	if size <= 200 || !x.r.Quick {
		x.try("internal/StrausVector", func() *curve.EdwardsPoint { return curve.VerifStrausVector(curve.NewEdwardsPoint(), scalars, points) }, want, d)
		x.try("internal/StrausVartimeVector", func() *curve.EdwardsPoint {
			return curve.VerifStrausVartimeVector(curve.NewEdwardsPoint(), scalars, points)
		}, want, d)
	}
	x.try("internal/PippengerVector", func() *curve.EdwardsPoint {
		return curve.VerifPippengerVector(curve.NewEdwardsPoint(), nil, nil, scalars, points)
	}, want, d)
	h := size / 2
	if exps != nil {
		x.try("internal/ExpandedStrausVartimeVector", func() *curve.EdwardsPoint {
			return curve.VerifExpandedStrausVartimeVector(curve.NewEdwardsPoint(), scalars[:h], exps[:h], scalars[h:], points[h:])
		}, want, d)
	}
}
