//go:build !verif

package main

import (
	"math/big"
	"math/rand/v2"

	"github.com/oasisprotocol/curve25519-voi/curve"
	"github.com/oasisprotocol/curve25519-voi/curve/scalar"
	"github.com/oasisprotocol/curve25519-voi/zzverif/gen"
	"github.com/oasisprotocol/curve25519-voi/zzverif/ref"
)

func vectorLive() bool { return false }

func rescale(p *curve.EdwardsPoint, rng *rand.Rand) *curve.EdwardsPoint { return p }

func coordsConsistent(p *curve.EdwardsPoint) bool { return true }

func ristFromEd(p *curve.EdwardsPoint) *curve.RistrettoPoint { return nil }

func graftSingle(x *ctx, rng *rand.Rand, e gen.KP, lp *curve.EdwardsPoint, s, s2 *big.Int, sc, sc2 *scalar.Scalar, w1, w2, w3 ref.Pt, d func() string) {
	x.r.HookMissing("curve graft (internal algorithms)")
}

func graftMsm(x *ctx, size int, scalars []*scalar.Scalar, points []*curve.EdwardsPoint, exps []*curve.ExpandedEdwardsPoint, want ref.Pt) {
}
