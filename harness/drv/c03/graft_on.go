//go:build verif

package main

import (
	"fmt"
	"math/big"
	"math/rand/v2"

	"github.com/oasisprotocol/curve25519-voi/curve"
	"github.com/oasisprotocol/curve25519-voi/curve/scalar"
	"github.com/oasisprotocol/curve25519-voi/internal/field"
	"github.com/oasisprotocol/curve25519-voi/zzverif/gen"
	"github.com/oasisprotocol/curve25519-voi/zzverif/mon"
	"github.com/oasisprotocol/curve25519-voi/zzverif/ref"
)

func vectorLive() bool { return curve.VerifVector() }

// rescale multiplies the projective coordinates by a PRNG-chosen lambda (same point, other representation).
func rescale(p *curve.EdwardsPoint, rng *rand.Rand) *curve.EdwardsPoint {
	var lam field.Element
	switch rng.IntN(5) {
	case 0:
		return p
	case 1:
		lam.One()
		lam.Add(&lam, &lam) // 2
	case 2:
		lam.MinusOne()
	case 3:
		lam.MinusOne()
		lam.Add(&lam, &lam) // -2
	default:
		b := mon.Bytes(rng, 32)
		if _, err := lam.SetBytes(b); err != nil || lam.IsZero() == 1 {
			lam.One()
		}
	}
	X, Y, Z, T := curve.VerifCoords(p)
	var x, y, z, t field.Element
	x.Mul(X, &lam)
	y.Mul(Y, &lam)
	z.Mul(Z, &lam)
	t.Mul(T, &lam)
	return curve.VerifFromCoords(&x, &y, &z, &t)
}

// coordsConsistent: T*Z == X*Y for the raw extended coordinates of a result.
func coordsConsistent(p *curve.EdwardsPoint) bool {
	X, Y, Z, T := curve.VerifCoords(p)
	var l, r field.Element
	l.Mul(T, Z)
	r.Mul(X, Y)
	return l.Equal(&r) == 1
}

func ristFromEd(p *curve.EdwardsPoint) *curve.RistrettoPoint {
	return curve.VerifRistrettoFromEdwards(p)
}

func graftSingle(x *ctx, rng *rand.Rand, e gen.KP, lp *curve.EdwardsPoint, s, s2 *big.Int, sc, sc2 *scalar.Scalar, w1, w2, w3 ref.Pt, d func() string) {
	x.try("internal/edwardsMulGeneric", func() *curve.EdwardsPoint { return curve.VerifMulGeneric(curve.NewEdwardsPoint(), lp, sc) }, w1, d)
	x.try("internal/doubleBaseGeneric", func() *curve.EdwardsPoint {
		return curve.VerifDoubleBaseGeneric(curve.NewEdwardsPoint(), sc, lp, sc2)
	}, w3, d)
	if rng.IntN(4) == 0 {
		x.try("internal/basepointTableGeneric", func() *curve.EdwardsPoint {
			return curve.VerifBasepointTableGenericMul(curve.NewEdwardsPoint(), lp, sc)
		}, w1, d)
	}
	if curve.VerifVector() {
		verifVectorSingle(x, rng, lp, sc, sc2, w1, w3, d)
	}
}

func graftMsm(x *ctx, size int, scalars []*scalar.Scalar, points []*curve.EdwardsPoint, exps []*curve.ExpandedEdwardsPoint, want ref.Pt) {
	d := func() string { return fmt.Sprintf("size=%d", size) }
	if size <= 200 || !x.r.Quick {
		x.try("internal/StrausGeneric", func() *curve.EdwardsPoint { return curve.VerifStrausGeneric(curve.NewEdwardsPoint(), scalars, points) }, want, d)
		x.try("internal/StrausVartimeGeneric", func() *curve.EdwardsPoint {
			return curve.VerifStrausVartimeGeneric(curve.NewEdwardsPoint(), scalars, points)
		}, want, d)
		// dispatching Straus irrespective of length
		x.try("internal/StrausVartimeDispatch", func() *curve.EdwardsPoint {
			return curve.VerifStrausVartimeDispatch(curve.NewEdwardsPoint(), scalars, points)
		}, want, d)
	}
	// Pippenger at lengths the dispatcher would never give it
	x.try("internal/PippengerGeneric", func() *curve.EdwardsPoint {
		return curve.VerifPippengerGeneric(curve.NewEdwardsPoint(), nil, nil, scalars, points)
	}, want, d)
	x.try("internal/PippengerDispatch", func() *curve.EdwardsPoint {
		return curve.VerifPippengerDispatch(curve.NewEdwardsPoint(), scalars, points)
	}, want, d)
	h := size / 2
	x.try("internal/PippengerGeneric(static+dynamic)", func() *curve.EdwardsPoint {
		return curve.VerifPippengerGeneric(curve.NewEdwardsPoint(), scalars[:h], points[:h], scalars[h:], points[h:])
	}, want, d)
	if exps != nil && !curve.VerifVector() {
		// an expansion only carries the table of the live backend
		x.try("internal/ExpandedStrausVartimeGeneric", func() *curve.EdwardsPoint {
			return curve.VerifExpandedStrausVartimeGeneric(curve.NewEdwardsPoint(), scalars[:h], exps[:h], scalars[h:], points[h:])
		}, want, d)
	}
	if exps != nil {
		x.try("internal/ExpandedPippengerDispatch", func() *curve.EdwardsPoint {
			return curve.VerifExpandedPippengerDispatch(curve.NewEdwardsPoint(), scalars[:h], exps[:h], scalars[h:], points[h:])
		}, want, d)
		if size <= 200 || !x.r.Quick {
			x.try("internal/ExpandedStrausDispatch", func() *curve.EdwardsPoint {
				return curve.VerifExpandedStrausDispatch(curve.NewEdwardsPoint(), scalars[:h], exps[:h], scalars[h:], points[h:])
			}, want, d)
		}
	}
	if curve.VerifVector() {
		verifVectorMsm(x, size, scalars, points, exps, want)
	}
}
