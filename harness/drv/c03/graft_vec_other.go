//go:build verif && !(amd64 && !purego && !force32bit)

package main

import (
	"math/rand/v2"

	"github.com/oasisprotocol/curve25519-voi/curve"
	"github.com/oasisprotocol/curve25519-voi/curve/scalar"
	"github.com/oasisprotocol/curve25519-voi/zzverif/ref"
)

func verifVectorSingle(x *ctx, rng *rand.Rand, lp *curve.EdwardsPoint, sc, sc2 *scalar.Scalar, w1, w3 ref.Pt, d func() string) {
}

func verifVectorMsm(x *ctx, size int, scalars []*scalar.Scalar, points []*curve.EdwardsPoint, exps []*curve.ExpandedEdwardsPoint, want ref.Pt) {
}
