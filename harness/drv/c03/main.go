// C03: group law and every scalar-multiplication routine give the true group result.
// Monitor: every result of the curve API (and, through the curve graft, of each internal
// algorithm called directly) is compared by canonical encoding with an affine big-integer
// computation; long sums use discrete-log bookkeeping [sum s_i k_i]B + [sum s_i j_i mod 8]T.
package main

import (
	"bytes"
	"fmt"
	"math/big"
	"math/rand/v2"

	"github.com/oasisprotocol/curve25519-voi/curve"
	"github.com/oasisprotocol/curve25519-voi/curve/scalar"
	"github.com/oasisprotocol/curve25519-voi/zzverif/fluent"
	"github.com/oasisprotocol/curve25519-voi/zzverif/gen"
	"github.com/oasisprotocol/curve25519-voi/zzverif/hist"
	"github.com/oasisprotocol/curve25519-voi/zzverif/mon"
	"github.com/oasisprotocol/curve25519-voi/zzverif/ref"
)

type Case struct {
	Kind   string `json:"kind"` // law | single | msm | msm-unknown
	Stream string `json:"stream"`
	Size   int    `json:"size"`
}

var cat = gen.ScalarCatalogue()

func libScalar(v *big.Int) *scalar.Scalar {
	s, err := scalar.NewFromBits(ref.LE32(v))
	if err != nil {
		mon.Fatalf("NewFromBits: %v", err)
	}
	return s
}

func enc(p *curve.EdwardsPoint) []byte {
	b, _ := p.MarshalBinary()
	return b
}

type ctx struct {
	r    *mon.Run
	c    Case
	pool []gen.KP
	h    *hist.Pool // receivers with a past (see package hist)
}

func (x *ctx) check(op string, got *curve.EdwardsPoint, want ref.Pt, detail func() string) {
	x.r.Eval(nil)
	x.r.Hist("op/" + op)
	if !bytes.Equal(enc(got), ref.Encode(want)) {
		x.r.Violate("group/"+op, fmt.Sprintf("%s: got %x want %x; %s", op, enc(got), ref.Encode(want), detail()), x.c)
	} else if !coordsConsistent(got) {
		// the encoding only reads X, Y, Z: a result whose T is not XY/Z is a latent wrong operand
		x.r.Violate("group/"+op+"/extended-coordinates", fmt.Sprintf("%s: result encodes correctly but its extended coordinates are inconsistent (T*Z != X*Y); %s", op, detail()), x.c)
	}
}

func (x *ctx) try(op string, f func() *curve.EdwardsPoint, want ref.Pt, detail func() string) {
	var got *curve.EdwardsPoint
	x.r.Journal("c03 %s %+v", op, x.c)
	if pan, msg := mon.Try(func() { got = f() }); pan {
		x.r.Eval(nil)
		x.r.Violate("group/"+op+"/panic", fmt.Sprintf("%s panicked: %s; %s", op, msg, detail()), x.c)
		return
	}
	x.check(op, got, want, detail)
}

func ristEnc(p *curve.RistrettoPoint) []byte {
	b, _ := p.MarshalBinary()
	return b
}

func (x *ctx) law(rng *rand.Rand) {
	pool := x.pool
	P, Q := pool[rng.IntN(len(pool))], pool[rng.IntN(len(pool))]
	d := func() string { return fmt.Sprintf("P=%x(%s) Q=%x(%s)", P.Enc, P.Name, Q.Enc, Q.Name) }
	lp, lq := rescale(P.Lib, rng), rescale(Q.Lib, rng)
	x.r.Eval([]byte("law" + string(P.Enc) + string(Q.Enc)))
	x.try("Add", func() *curve.EdwardsPoint { return x.h.E().Add(lp, lq) }, P.Ref.Add(Q.Ref), d)
	x.try("Sub", func() *curve.EdwardsPoint { return x.h.E().Sub(lp, lq) }, P.Ref.Add(Q.Ref.Neg()), d)
	x.try("Neg", func() *curve.EdwardsPoint { return x.h.E().Neg(lp) }, P.Ref.Neg(), d)
	x.try("Add(P,P)", func() *curve.EdwardsPoint { return x.h.E().Add(lp, lp) }, P.Ref.Add(P.Ref), d)
	x.try("Add(P,-P)", func() *curve.EdwardsPoint {
		n := x.h.E().Neg(lp)
		return x.h.E().Add(lp, n)
	}, ref.Identity(), d)
	x.try("MulByCofactor", func() *curve.EdwardsPoint { return x.h.E().MulByCofactor(lp) }, P.Ref.Mul(big.NewInt(8)), d)
	// aliasing: receiver is an operand
	x.try("Add-aliased", func() *curve.EdwardsPoint { t := x.h.E().Set(lp); return t.Add(t, lq) }, P.Ref.Add(Q.Ref), d)
	x.try("Sub-aliased", func() *curve.EdwardsPoint { t := x.h.E().Set(lq); return t.Sub(lp, t) }, P.Ref.Add(Q.Ref.Neg()), d)
	// Sum of n points
	n := rng.IntN(6)
	var vals []*curve.EdwardsPoint
	want := ref.Identity()
	for i := 0; i < n; i++ {
		e := pool[rng.IntN(len(pool))]
		vals = append(vals, e.Lib)
		want = want.Add(e.Ref)
	}
	x.try(fmt.Sprintf("Sum(n=%d)", n), func() *curve.EdwardsPoint { return x.h.E().Sum(vals) }, want, d)
	// ConditionalSelect
	for ch := 0; ch < 2; ch++ {
		w := P.Ref
		if ch == 1 {
			w = Q.Ref
		}
		x.try("ConditionalSelect", func() *curve.EdwardsPoint { t := x.h.E(); t.ConditionalSelect(lp, lq, ch); return t }, w, d)
	}
	// Equal is the mathematical equality
	eq := lp.Equal(lq) == 1
	x.r.Eval(nil)
	if eq != P.Ref.Equal(Q.Ref) {
		x.r.Violate("group/Equal", fmt.Sprintf("Equal=%v want %v; %s", eq, P.Ref.Equal(Q.Ref), d()), x.c)
	}
}

func (x *ctx) single(rng *rand.Rand) {
	pool := x.pool
	s, s2 := gen.RandScalar(rng, cat), gen.RandScalar(rng, cat)
	e := pool[rng.IntN(len(pool))]
	sc, sc2 := libScalar(s), libScalar(s2)
	d := func() string { return fmt.Sprintf("s=%x s2=%x P=%x(%s)", s, s2, e.Enc, e.Name) }
	x.r.Eval([]byte("single" + s.String() + s2.String() + string(e.Enc)))
	lp := rescale(e.Lib, rng)
	w1 := e.Ref.Mul(s)
	x.try("Mul", func() *curve.EdwardsPoint { return x.h.E().Mul(lp, sc) }, w1, d)
	x.try("Mul-aliased", func() *curve.EdwardsPoint { t := x.h.E().Set(lp); return t.Mul(t, sc) }, w1, d)
	w2 := ref.B.Mul(new(big.Int).Mod(s, ref.L))
	x.try("MulBasepoint", func() *curve.EdwardsPoint {
		return x.h.E().MulBasepoint(curve.ED25519_BASEPOINT_TABLE, sc)
	}, w2, d)
	w3 := w1.Add(ref.B.Mul(new(big.Int).Mod(s2, ref.L)))
	x.try("DoubleScalarMulBasepointVartime", func() *curve.EdwardsPoint {
		return x.h.E().DoubleScalarMulBasepointVartime(sc, lp, sc2)
	}, w3, d)
	x.try("ExpandedDoubleScalarMulBasepointVartime", func() *curve.EdwardsPoint {
		return x.h.E().ExpandedDoubleScalarMulBasepointVartime(sc, e.Exp, sc2)
	}, w3, d)
	if rng.IntN(4) == 0 {
		x.try("NewEdwardsBasepointTable(P).Mul", func() *curve.EdwardsPoint {
			tbl := curve.NewEdwardsBasepointTable(lp)
			if !bytes.Equal(enc(tbl.Basepoint()), e.Enc) {
				x.r.Violate("group/BasepointTable.Basepoint", "Basepoint() of a custom table differs from its base; "+d(), x.c)
			}
			return x.h.E().MulBasepoint(tbl, sc)
		}, w1, d)
	}
	x.try("SetExpanded", func() *curve.EdwardsPoint { return x.h.E().SetExpanded(e.Exp) }, e.Ref, d)
	// points handed out by a table / an expansion outlive it: the source object is dropped and collected (finalizers
	// included) before the point is used
	if rng.IntN(8) == 0 {
		var bp, xpnt *curve.EdwardsPoint
		func() {
			bp = curve.NewEdwardsBasepointTable(lp).Basepoint()
			xpnt = curve.NewExpandedEdwardsPoint(lp).Point()
		}()
		mon.GCNow()
		x.r.Hist("gc/after-dropping-table-and-expansion")
		x.try("Basepoint() of a collected table, then Mul", func() *curve.EdwardsPoint { return x.h.E().Mul(bp, sc) }, w1, d)
		x.try("Point() of a collected expansion, then Mul", func() *curve.EdwardsPoint { return x.h.E().Mul(xpnt, sc) }, w1, d)
	}
	// objects built FROM a point stand for the value the point had at construction: the caller goes on using (and
	// changing) its point object before the table or expansion is used for the first time
	{
		src := x.h.EVal(lp)
		tbl := curve.NewEdwardsBasepointTable(src)
		xp := curve.NewExpandedEdwardsPoint(src)
		src.Add(src, curve.ED25519_BASEPOINT_POINT) // the caller's object moves on
		src.Neg(src)
		x.try("NewEdwardsBasepointTable(P); P changed; MulBasepoint", func() *curve.EdwardsPoint { return x.h.E().MulBasepoint(tbl, sc) }, w1, d)
		x.try("NewEdwardsBasepointTable(P); P changed; Basepoint", func() *curve.EdwardsPoint { return tbl.Basepoint() }, e.Ref, d)
		x.try("NewExpandedEdwardsPoint(P); P changed; ExpandedDoubleScalarMulBasepointVartime", func() *curve.EdwardsPoint {
			return x.h.E().ExpandedDoubleScalarMulBasepointVartime(sc, xp, sc2)
		}, w3, d)
		x.try("NewExpandedEdwardsPoint(P); P changed; Point", func() *curve.EdwardsPoint { return xp.Point() }, e.Ref, d)
	}
	// an expansion whose object used to be the expansion of another point, a value copy of which is still in use:
	// both must keep standing for their own point in every routine that consumes expansions
	{
		xq, oldCopy, oldPoint := x.h.XE(lp)
		oldRef := ref.Decode(enc(oldPoint)).Pt
		for _, t := range []struct {
			name string
			xp   *curve.ExpandedEdwardsPoint
			pt   ref.Pt
		}{{"re-targeted expansion", xq, e.Ref}, {"value copy taken before re-targeting", oldCopy, oldRef}} {
			t := t
			wd := t.pt.Mul(s).Add(ref.B.Mul(new(big.Int).Mod(s2, ref.L)))
			x.try("ExpandedDoubleScalarMulBasepointVartime("+t.name+")", func() *curve.EdwardsPoint {
				return x.h.E().ExpandedDoubleScalarMulBasepointVartime(sc, t.xp, sc2)
			}, wd, d)
			x.try("ExpandedMultiscalarMulVartime("+t.name+")", func() *curve.EdwardsPoint {
				return x.h.E().ExpandedMultiscalarMulVartime([]*scalar.Scalar{sc}, []*curve.ExpandedEdwardsPoint{t.xp}, []*scalar.Scalar{sc2}, []*curve.EdwardsPoint{curve.ED25519_BASEPOINT_POINT})
			}, wd, d)
			x.try("SetExpanded("+t.name+")", func() *curve.EdwardsPoint { return x.h.E().SetExpanded(t.xp) }, t.pt, d)
			x.try("Expanded.Point("+t.name+")", func() *curve.EdwardsPoint { return t.xp.Point() }, t.pt, d)
			// the delta-scaled triple product through the same expansion: [a]A + [b]B - C is the identity for C = aA + bB
			// and B for C = aA + bB - B; only membership in E[8] of the result is defined
			for _, off := range []int{0, 1} {
				cref := wd
				if off == 1 {
					cref = wd.Add(ref.B.Neg())
				}
				cl := gen.LibPoint(ref.Encode(cref))
				var small bool
				pan, msg := mon.Try(func() { small = x.h.E().ExpandedTripleScalarMulBasepointVartime(sc, t.xp, sc2, cl).IsSmallOrder() })
				x.r.Eval(nil)
				x.r.Hist("op/ExpandedTripleScalarMulBasepointVartime(" + t.name + ")")
				if pan || small != (off == 0) {
					x.r.Violate("group/ExpandedTripleScalarMulBasepointVartime("+t.name+")", fmt.Sprintf("small order = %v, want %v (panic=%v %s); %s", small, off == 0, pan, msg, d()), x.c)
				}
			}
		}
	}
	// multiscalar with one and two terms must agree as well
	x.try("MultiscalarMul(1)", func() *curve.EdwardsPoint {
		return x.h.E().MultiscalarMul([]*scalar.Scalar{sc}, []*curve.EdwardsPoint{lp})
	}, w1, d)
	x.try("MultiscalarMulVartime(2)", func() *curve.EdwardsPoint {
		return x.h.E().MultiscalarMulVartime([]*scalar.Scalar{sc, sc2}, []*curve.EdwardsPoint{lp, curve.ED25519_BASEPOINT_POINT})
	}, w3, d)
	// receiver aliases an input point of a multi-term operation
	x.try("MultiscalarMul(receiver aliases points[0])", func() *curve.EdwardsPoint {
		acc := x.h.E().Set(lp)
		return acc.MultiscalarMul([]*scalar.Scalar{sc, sc2}, []*curve.EdwardsPoint{acc, curve.ED25519_BASEPOINT_POINT})
	}, w3, d)
	x.try("MultiscalarMul(receiver aliases points[1])", func() *curve.EdwardsPoint {
		acc := x.h.E().Set(lp)
		return acc.MultiscalarMul([]*scalar.Scalar{sc2, sc}, []*curve.EdwardsPoint{curve.ED25519_BASEPOINT_POINT, acc})
	}, w3, d)
	x.try("MultiscalarMulVartime(receiver aliases a point)", func() *curve.EdwardsPoint {
		acc := x.h.E().Set(lp)
		return acc.MultiscalarMulVartime([]*scalar.Scalar{sc, sc2}, []*curve.EdwardsPoint{acc, curve.ED25519_BASEPOINT_POINT})
	}, w3, d)
	x.try("DoubleScalarMulBasepointVartime(receiver aliases A)", func() *curve.EdwardsPoint {
		acc := x.h.E().Set(lp)
		return acc.DoubleScalarMulBasepointVartime(sc, acc, sc2)
	}, w3, d)
	x.try("ExpandedMultiscalarMulVartime(receiver aliases a dynamic point)", func() *curve.EdwardsPoint {
		acc := x.h.E().Set(lp)
		return acc.ExpandedMultiscalarMulVartime([]*scalar.Scalar{sc2}, []*curve.ExpandedEdwardsPoint{curve.NewExpandedEdwardsPoint(curve.ED25519_BASEPOINT_POINT)}, []*scalar.Scalar{sc}, []*curve.EdwardsPoint{acc})
	}, w3, d)
	x.try("Sum(receiver among the values)", func() *curve.EdwardsPoint {
		acc := x.h.E().Set(lp)
		return acc.Sum([]*curve.EdwardsPoint{acc, curve.ED25519_BASEPOINT_POINT, acc})
	}, e.Ref.Add(e.Ref).Add(ref.B), d)
	x.try("MulByCofactor-aliased", func() *curve.EdwardsPoint { t := x.h.E().Set(lp); return t.MulByCofactor(t) }, e.Ref.Mul(big.NewInt(8)), d)
	x.try("Neg-aliased", func() *curve.EdwardsPoint { t := x.h.E().Set(lp); return t.Neg(t) }, e.Ref.Neg(), d)
	// the exported constant objects themselves as operands (their extended coordinates, incl. T, are consumed)
	ti := rng.IntN(8)
	tref := ref.Decode(enc(curve.EIGHT_TORSION[ti])).Pt
	x.try(fmt.Sprintf("Add(P, EIGHT_TORSION[%d])", ti), func() *curve.EdwardsPoint { return x.h.E().Add(lp, curve.EIGHT_TORSION[ti]) }, e.Ref.Add(tref), d)
	x.try(fmt.Sprintf("Sub(EIGHT_TORSION[%d], P)", ti), func() *curve.EdwardsPoint { return x.h.E().Sub(curve.EIGHT_TORSION[ti], lp) }, tref.Add(e.Ref.Neg()), d)
	x.try("Add(ED25519_BASEPOINT_POINT, P)", func() *curve.EdwardsPoint { return x.h.E().Add(curve.ED25519_BASEPOINT_POINT, lp) }, ref.B.Add(e.Ref), d)
	x.try("Mul(EIGHT_TORSION[i], s)", func() *curve.EdwardsPoint { return x.h.E().Mul(curve.EIGHT_TORSION[ti], sc) }, tref.Mul(s), d)
	x.try("Basepoint() of the shared table, then used as a receiver", func() *curve.EdwardsPoint {
		p := curve.ED25519_BASEPOINT_TABLE.Basepoint()
		p.Neg(p)
		p.Add(p, p)
		return x.h.E().Set(curve.ED25519_BASEPOINT_POINT) // the constant must be untouched
	}, ref.B, d)
	graftSingle(x, rng, e, lp, s, s2, sc, sc2, w1, w2, w3, d)

	// Ristretto wrappers: compare RFC 9496 encodings (representatives must lie in 2E: even torsion index)
	if e.K != nil && e.J%2 == 0 {
		if rp := ristFromEd(lp); rp != nil {
			sm := new(big.Int).Mod(s, ref.L)
			s2m := new(big.Int).Mod(s2, ref.L)
			kB := func(k *big.Int) []byte { return ref.RistrettoEncode(ref.B.Mul(new(big.Int).Mod(k, ref.L))) }
			ek := new(big.Int).Mul(e.K, sm)
			rchk := func(name string, f func() *curve.RistrettoPoint, want []byte) {
				var got *curve.RistrettoPoint
				pan, msg := mon.Try(func() { got = f() })
				x.r.Eval(nil)
				x.r.Hist("op/" + name)
				if pan || !bytes.Equal(ristEnc(got), want) {
					x.r.Violate("group/"+name, fmt.Sprintf("panic=%v %s; %s", pan, msg, d()), x.c)
				}
			}
			rchk("Ristretto.Mul", func() *curve.RistrettoPoint { return x.h.R().Mul(rp, sc) }, kB(ek))
			rchk("Ristretto.MulBasepoint", func() *curve.RistrettoPoint {
				return x.h.R().MulBasepoint(curve.RISTRETTO_BASEPOINT_TABLE, sc)
			}, kB(sm))
			rchk("Ristretto.DoubleScalarMulBasepointVartime", func() *curve.RistrettoPoint {
				return x.h.R().DoubleScalarMulBasepointVartime(sc, rp, sc2)
			}, kB(new(big.Int).Add(ek, s2m)))
			rchk("Ristretto.ExpandedDoubleScalarMulBasepointVartime", func() *curve.RistrettoPoint {
				return x.h.R().ExpandedDoubleScalarMulBasepointVartime(sc, curve.NewExpandedRistrettoPoint(rp), sc2)
			}, kB(new(big.Int).Add(ek, s2m)))
			rchk("Ristretto.Sum(receiver among the values)", func() *curve.RistrettoPoint {
				acc := x.h.R().Set(rp)
				return acc.Sum([]*curve.RistrettoPoint{acc, curve.RISTRETTO_BASEPOINT_POINT, acc})
			}, kB(new(big.Int).Add(new(big.Int).Lsh(e.K, 1), big.NewInt(1))))
			rchk("Ristretto.MultiscalarMul(receiver aliases a point)", func() *curve.RistrettoPoint {
				acc := x.h.R().Set(rp)
				return acc.MultiscalarMul([]*scalar.Scalar{sc, sc2}, []*curve.RistrettoPoint{acc, curve.RISTRETTO_BASEPOINT_POINT})
			}, kB(new(big.Int).Add(ek, s2m)))
			rchk("Ristretto.Add/Neg/Sub", func() *curve.RistrettoPoint {
				n := x.h.R().Neg(rp)
				t := x.h.R().Add(rp, rp)
				return t.Sub(t, n) // 3P
			}, kB(new(big.Int).Mul(e.K, big.NewInt(3))))
			if rng.IntN(4) == 0 {
				rchk("NewRistrettoBasepointTable(P).Mul", func() *curve.RistrettoPoint {
					return x.h.R().MulBasepoint(curve.NewRistrettoBasepointTable(rp), sc)
				}, kB(ek))
			}
		}
	}
	// Montgomery ladder on the u-coordinate
	if !e.Ref.IsIdentity() {
		var mp curve.MontgomeryPoint
		mp.SetEdwards(lp)
		var out curve.MontgomeryPoint
		x.r.Journal("c03 montgomery %+v", x.c)
		pan, msg := mon.Try(func() { out.Mul(&mp, sc) })
		x.r.Eval(nil)
		x.r.Hist("op/MontgomeryPoint.Mul")
		wantU := montU(w1)
		if pan || !bytes.Equal(out[:], wantU) {
			x.r.Violate("group/MontgomeryPoint.Mul", fmt.Sprintf("got %x want %x panic=%v %s; %s", out[:], wantU, pan, msg, d()), x.c)
		}
	}
}

// montU maps an affine Edwards point to its Montgomery u-coordinate bytes (identity -> 0).
func montU(p ref.Pt) []byte {
	one := big.NewInt(1)
	num := new(big.Int).Add(one, p.Y)
	den := new(big.Int).Sub(one, p.Y)
	den.Mod(den, ref.P)
	if den.Sign() == 0 {
		return make([]byte, 32)
	}
	inv := new(big.Int).ModInverse(den, ref.P)
	u := num.Mul(num, inv)
	u.Mod(u, ref.P)
	return ref.LE32(u)
}

func (x *ctx) msm(rng *rand.Rand, size int) {
	var scalars []*scalar.Scalar
	var points []*curve.EdwardsPoint
	var exps []*curve.ExpandedEdwardsPoint
	sumK, sumJ := new(big.Int), new(big.Int)
	var termSK []*big.Int
	var termJ []int64
	var known []gen.KP
	for _, e := range x.pool {
		if e.K != nil {
			known = append(known, e)
		}
	}
	// one list in three has scalars that share structure ACROSS the terms (all multiples of 2^j, all below 2^j, all
	// equal): whole digit columns are then empty or identical, which per-term random scalars never produce
	shared := rng.IntN(3)
	sj := []uint{6, 7, 8, 12, 16, 64, 128, 200, 248, 252}[rng.IntN(10)]
	sameS := gen.RandScalar(rng, cat)
	for i := 0; i < size; i++ {
		s := gen.RandScalar(rng, cat)
		switch {
		case shared != 0:
		case x.c.Stream != "" && len(x.c.Stream)%3 == 0:
			s = new(big.Int).Lsh(new(big.Int).Rsh(s, sj), sj) // multiples of 2^j
		case len(x.c.Stream)%3 == 1:
			s = new(big.Int).Rsh(s, 255-sj%200) // all small
		default:
			s = sameS
		}
		e := known[rng.IntN(len(known))]
		scalars = append(scalars, libScalar(s))
		points = append(points, e.Lib)
		exps = append(exps, e.Exp)
		sk := new(big.Int).Mul(s, e.K)
		termSK = append(termSK, sk)
		termJ = append(termJ, e.J)
		sumK.Add(sumK, sk)
		sumJ.Add(sumJ, new(big.Int).Mul(s, big.NewInt(e.J)))
	}
	want := ref.B.Mul(new(big.Int).Mod(sumK, ref.L)).Add(gen.Tors[new(big.Int).Mod(sumJ, big.NewInt(8)).Int64()])
	d := func() string { return fmt.Sprintf("size=%d", size) }
	x.r.Eval([]byte(fmt.Sprintf("msm%d/%s", size, x.c.Stream)))
	x.try(fmt.Sprintf("MultiscalarMulVartime(n=%d)", size), func() *curve.EdwardsPoint { return x.h.E().MultiscalarMulVartime(scalars, points) }, want, d)
	if size > 5000 {
		// very long lists: the vartime routine only (plain, with the receiver among the points, one static/dynamic split)
		x.try(fmt.Sprintf("MultiscalarMulVartime(n=%d, receiver = points[last])", size), func() *curve.EdwardsPoint {
			acc := x.h.E().Set(points[size-1])
			pts := append([]*curve.EdwardsPoint{}, points...)
			pts[size-1] = acc
			return acc.MultiscalarMulVartime(scalars, pts)
		}, want, d)
		x.try(fmt.Sprintf("ExpandedMultiscalarMulVartime(n=%d)", size), func() *curve.EdwardsPoint {
			return x.h.E().ExpandedMultiscalarMulVartime(scalars[:size/3], exps[:size/3], scalars[size/3:], points[size/3:])
		}, want, d)
		return
	}
	x.try(fmt.Sprintf("MultiscalarMul(n=%d)", size), func() *curve.EdwardsPoint { return x.h.E().MultiscalarMul(scalars, points) }, want, d)
	if size > 0 {
		// the receiver is one of the input points (first, middle, last), at every size
		for _, j := range []int{0, size / 2, size - 1} {
			mk := func() (*curve.EdwardsPoint, []*curve.EdwardsPoint) {
				acc := x.h.E().Set(points[j])
				pts := append([]*curve.EdwardsPoint{}, points...)
				pts[j] = acc
				return acc, pts
			}
			x.try(fmt.Sprintf("MultiscalarMul(n=%d, receiver = points[%s])", size, pos(j, size)), func() *curve.EdwardsPoint { acc, pts := mk(); return acc.MultiscalarMul(scalars, pts) }, want, d)
			x.try(fmt.Sprintf("MultiscalarMulVartime(n=%d, receiver = points[%s])", size, pos(j, size)), func() *curve.EdwardsPoint { acc, pts := mk(); return acc.MultiscalarMulVartime(scalars, pts) }, want, d)
			x.try(fmt.Sprintf("ExpandedMultiscalarMulVartime(n=%d, receiver = dynamic points[%s])", size, pos(j, size)), func() *curve.EdwardsPoint {
				acc, pts := mk()
				return acc.ExpandedMultiscalarMulVartime(scalars[:j], exps[:j], scalars[j:], pts[j:])
			}, want, d)
		}
	}
	for _, split := range []int{0, size / 2, size, rng.IntN(size + 1)} {
		x.try(fmt.Sprintf("ExpandedMultiscalarMulVartime(n=%d)", size), func() *curve.EdwardsPoint {
			return x.h.E().ExpandedMultiscalarMulVartime(scalars[:split], exps[:split], scalars[split:], points[split:])
		}, want, func() string { return fmt.Sprintf("size=%d split=%d", size, split) })
	}
	// Ristretto multiscalar on the terms whose torsion component lies in E[4] (valid Ristretto
	// representatives are the points of 2E): the element is [sum s_i k_i]B
	if size <= 200 {
		var rps []*curve.RistrettoPoint
		var rsc []*scalar.Scalar
		rk := new(big.Int)
		for i, p := range points {
			if termJ[i]%2 != 0 {
				continue
			}
			rp := ristFromEd(p)
			if rp == nil {
				break
			}
			rps = append(rps, rp)
			rsc = append(rsc, scalars[i])
			rk.Add(rk, termSK[i])
		}
		if len(rps) > 0 || size == 0 {
			wantR := ref.RistrettoEncode(ref.B.Mul(new(big.Int).Mod(rk, ref.L)))
			for name, f := range map[string]func() *curve.RistrettoPoint{
				"Ristretto.MultiscalarMul":        func() *curve.RistrettoPoint { return x.h.R().MultiscalarMul(rsc, rps) },
				"Ristretto.MultiscalarMulVartime": func() *curve.RistrettoPoint { return x.h.R().MultiscalarMulVartime(rsc, rps) },
			} {
				var got *curve.RistrettoPoint
				pan, msg := mon.Try(func() { got = f() })
				x.r.Eval(nil)
				x.r.Hist("op/" + name)
				if pan || !bytes.Equal(ristEnc(got), wantR) {
					x.r.Violate("group/"+name, fmt.Sprintf("size=%d terms=%d panic=%v %s", size, len(rps), pan, msg), x.c)
				}
			}
		}
	}
	graftMsm(x, size, scalars, points, exps, want)
}

func pos(j, size int) string {
	switch {
	case j == 0:
		return "first"
	case j == size-1:
		return "last"
	}
	return "middle"
}

// msmUnknown: points with unknown discrete logarithm, direct reference summation.
func (x *ctx) msmUnknown(rng *rand.Rand, size int) {
	var scalars []*scalar.Scalar
	var points []*curve.EdwardsPoint
	want := ref.Identity()
	for i := 0; i < size; i++ {
		s := gen.RandScalar(rng, cat)
		e := x.pool[rng.IntN(len(x.pool))]
		scalars = append(scalars, libScalar(s))
		points = append(points, rescale(e.Lib, rng))
		want = want.Add(e.Ref.Mul(s))
	}
	d := func() string { return fmt.Sprintf("size=%d", size) }
	x.r.Eval([]byte(fmt.Sprintf("msmu%d/%s", size, x.c.Stream)))
	x.try("MultiscalarMulVartime(unknown-dlog)", func() *curve.EdwardsPoint { return x.h.E().MultiscalarMulVartime(scalars, points) }, want, d)
	x.try("MultiscalarMul(unknown-dlog)", func() *curve.EdwardsPoint { return x.h.E().MultiscalarMul(scalars, points) }, want, d)
	graftMsm(x, size, scalars, points, nil, want)
}

func runCase(r *mon.Run, c Case, pool []gen.KP) {
	if c.Kind == "fluent" {
		fluentCheck(r)
		return
	}
	rng := r.Rng(c.Stream)
	x := &ctx{r: r, c: c, pool: pool, h: hist.New(r.Rng(c.Stream + "/receivers"))}
	defer func() { r.HistN("receivers-with-a-past", x.h.Uses) }()
	switch c.Kind {
	case "law":
		for i := 0; i < 20; i++ {
			x.law(rng)
		}
	case "single":
		for i := 0; i < 10; i++ {
			x.single(rng)
		}
	case "msm":
		x.msm(rng, c.Size)
	case "msm-unknown":
		x.msmUnknown(rng, c.Size)
	}
}

func main() {
	r := mon.Start("C03", "points = {O, B, -B, T_1..T_7, B+T_j, [k]B+T_j, decoded random strings} in PRNG-chosen projective scalings; scalars = catalogue (0,1,8,kL+-e,2^k+-e,2^255-19,2^255-1, nibble/byte fills, all-half radix-2^w digit strings) + reduced + unreduced random; operations = Add/Sub/Neg/Sum/MulByCofactor/ConditionalSelect/Equal, Mul, MulBasepoint (shared and custom tables), double-base (plain/expanded), MultiscalarMul(Vartime)/Expanded with every static/dynamic split at term counts crossing 190/500/800, Ristretto wrappers, Montgomery ladder, and each internal algorithm (Straus ct/vartime, Pippenger, generic and vector) called directly through the graft; non-trivial = one (operation group, operands) tuple; distinct = SHA-256 of the operands or of the PRNG stream name")
	poolRng := r.Rng("c03/pool")
	pool := gen.PointPool(poolRng, r.Pick(24, 64))
	r.Observe("vector_backend_live", vectorLive())
	var c Case
	if r.LoadReplay(&c) {
		runCase(r, c, pool)
		r.Finish()
		return
	}
	var cases []Case
	for i := 0; i < r.Pick(120, 600); i++ {
		cases = append(cases, Case{Kind: "law", Stream: fmt.Sprintf("c03/law/%d", i)})
	}
	for i := 0; i < r.Pick(200, 1500); i++ {
		cases = append(cases, Case{Kind: "single", Stream: fmt.Sprintf("c03/single/%d", i)})
	}
	sizes := []int{0, 1, 2, 3, 8, 31, 32, 33, 63, 64, 65, 93, 94, 95, 127, 128, 129, 189, 190, 191, 255, 256, 257, 300, 379, 380, 381, 383, 384, 385}
	big1 := []int{500, 800, 1025, 1500, 32771}
	if !r.Quick {
		big1 = []int{499, 500, 501, 799, 800, 801, 1000, 1023, 1024, 1025, 1500, 2047, 2048, 2049, 4097, 16385, 32767, 32768, 32770, 32771, 65539}
	}
	for rep := 0; rep < r.Pick(3, 8); rep++ {
		for _, s := range sizes {
			cases = append(cases, Case{Kind: "msm", Stream: fmt.Sprintf("c03/msm/%d/%d", s, rep), Size: s})
		}
	}
	for rep := 0; rep < r.Pick(1, 1); rep++ {
		for _, s := range big1 {
			cases = append(cases, Case{Kind: "msm", Stream: fmt.Sprintf("c03/msm/%d/%d", s, rep), Size: s})
		}
	}
	for i := 0; i < r.Pick(60, 300); i++ {
		cases = append(cases, Case{Kind: "msm-unknown", Stream: fmt.Sprintf("c03/msmu/%d", i), Size: 1 + i%8})
	}
	r.Parallel(len(cases), func(i int) { runCase(r, cases[i], pool) })
	r.Sample("case", cases[0])
	r.Sample("case", cases[len(cases)/2])
	r.Sample("case", cases[len(cases)-1])
	fluentCheck(r)
	r.Finish()
}

// fluentCheck: every "sets the receiver and returns it" method of this property's types must return its receiver
// (package fluent).
func fluentCheck(r *mon.Run) {
	fluent.Check(r, Case{Kind: "fluent"}, (*curve.EdwardsPoint)(nil), (*curve.ExpandedEdwardsPoint)(nil), (*curve.EdwardsBasepointTable)(nil))
}
