// thresh: coverage-guided discovery of size thresholds.
//
// Code that treats inputs differently above some size (a chunked hash above N bytes, another algorithm above N terms,
// a parallel path above N entries) hides defects at sizes no generator guesses: exactly N, a multiple of N, N plus a
// remainder. This monitor does not guess. The library is built with block-coverage counters; for every size-
// parameterised operation it records WHICH basic blocks of the library execute at sizes 0, 1, 2, 3, 4, 6, 8, 12, 16, ...
// up to the operation's maximum, bisects every interval in which that set changes down to the exact size at which
// it changes (a threshold T of the implementation, found by observation), and then drives the operation at T-2..T+2,
// at the small multiples of T and of T-1 (+-1), and at T plus small remainders, comparing each result with an
// independent oracle (Go's own crypto, the big-integer references). The thresholds found are reported in the evidence.
package main

import (
	"bytes"
	"crypto"
	stded "crypto/ed25519"
	"crypto/sha256"
	"crypto/sha512"
	"encoding/binary"
	"flag"
	"fmt"
	"math/big"
	"runtime/coverage"
	"sort"

	"github.com/oasisprotocol/curve25519-voi/curve"
	"github.com/oasisprotocol/curve25519-voi/curve/scalar"
	"github.com/oasisprotocol/curve25519-voi/primitives/ed25519"
	"github.com/oasisprotocol/curve25519-voi/primitives/merlin"
	"github.com/oasisprotocol/curve25519-voi/primitives/sr25519"
	"github.com/oasisprotocol/curve25519-voi/zzverif/mon"
	"github.com/oasisprotocol/curve25519-voi/zzverif/ref"
)

var prop = flag.String("prop", "C01", "property whose operations are explored")

type Case struct {
	Op   string `json:"op"`
	Size int    `json:"size"`
}

type op struct {
	name string
	max  int
	// fullInQuick: the quick tier explores up to max as well (cheap per size)
	fullInQuick bool
	// run executes the library at size n and returns "" if every result agrees with the oracle, else a description
	run func(n, salt int) string
}

// blockSet runs f with cleared counters and returns the SET of library blocks that executed (ids = package, function,
// block index).
func blockSet(f func()) (map[[3]uint32]bool, error) {
	if err := coverage.ClearCounters(); err != nil {
		return nil, err
	}
	f()
	var buf bytes.Buffer
	if err := coverage.WriteCounters(&buf); err != nil {
		return nil, err
	}
	b := buf.Bytes()
	const fileHeader, segHeader = 32, 16
	if len(b) < fileHeader+segHeader {
		return nil, fmt.Errorf("short counter file")
	}
	strTabLen := int(binary.LittleEndian.Uint32(b[fileHeader+8:]))
	argsLen := int(binary.LittleEndian.Uint32(b[fileHeader+12:]))
	off := fileHeader + segHeader + (strTabLen+argsLen+3)/4*4
	if off > len(b) {
		return nil, fmt.Errorf("bad counter file")
	}
	// the payload is a sequence of ULEB128 values: per function (count, package id, function id, counters...)
	p := b[off:]
	set := map[[3]uint32]bool{}
	rd := func() (uint64, bool) {
		v, n := binary.Uvarint(p)
		if n <= 0 {
			return 0, false
		}
		p = p[n:]
		return v, true
	}
	for len(p) > 0 {
		nc, ok1 := rd()
		pkg, ok2 := rd()
		fn, ok3 := rd()
		if !ok1 || !ok2 || !ok3 {
			break
		}
		if nc == 0 && pkg == 0 && fn == 0 {
			continue // padding
		}
		for i := uint64(0); i < nc; i++ {
			c, ok := rd()
			if !ok {
				break
			}
			if c > 0 {
				set[[3]uint32{uint32(pkg), uint32(fn), uint32(i)}] = true
			}
		}
	}
	return set, nil
}

// digest hashes a block set, leaving out the blocks known to depend on the data rather than on the size.
func digest(set map[[3]uint32]bool, unstable map[[3]uint32]bool) [32]byte {
	ids := make([][3]uint32, 0, len(set))
	for id := range set {
		if !unstable[id] {
			ids = append(ids, id)
		}
	}
	sort.Slice(ids, func(i, j int) bool {
		for k := 0; k < 3; k++ {
			if ids[i][k] != ids[j][k] {
				return ids[i][k] < ids[j][k]
			}
		}
		return false
	})
	h := sha256.New()
	var w [12]byte
	for _, id := range ids {
		binary.LittleEndian.PutUint32(w[0:], id[0])
		binary.LittleEndian.PutUint32(w[4:], id[1])
		binary.LittleEndian.PutUint32(w[8:], id[2])
		h.Write(w[:])
	}
	var out [32]byte
	copy(out[:], h.Sum(nil))
	return out
}

func pattern(n, salt int) []byte {
	b := make([]byte, n)
	for i := range b {
		b[i] = byte(i*31 + 7 + i>>8 + salt*13)
	}
	return b
}

var (
	seed  = bytes.Repeat([]byte{0x5a}, 32)
	priv  = ed25519.NewKeyFromSeed(seed)
	pub   = priv.Public().(ed25519.PublicKey)
	spriv = stded.NewKeyFromSeed(seed)
)

func edOps() []op {
	mk := func(name string, o *ed25519.Options, so *stded.Options, max int) op {
		return op{name: name, max: max, fullInQuick: true, run: func(n, salt int) string {
			m := pattern(n, salt)
			sig, err := priv.Sign(nil, m, o)
			want, werr := spriv.Sign(nil, m, so)
			if err != nil || werr != nil || !bytes.Equal(sig, want) {
				return fmt.Sprintf("Sign: err=%v, signature %x.. differs from crypto/ed25519 %x..", err, head(sig), head(want))
			}
			if !ed25519.VerifyWithOptions(pub, m, want, o) {
				return "VerifyWithOptions rejects the crypto/ed25519 signature"
			}
			if x, err := ed25519.NewExpandedPublicKey(pub); err != nil || !ed25519.VerifyExpandedWithOptions(x, m, want, o) {
				return "VerifyExpandedWithOptions rejects the crypto/ed25519 signature"
			}
			bv := ed25519.NewBatchVerifier()
			bv.AddWithOptions(pub, m, want, o)
			if ok, _ := bv.Verify(nil); !ok {
				return "BatchVerifier rejects the crypto/ed25519 signature"
			}
			if n > 0 {
				for _, pos := range []int{n - 1, n / 2, 0} {
					m[pos] ^= 1
					if ed25519.VerifyWithOptions(pub, m, want, o) {
						return fmt.Sprintf("VerifyWithOptions accepts the signature for a message that differs in byte %d of %d", pos, n)
					}
					m[pos] ^= 1
				}
			}
			return ""
		}}
	}
	return []op{
		mk("ed25519 pure, message length", &ed25519.Options{}, &stded.Options{}, 1<<25),
		mk("ed25519ctx, message length", &ed25519.Options{Context: "ctx"}, &stded.Options{Context: "ctx"}, 1<<25),
	}
}

func batchOps() []op {
	msg := []byte("threshold discovery")
	var pubs []ed25519.PublicKey
	var sigs [][]byte
	for i := 0; i < 7; i++ {
		p := ed25519.NewKeyFromSeed(bytes.Repeat([]byte{byte(i + 1)}, 32))
		pubs = append(pubs, p.Public().(ed25519.PublicKey))
		sigs = append(sigs, ed25519.Sign(p, msg))
	}
	mk := func(name string, force bool, max int) op {
		return op{name: name, max: max, run: func(n, salt int) string {
			for _, bad := range []int{-1, n - 1, n / 2, 0} {
				if bad >= n {
					continue
				}
				bv := ed25519.NewBatchVerifier()
				if force {
					bv.ForceNoPublicKeyExpansion()
				}
				for i := 0; i < n; i++ {
					s := sigs[i%7]
					if i == bad {
						s = append([]byte{}, s...)
						s[40] ^= 1
					}
					bv.Add(pubs[i%7], msg, s)
				}
				only := bv.VerifyBatchOnly(nil)
				all, each := bv.Verify(nil)
				want := bad < 0 && n > 0
				if only != want || all != want || len(each) != n {
					return fmt.Sprintf("batch of %d entries (invalid entry at %d): VerifyBatchOnly=%v Verify=%v, want %v", n, bad, only, all, want)
				}
				for i, e := range each {
					if e != (i != bad) {
						return fmt.Sprintf("batch of %d entries (invalid entry at %d): entry %d reported %v", n, bad, i, e)
					}
				}
			}
			return ""
		}}
	}
	return []op{mk("ed25519 batch, entries (few signers)", false, 1<<11), mk("ed25519 batch without key expansion, entries", true, 1<<11)}
}

func msmOps() []op {
	// points [k_i]B with small known k_i (so the reference is one big-integer multiplication), scalars from a pattern
	const np = 16
	var pts []*curve.EdwardsPoint
	var ks []*big.Int
	for i := 0; i < np; i++ {
		k := big.NewInt(int64(1000003*i + 17))
		ks = append(ks, k)
		s, _ := scalar.NewFromCanonicalBytes(ref.LE32(k))
		pts = append(pts, curve.NewEdwardsPoint().MulBasepoint(curve.ED25519_BASEPOINT_TABLE, s))
		if b, _ := pts[i].MarshalBinary(); !bytes.Equal(b, ref.Encode(ref.B.Mul(k))) {
			mon.Fatalf("thresh: base multiples disagree with the reference")
		}
	}
	mk := func(name string, ct bool, max int) op {
		return op{name: name, max: max, run: func(n, salt int) string {
			ss := make([]*scalar.Scalar, n)
			ps := make([]*curve.EdwardsPoint, n)
			sum := new(big.Int)
			for i := 0; i < n; i++ {
				d := sha512.Sum512_256([]byte{byte(i), byte(i >> 8), byte(i >> 16)})
				d[31] &= 0x0f
				v := ref.FromLE(d[:])
				ss[i], _ = scalar.NewFromBits(d[:])
				ps[i] = pts[i%np]
				sum.Add(sum, new(big.Int).Mul(v, ks[i%np]))
			}
			want := ref.Encode(ref.B.Mul(sum.Mod(sum, ref.L)))
			var got *curve.EdwardsPoint
			if ct {
				got = curve.NewEdwardsPoint().MultiscalarMul(ss, ps)
			} else {
				got = curve.NewEdwardsPoint().MultiscalarMulVartime(ss, ps)
			}
			if b, _ := got.MarshalBinary(); !bytes.Equal(b, want) {
				return fmt.Sprintf("%d terms: result %x.., reference %x..", n, head(b), head(want))
			}
			return ""
		}}
	}
	return []op{mk("MultiscalarMulVartime, terms", false, 1<<17), mk("MultiscalarMul, terms", true, 1<<13)}
}

func merlinOps() []op {
	return []op{
		{name: "merlin AppendMessage, message length", max: 1 << 21, run: func(n, salt int) string {
			m := pattern(n, salt)
			t := merlin.NewTranscript("thresh")
			t.AppendMessage("m", m)
			got := make([]byte, 32)
			t.ExtractBytes(got, "c")
			rt := ref.NewTranscript([]byte("thresh"))
			rt.Append([]byte("m"), m)
			if want := rt.Challenge([]byte("c"), 32); !bytes.Equal(got, want) {
				return fmt.Sprintf("challenge %x.. differs from the reference %x..", head(got), head(want))
			}
			return ""
		}},
		{name: "merlin ExtractBytes, output length", max: 1 << 20, run: func(n, salt int) string {
			t := merlin.NewTranscript("thresh")
			got := make([]byte, n)
			t.ExtractBytes(got, "c")
			rt := ref.NewTranscript([]byte("thresh"))
			if want := rt.Challenge([]byte("c"), n); !bytes.Equal(got, want) {
				return "extracted bytes differ from the reference"
			}
			return ""
		}},
	}
}

func srOps() []op {
	msk, _ := sr25519.NewMiniSecretKeyFromBytes(seed)
	kp := msk.ExpandUniform().KeyPair()
	sctx := sr25519.NewSigningContext([]byte("thresh"))
	pkb, _ := kp.PublicKey().MarshalBinary()
	rs := ref.SrExpandUniform(seed)
	return []op{
		{name: "sr25519 bytes transcript, message length", max: 1 << 20, run: func(n, salt int) string {
			m := pattern(n, salt)
			ent := bytes.Repeat([]byte{9}, 32)
			sig, err := kp.Sign(bytes.NewReader(ent), sctx.NewTranscriptBytes(m))
			if err != nil {
				return err.Error()
			}
			b, _ := sig.MarshalBinary()
			want := rs.Sign(ref.SrTranscriptBytes([]byte("thresh"), m), ent)
			if !bytes.Equal(b, want) {
				return "signature differs from the schnorrkel reference"
			}
			if !ref.SrVerify(pkb, ref.SrTranscriptBytes([]byte("thresh"), m), b) || !kp.PublicKey().Verify(sctx.NewTranscriptBytes(m), sig) {
				return "signature does not verify"
			}
			return ""
		}},
		{name: "sr25519 batch, entries", max: 1 << 10, run: func(n, salt int) string {
			st := sctx.NewTranscriptBytes([]byte("m"))
			sig, _ := kp.Sign(bytes.NewReader(make([]byte, 32)), st)
			sb, _ := sig.MarshalBinary()
			for _, bad := range []int{-1, n - 1, 0} {
				if bad >= n {
					continue
				}
				bv := sr25519.NewBatchVerifier()
				for i := 0; i < n; i++ {
					s := sig
					if i == bad {
						fb := append([]byte{}, sb...)
						fb[40] ^= 1
						if fs, err := sr25519.NewSignatureFromBytes(fb); err == nil {
							s = fs
						}
					}
					bv.Add(kp.PublicKey(), st, s)
				}
				want := bad < 0 && n > 0
				if only := bv.VerifyBatchOnly(nil); only != want {
					return fmt.Sprintf("batch of %d (invalid at %d): VerifyBatchOnly=%v want %v", n, bad, only, want)
				}
			}
			return ""
		}},
	}
}

func head(b []byte) []byte {
	if len(b) > 8 {
		return b[:8]
	}
	return b
}

var _ = crypto.SHA512

func main() {
	if !flag.Parsed() {
		flag.Parse()
	}
	r := mon.Start(*prop, "coverage-guided threshold discovery: the set of library basic blocks executed by each size-parameterised operation is recorded over a geometric grid of sizes, every change is bisected to the exact size, and the operation is driven at the discovered thresholds, their small multiples and neighbours against an independent oracle; non-trivial = one (operation, size); distinct = the pair")
	r.Workers = 1
	var ops []op
	switch *prop {
	case "C01", "C02":
		ops = edOps()
	case "C09":
		ops = batchOps()
	case "C03":
		ops = msmOps()
	case "C13":
		ops = merlinOps()
	case "C12":
		ops = srOps()
	}
	var c Case
	if r.LoadReplay(&c) {
		for _, o := range ops {
			if o.name == c.Op {
				if msg := o.run(c.Size, 0); msg != "" {
					r.Violate("size-threshold/"+o.name, fmt.Sprintf("size %d: %s", c.Size, msg), c)
				}
				r.Eval([]byte(fmt.Sprintf("%s|%d", o.name, c.Size)))
			}
		}
		r.Finish()
		return
	}
	for _, o := range ops {
		max := o.max
		if r.Quick && !o.fullInQuick {
			max = o.max / 4
		}
		o.run(1, 0) // lazy initialisation
		// calibration: blocks whose execution depends on the DATA (variable-time verification takes other branches
		// for other messages) are found by running the same sizes with different contents, and left out of the
		// signatures; what remains changes only with the size
		unstable := map[[3]uint32]bool{}
		for _, n := range []int{5, 70, 300, 1100} {
			if n > max {
				continue
			}
			var first map[[3]uint32]bool
			for salt := 0; salt < 6; salt++ {
				set, err := blockSet(func() { o.run(n, salt) })
				if err != nil {
					mon.Fatalf("coverage counters unavailable (binary not built with -cover -covermode=atomic?): %v", err)
				}
				if first == nil {
					first = set
					continue
				}
				for id := range set {
					if !first[id] {
						unstable[id] = true
					}
				}
				for id := range first {
					if !set[id] {
						unstable[id] = true
					}
				}
			}
		}
		r.Observe("data-dependent-blocks-excluded/"+o.name, len(unstable))
		sig := func(n int) [32]byte {
			set, err := blockSet(func() { o.run(n, 0) })
			if err != nil {
				mon.Fatalf("coverage counters unavailable: %v", err)
			}
			return digest(set, unstable)
		}
		var grid []int
		for v := 0; v <= 4; v++ {
			grid = append(grid, v)
		}
		for v := 4; v <= max; v *= 2 {
			grid = append(grid, v+v/2)
			if 2*v <= max {
				grid = append(grid, 2*v)
			}
		}
		sort.Ints(grid)
		sigs := map[int][32]byte{}
		for _, g := range grid {
			if g <= max {
				sigs[g] = sig(g)
			}
		}
		var thresholds []int
		for i := 0; i+1 < len(grid) && grid[i+1] <= max; i++ {
			lo, hi := grid[i], grid[i+1]
			if sigs[lo] == sigs[hi] {
				continue
			}
			// smallest size in (lo, hi] whose block set differs from lo's
			slo := sigs[lo]
			for hi-lo > 1 {
				mid := lo + (hi-lo)/2
				if sig(mid) == slo {
					lo = mid
				} else {
					hi = mid
				}
			}
			thresholds = append(thresholds, hi)
		}
		r.Observe("thresholds/"+o.name, thresholds)
		r.HistN("size-threshold/thresholds-found", int64(len(thresholds)))
		// sizes to drive against the oracle
		sizes := map[int]bool{0: true, 1: true, max: true}
		for _, t := range thresholds {
			if t < 8 {
				continue // tiny sizes are covered by the ordinary workloads
			}
			for _, base := range []int{t, t - 1} {
				for k := 1; k <= 4; k++ {
					for d := -1; d <= 1; d++ {
						if v := k*base + d; v >= 0 && v <= 2*max {
							sizes[v] = true
						}
					}
				}
				for _, rem := range []int{2, 3, 7, base / 2, base - 2} {
					if v := base + rem; v <= 2*max {
						sizes[v] = true
					}
				}
			}
		}
		var order []int
		for v := range sizes {
			order = append(order, v)
		}
		sort.Ints(order)
		for _, n := range order {
			r.Journal("thresh %s size %d", o.name, n)
			r.Eval([]byte(fmt.Sprintf("%s|%d", o.name, n)))
			r.Hist("size-threshold/sizes-driven")
			if msg := o.run(n, 0); msg != "" {
				r.Violate("size-threshold/"+o.name, fmt.Sprintf("size %d (thresholds observed at %v): %s", n, thresholds, msg), Case{Op: o.name, Size: n})
			}
		}
	}
	r.Finish()
}
