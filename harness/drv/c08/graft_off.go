//go:build !verif

package main

func graftInit() {}

var graftOps = map[string]func(){}
