// C08 (monitor 1): secret-dependent operations run in constant time.
// This driver is run under `valgrind --tool=lackey --trace-mem=yes --log-file=dir/t.%p`.
// It warms one operation, then forks one child per secret (raw fork; GC off; thread locked;
// no allocation in the fork loop) - every child starts from the same address-space image and
// executes marker(1); op(); marker(2); exit. The orchestrator compares the trace segments
// between the markers (instruction addresses and data addresses) across children.
package main

import (
	"crypto/sha512"
	"fmt"
	"os"
	"runtime"
	"runtime/debug"
	"strconv"
	"strings"
	"syscall"
	"unsafe"

	"github.com/oasisprotocol/curve25519-voi/zzverif/ctops"
)

//go:noinline
func marker(x int) int { return x ^ 0x5a }

func main() {
	if len(os.Args) >= 2 && os.Args[1] == "-list" {
		for _, n := range ctops.Names() {
			fmt.Println(n)
		}
		return
	}
	if len(os.Args) < 3 {
		fmt.Println("usage: c08 <op> <nsecrets>")
		os.Exit(2)
	}
	name := os.Args[1]
	ns, _ := strconv.Atoi(os.Args[2])
	op, ok := ctops.Get(name)
	if !ok {
		fmt.Println("unknown op")
		os.Exit(2)
	}
	debug.SetGCPercent(-1)
	runtime.LockOSThread()
	ctops.Init(strings.Contains(name, "n=190"))
	w := sha512.Sum512([]byte("warm"))
	copy(ctops.Cur[:], w[:])
	op() // warm: lazy initialisation happens in the parent
	secs := ctops.Secrets(ns)
	// the last call before the fork uses secret #0: children 0 and 1 (the calibration pair) then repeat the previous
	// call's secret, all others use a different one. Code that remembers the previous secret and compares (a memo
	// keyed by the key, "same signer as last time") takes another path in exactly those two children.
	ctops.Cur = secs[0]
	op()
	var pids [32]int
	np := 0
	for i := range secs {
		ctops.Cur = secs[i]
		pid, _, errno := syscall.RawSyscall(syscall.SYS_FORK, 0, 0, 0)
		if errno != 0 {
			panic(errno)
		}
		if pid == 0 {
			marker(1)
			op()
			marker(2)
			msg := []byte("child " + strconv.Itoa(i) + " out " + fmt.Sprintf("%x", ctops.Out[:8]) + "\n")
			syscall.RawSyscall(syscall.SYS_WRITE, 1, uintptr(unsafe.Pointer(&msg[0])), uintptr(len(msg)))
			syscall.RawSyscall(syscall.SYS_EXIT_GROUP, 0, 0, 0)
		}
		pids[np] = int(pid)
		np++
	}
	for _, p := range pids[:np] {
		var ws syscall.WaitStatus
		syscall.Wait4(p, &ws, 0, nil)
	}
	fmt.Print("pids")
	for _, p := range pids[:np] {
		fmt.Print(" ", p)
	}
	fmt.Println()
}
