// C18: concurrent use is race-free and the LRU key cache is linearizable.
// Monitors: (1) a stress workload of G goroutines over shared objects, built with -race (the
// orchestrator counts the detector's reports from its log files), every concurrent result
// compared with the sequential one; (2) Get/Put histories recorded at the Cache interface
// boundary and checked for linearizability against a sequential LRU model with porcupine;
// (3) structural inspection of the cache under its own lock; (4) table digests before/after.
package main

import (
	"bytes"
	"crypto"
	stded "crypto/ed25519"
	"crypto/sha256"
	"crypto/sha512"
	"fmt"
	"github.com/oasisprotocol/curve25519-voi/zzverif/corpus"
	"github.com/oasisprotocol/curve25519-voi/zzverif/ref"
	"golang.org/x/crypto/sha3"
	"math/big"
	"math/rand/v2"
	"os"
	"runtime"
	"strings"
	"sync"
	"sync/atomic"
	"time"

	"github.com/anishathalye/porcupine"

	"github.com/oasisprotocol/curve25519-voi/curve"
	"github.com/oasisprotocol/curve25519-voi/curve/scalar"
	"github.com/oasisprotocol/curve25519-voi/primitives/ed25519"
	"github.com/oasisprotocol/curve25519-voi/primitives/ed25519/extra/cache"
	"github.com/oasisprotocol/curve25519-voi/primitives/ed25519/extra/ecvrf"
	"github.com/oasisprotocol/curve25519-voi/primitives/sr25519"
	"github.com/oasisprotocol/curve25519-voi/primitives/x25519"
	"github.com/oasisprotocol/curve25519-voi/zzverif/mon"
)

type Case struct {
	Kind     string `json:"kind"`
	Stream   string `json:"stream"`
	Clients  int    `json:"clients,omitempty"`
	Ops      int    `json:"ops,omitempty"`
	Capacity int    `json:"capacity,omitempty"`
}

// ---------------------------------------------------------------- stress

type task struct {
	name string
	run  func() []byte // pure function of shared read-only inputs
	want []byte
}

type zeroes struct{}

func (zeroes) Read(p []byte) (int, error) {
	for i := range p {
		p[i] = 0
	}
	return len(p), nil
}

func bb(b bool) []byte {
	if b {
		return []byte{1}
	}
	return []byte{0}
}

// optsModified is set when a verification entry point was seen to write into the option struct it was given.
var optsModified int32

func buildTasks(rng *rand.Rand, shared *cache.Verifier) []task {
	var ts []task
	type key struct {
		priv ed25519.PrivateKey
		pub  ed25519.PublicKey
		exp  *ed25519.ExpandedPublicKey
	}
	var keys []key
	for i := 0; i < 5; i++ {
		priv := ed25519.NewKeyFromSeed(mon.Bytes(rng, 32))
		pub := priv.Public().(ed25519.PublicKey)
		exp, _ := ed25519.NewExpandedPublicKey(pub)
		keys = append(keys, key{priv, pub, exp})
	}
	msg := mon.Bytes(rng, 100)
	ctxOpts := &ed25519.Options{Context: "shared context", Verify: ed25519.VerifyOptionsZIP_215} // shared by pointer
	phOpts := &ed25519.Options{Hash: crypto.SHA512, Context: "other"}
	h := sha512.Sum512(msg)
	var sigs, ctxSigs, phSigs [][]byte
	for _, k := range keys {
		sigs = append(sigs, ed25519.Sign(k.priv, msg))
		s, _ := k.priv.Sign(nil, msg, ctxOpts)
		ctxSigs = append(ctxSigs, s)
		s2, _ := k.priv.Sign(nil, h[:], phOpts)
		phSigs = append(phSigs, s2)
	}
	sctx := sr25519.NewSigningContext([]byte("shared sr25519 context")) // shared
	msk, _ := sr25519.NewMiniSecretKeyFromBytes(mon.Bytes(rng, 32))
	skp := msk.ExpandUniform().KeyPair()
	srSig, _ := skp.Sign(zeroes{}, sctx.NewTranscriptBytes(msg))
	sharedPoint := curve.NewEdwardsPoint().MulBasepoint(curve.ED25519_BASEPOINT_TABLE, scalar.NewFromUint64(12345))
	sharedExp := curve.NewExpandedEdwardsPoint(sharedPoint)
	sharedScalar, _ := scalar.NewFromBytesModOrderWide(mon.Bytes(rng, 64))
	xk := mon.Bytes(rng, 32)
	for i := range keys {
		k, i := keys[i], i
		ts = append(ts,
			task{name: "ed25519.Sign", run: func() []byte { return ed25519.Sign(k.priv, msg) }},
			task{name: "ed25519.Sign(ctx)", run: func() []byte { s, _ := k.priv.Sign(nil, msg, ctxOpts); return s }},
			task{name: "ed25519.Sign(ph)", run: func() []byte { s, _ := k.priv.Sign(nil, h[:], phOpts); return s }},
			task{name: "ed25519.Verify", run: func() []byte { return bb(ed25519.Verify(k.pub, msg, sigs[i])) }},
			task{name: "ed25519.Verify(other sig)", run: func() []byte { return bb(ed25519.Verify(k.pub, msg, sigs[(i+1)%len(sigs)])) }},
			task{name: "ed25519.VerifyWithOptions(ctx)", run: func() []byte { return bb(ed25519.VerifyWithOptions(k.pub, msg, ctxSigs[i], ctxOpts)) }},
			task{name: "ed25519.VerifyWithOptions(ph)", run: func() []byte { return bb(ed25519.VerifyWithOptions(k.pub, h[:], phSigs[i], phOpts)) }},
			task{name: "ed25519.VerifyExpanded(shared key)", run: func() []byte { return bb(ed25519.VerifyExpanded(k.exp, msg, sigs[i])) }},
			task{name: "ed25519.VerifyExpandedWithOptions(shared key, StdLib)", run: func() []byte {
				return bb(ed25519.VerifyExpandedWithOptions(k.exp, msg, sigs[i], &ed25519.Options{Verify: ed25519.VerifyOptionsStdLib}))
			}},
			task{name: "ed25519.NewKeyFromSeed", run: func() []byte { return ed25519.NewKeyFromSeed(k.priv.Seed()) }},
			task{name: "cache.Verify(shared verifier)", run: func() []byte { return bb(shared.Verify(k.pub, msg, sigs[i])) }},
			task{name: "cache.VerifyWithOptions(shared verifier, ctx)", run: func() []byte { return bb(shared.VerifyWithOptions(k.pub, msg, ctxSigs[i], ctxOpts)) }},
			task{name: "cache.Verify(shared verifier, wrong sig)", run: func() []byte { return bb(shared.Verify(k.pub, msg, sigs[(i+2)%len(sigs)])) }},
			task{name: "ed25519.Batch(own verifier, shared keys)", run: func() []byte {
				bv := ed25519.NewBatchVerifier()
				for j := range keys {
					bv.Add(keys[j].pub, msg, sigs[j])
					bv.AddExpanded(keys[j].exp, msg, sigs[(j+i)%len(sigs)])
					shared.Add(bv, keys[j].pub, msg, sigs[j])
				}
				all, bits := bv.Verify(nil)
				out := bb(all)
				for _, b := range bits {
					out = append(out, bb(b)...)
				}
				return out
			}},
			task{name: "ecvrf.Prove+Verify", run: func() []byte {
				pi := ecvrf.Prove(k.priv, msg)
				ok, beta := ecvrf.Verify(k.pub, pi, msg)
				return append(append(pi, bb(ok)...), beta...)
			}},
			task{name: "x25519.EdPrivateKeyToX25519+X25519(Basepoint)", run: func() []byte {
				xp := x25519.EdPrivateKeyToX25519(k.priv)
				out, _ := x25519.X25519(xp, x25519.Basepoint)
				return out
			}},
		)
	}
	ts = append(ts,
		task{name: "x25519.X25519(shared Basepoint)", run: func() []byte { out, _ := x25519.X25519(xk, x25519.Basepoint); return out }},
		task{name: "x25519.X25519(ladder)", run: func() []byte { out, _ := x25519.X25519(xk, sigs[0][:32]); return out }},
		task{name: "sr25519.Sign+Verify(shared context)", run: func() []byte {
			st := sctx.NewTranscriptBytes(msg)
			s, _ := skp.Sign(zeroes{}, st)
			b, _ := s.MarshalBinary()
			return append(b, bb(skp.PublicKey().Verify(st, s))...)
		}},
		task{name: "sr25519.Verify(shared signature)", run: func() []byte { return bb(skp.PublicKey().Verify(sctx.NewTranscriptBytes(msg), srSig)) }},
		task{name: "sr25519.NewTranscriptHash+Sign+Verify(shared context, own message)", run: nil},
		task{name: "sr25519.NewTranscriptXOF+Sign+Verify(shared context, own message)", run: nil},
		task{name: "sr25519.Batch", run: func() []byte {
			bv := sr25519.NewBatchVerifier()
			for j := 0; j < 3; j++ {
				bv.Add(skp.PublicKey(), sctx.NewTranscriptBytes(msg), srSig)
			}
			all, _ := bv.Verify(nil)
			return bb(all)
		}},
		task{name: "curve.MulBasepoint(shared table)", run: func() []byte {
			b, _ := curve.NewEdwardsPoint().MulBasepoint(curve.ED25519_BASEPOINT_TABLE, sharedScalar).MarshalBinary()
			return b
		}},
		task{name: "curve.NewEdwardsBasepointTable(shared point)", run: func() []byte {
			t := curve.NewEdwardsBasepointTable(sharedPoint)
			b, _ := curve.NewEdwardsPoint().MulBasepoint(t, sharedScalar).MarshalBinary()
			return b
		}},
		task{name: "curve.MultiscalarMul(shared points)", run: func() []byte {
			b, _ := curve.NewEdwardsPoint().MultiscalarMul([]*scalar.Scalar{sharedScalar, sharedScalar}, []*curve.EdwardsPoint{sharedPoint, curve.ED25519_BASEPOINT_POINT}).MarshalBinary()
			return b
		}},
		task{name: "curve.ExpandedMultiscalarMulVartime(shared expansion)", run: func() []byte {
			b, _ := curve.NewEdwardsPoint().ExpandedMultiscalarMulVartime([]*scalar.Scalar{sharedScalar}, []*curve.ExpandedEdwardsPoint{sharedExp}, []*scalar.Scalar{sharedScalar}, []*curve.EdwardsPoint{curve.EIGHT_TORSION[1]}).MarshalBinary()
			return b
		}},
		task{name: "curve.MultiscalarMulVartime(200 shared points)", run: func() []byte {
			var ss []*scalar.Scalar
			var ps []*curve.EdwardsPoint
			for j := 0; j < 200; j++ {
				ss = append(ss, sharedScalar)
				ps = append(ps, sharedPoint)
			}
			b, _ := curve.NewEdwardsPoint().MultiscalarMulVartime(ss, ps).MarshalBinary()
			return b
		}},
		task{name: "ristretto.Mul+encode(shared basepoint)", run: func() []byte {
			b, _ := curve.NewRistrettoPoint().Mul(curve.RISTRETTO_BASEPOINT_POINT, sharedScalar).MarshalBinary()
			return b
		}},
	)
	// verifications whose challenge scalar drives the lattice reduction through its rare branches (shifts by whole
	// limbs): searched-for signatures from the corpus, and the triple-base multiplication on constructed scalars
	for gi, g := range corpus.GroundKs() {
		if g.MaxS < 32 || gi%4 != 0 {
			continue
		}
		pk, gm, gs := g.Signature()
		ts = append(ts,
			task{name: "ed25519.Verify(challenge scalar with lattice shift >= 32)", run: func() []byte { return bb(ed25519.Verify(pk, gm, gs)) }},
			task{name: "ed25519.VerifyWithOptions(ZIP-215, challenge scalar with lattice shift >= 32)", run: func() []byte {
				return bb(ed25519.VerifyWithOptions(pk, gm, gs, &ed25519.Options{Verify: ed25519.VerifyOptionsZIP_215}))
			}},
		)
	}
	for _, kv := range []*big.Int{big.NewInt(3), new(big.Int).Add(new(big.Int).Lsh(big.NewInt(1), 70), big.NewInt(1)), new(big.Int).Add(new(big.Int).Lsh(big.NewInt(1), 130), big.NewInt(5)),
		new(big.Int).ModInverse(new(big.Int).Lsh(big.NewInt(1), 64), ref.L), new(big.Int).ModInverse(new(big.Int).Lsh(big.NewInt(7), 90), ref.L), new(big.Int).Sub(ref.L, big.NewInt(2))} {
		ks, _ := scalar.NewFromCanonicalBytes(ref.LE32(kv))
		ts = append(ts, task{name: "curve.TripleScalarMulBasepointVartime(scalar with extreme continued fraction)", run: func() []byte {
			p := curve.NewEdwardsPoint().TripleScalarMulBasepointVartime(ks, sharedPoint, sharedScalar, curve.EIGHT_TORSION[3])
			b, _ := p.MarshalBinary()
			return append(b, bb(p.IsSmallOrder())...)
		}})
	}
	// transcripts over the SHARED signing context from per-task messages: hash and XOF sources
	var extra []task
	for i := range ts {
		if ts[i].run != nil {
			continue
		}
		isXOF := strings.Contains(ts[i].name, "XOF")
		for v := 0; v < 6; v++ {
			m := append(mon.Bytes(rng, 40), byte(v))
			extra = append(extra, task{name: ts[i].name, run: func() []byte {
				var st *sr25519.SigningTranscript
				if isXOF {
					x := sha3.NewShake256()
					x.Write(m)
					st = sctx.NewTranscriptXOF(x)
				} else {
					h := sha512.New()
					h.Write(m)
					st = sctx.NewTranscriptHash(h)
				}
				s, _ := skp.Sign(zeroes{}, st)
				b, _ := s.MarshalBinary()
				return append(b, bb(skp.PublicKey().Verify(st, s))...)
			}})
		}
	}
	kept := ts[:0]
	for _, t := range ts {
		if t.run != nil {
			kept = append(kept, t)
		}
	}
	ts = append(kept, extra...)
	// one option struct with Verify == nil (the documented way to ask for the default set) shared by all goroutines:
	// verification reads it, and must leave it exactly as it was
	nilOpts := &ed25519.Options{Context: "shared options with nil Verify"}
	nilSnapshot := *nilOpts
	nsig, _ := keys[0].priv.Sign(nil, msg, nilOpts)
	for _, entry := range []string{"VerifyWithOptions", "VerifyExpandedWithOptions", "BatchVerifier.AddWithOptions", "Sign(SelfVerify)"} {
		entry := entry
		ts = append(ts, task{name: "ed25519." + entry + "(shared options with nil Verify)", run: func() []byte {
			var out []byte
			switch entry {
			case "VerifyWithOptions":
				out = bb(ed25519.VerifyWithOptions(keys[0].pub, msg, nsig, nilOpts))
			case "VerifyExpandedWithOptions":
				out = bb(ed25519.VerifyExpandedWithOptions(keys[0].exp, msg, nsig, nilOpts))
			case "BatchVerifier.AddWithOptions":
				bv := ed25519.NewBatchVerifier()
				bv.AddWithOptions(keys[0].pub, msg, nsig, nilOpts)
				ok, _ := bv.Verify(nil)
				out = bb(ok)
			default:
				so := *nilOpts
				so.SelfVerify = true
				s, _ := keys[0].priv.Sign(nil, msg, &so)
				out = s
			}
			if *nilOpts != nilSnapshot {
				atomic.StoreInt32(&optsModified, 1)
			}
			return out
		}})
	}
	for i := range ts {
		ts[i].want = ts[i].run() // sequential reference
	}
	return ts
}

func stress(r *mon.Run, c Case) {
	rng := r.Rng(c.Stream)
	capacity := 1 + rng.IntN(3)
	inner := cache.NewLRUCache(capacity)
	shared := cache.NewVerifier(inner)
	tasks := buildTasks(rng, shared)
	if atomic.LoadInt32(&optsModified) != 0 {
		r.Violate("concurrent/callers-option-struct-modified", "a verification entry point wrote into the *Options it was given (Verify == nil was replaced): an unsynchronised write into caller-owned memory that several goroutines share", c)
		atomic.StoreInt32(&optsModified, 0)
	}
	before := tableDigest()
	var wg sync.WaitGroup
	var mismatches, progress int64
	var firstBad atomic.Value
	start := make(chan struct{})
	for g := 0; g < c.Clients; g++ {
		wg.Add(1)
		grng := r.Rng(fmt.Sprintf("%s/g%d", c.Stream, g))
		go func(g int) {
			defer wg.Done()
			<-start
			for i := 0; i < c.Ops; i++ {
				t := &tasks[grng.IntN(len(tasks))]
				got := t.run()
				atomic.AddInt64(&progress, 1)
				if !bytes.Equal(got, t.want) {
					if atomic.AddInt64(&mismatches, 1) == 1 {
						firstBad.Store(fmt.Sprintf("goroutine %d op %d %s: concurrent result %x, sequential %x", g, i, t.name, head(got), head(t.want)))
					}
				}
				if i%16 == 0 {
					inspectCache(r, inner, capacity, c)
				}
			}
		}(g)
	}
	close(start)
	stopWatch := deadlockWatch(r, c, &progress)
	defer close(stopWatch) // covers the stress loop, the sequential re-check and the herd phase
	wg.Wait()
	r.EvalN(int64(c.Clients * c.Ops))
	r.Eval([]byte(c.Stream))
	r.HistN("stress/operations", int64(c.Clients*c.Ops))
	r.Hist(fmt.Sprintf("stress/run/goroutines=%d/capacity=%d", c.Clients, capacity))
	if mismatches > 0 {
		r.Violate("concurrent/result-differs-from-sequential", fmt.Sprintf("%d mismatches; first: %v", mismatches, firstBad.Load()), c)
	}
	// every task again sequentially: shared objects must not have been corrupted
	for i := range tasks {
		if got := tasks[i].run(); !bytes.Equal(got, tasks[i].want) {
			r.Violate("concurrent/shared-state-corrupted", fmt.Sprintf("%s differs after the stress run", tasks[i].name), c)
			break
		}
	}
	if after := tableDigest(); after != before {
		r.Violate("concurrent/precomputed-table-modified", "table digest changed during the stress run", c)
	}
	inspectCache(r, inner, capacity, c)
	herd(r, c, rng, &progress)
}

// herd: every goroutine makes the SAME call with the SAME arguments at the same moment (released together by a closed
// channel), round after round, on a shared caching verifier that does not hold the key yet: concurrent misses for one
// key. The keys are the ones a verifier meets in the wild: valid, undecodable, of small order, non-canonical. Each
// call's result (or panic) is compared with what the call gives sequentially.
func herd(r *mon.Run, c Case, rng *rand.Rand, progress *int64) {
	priv := ed25519.NewKeyFromSeed(mon.Bytes(rng, 32))
	msg := mon.Bytes(rng, 33)
	sig := ed25519.Sign(priv, msg)
	undecodable := make([]byte, 32)
	for {
		copy(undecodable, mon.Bytes(rng, 32))
		if _, err := ed25519.NewExpandedPublicKey(undecodable); err != nil {
			break
		}
	}
	two := make([]byte, 32)
	two[0] = 2 // y = 2 is not on the curve
	smallOrder := make([]byte, 32)
	smallOrder[0] = 1 // the identity
	nonCanonical := bytes.Repeat([]byte{0xff}, 32)
	nonCanonical[0], nonCanonical[31] = 0xee, 0x7f // y = p + 1
	idSig := append(append([]byte{}, smallOrder...), make([]byte, 32)...)
	type hc struct {
		name string
		pk   []byte
		sig  []byte
		opts *ed25519.Options
	}
	calls := []hc{
		{"valid key", []byte(priv.Public().(ed25519.PublicKey)), sig, &ed25519.Options{Verify: ed25519.VerifyOptionsDefault}},
		{"undecodable key (PRNG)", undecodable, sig, &ed25519.Options{Verify: ed25519.VerifyOptionsDefault}},
		{"undecodable key (y = 2)", two, sig, &ed25519.Options{Verify: ed25519.VerifyOptionsZIP_215}},
		{"small-order key, strict", smallOrder, idSig, &ed25519.Options{Verify: ed25519.VerifyOptionsDefault}},
		{"small-order key, ZIP-215", smallOrder, idSig, &ed25519.Options{Verify: ed25519.VerifyOptionsZIP_215}},
		{"non-canonical key, ZIP-215", nonCanonical, idSig, &ed25519.Options{Verify: ed25519.VerifyOptionsZIP_215}},
	}
	G := c.Clients
	rounds := 12
	var bad int64
	var first atomic.Value
	for _, h := range calls {
		var want bool
		wantPan, _ := mon.Try(func() { want = ed25519.VerifyWithOptions(h.pk, msg, h.sig, h.opts) })
		for round := 0; round < rounds; round++ {
			v := cache.NewVerifier(cache.NewLRUCache(2)) // fresh: the key is not cached, every goroutine misses
			start := make(chan struct{})
			var wg sync.WaitGroup
			for g := 0; g < G; g++ {
				wg.Add(1)
				go func(g int) {
					defer wg.Done()
					<-start
					for rep := 0; rep < 3; rep++ {
						var got, gotB bool
						pan, pmsg := mon.Try(func() {
							got = v.VerifyWithOptions(h.pk, msg, h.sig, h.opts)
							bv := ed25519.NewBatchVerifier()
							v.AddWithOptions(bv, h.pk, msg, h.sig, h.opts)
							gotB, _ = bv.Verify(nil)
						})
						atomic.AddInt64(progress, 1)
						if pan != wantPan || (!pan && (got != want || gotB != want)) {
							if atomic.AddInt64(&bad, 1) == 1 {
								first.Store(fmt.Sprintf("%s: goroutine %d round %d: Verify=%v batch=%v panic=%v (%s); sequentially %v panic=%v", h.name, g, round, got, gotB, pan, pmsg, want, wantPan))
							}
						}
					}
				}(g)
			}
			close(start)
			wg.Wait()
			r.EvalN(int64(3 * G))
		}
		r.HistN("herd/"+h.name, int64(3*G*rounds))
	}
	if bad > 0 {
		r.Violate("concurrent/simultaneous-identical-calls-differ-from-sequential", fmt.Sprintf("%d calls; first: %v", bad, first.Load()), c)
	}
}

func head(b []byte) []byte {
	if len(b) > 12 {
		return b[:12]
	}
	return b
}

// ---------------------------------------------------------------- linearizability

type lruIn struct {
	Put bool
	Key int
	Val int
}

func lruModel(capacity int) porcupine.Model {
	type ent struct{ k, v int }
	parse := func(s string) []ent {
		var out []ent
		if s == "" {
			return out
		}
		for _, p := range strings.Split(s, ",") {
			var e ent
			fmt.Sscanf(p, "%d:%d", &e.k, &e.v)
			out = append(out, e)
		}
		return out
	}
	format := func(es []ent) string {
		var ps []string
		for _, e := range es {
			ps = append(ps, fmt.Sprintf("%d:%d", e.k, e.v))
		}
		return strings.Join(ps, ",")
	}
	return porcupine.Model{
		Init: func() interface{} { return "" },
		Step: func(st, input, output interface{}) (bool, interface{}) {
			es := parse(st.(string))
			in := input.(lruIn)
			idx := -1
			for j, e := range es {
				if e.k == in.Key {
					idx = j
				}
			}
			touch := func() string {
				e := es[idx]
				rest := append(append([]ent{}, es[:idx]...), es[idx+1:]...)
				return format(append([]ent{e}, rest...))
			}
			if !in.Put {
				got := output.(int)
				if idx < 0 {
					return got == 0, st
				}
				if got != es[idx].v {
					return false, st
				}
				return true, touch()
			}
			if idx >= 0 {
				return true, touch() // Put of a present key only touches it
			}
			if len(es) == capacity {
				es = es[:len(es)-1] // evict the least recently used
			}
			return true, format(append([]ent{{in.Key, in.Val}}, es...))
		},
		DescribeOperation: func(input, output interface{}) string {
			in := input.(lruIn)
			if in.Put {
				return fmt.Sprintf("Put(k%d, v%d)", in.Key, in.Val)
			}
			return fmt.Sprintf("Get(k%d) -> v%d", in.Key, output.(int))
		},
	}
}

var clock int64

// recCache wraps the shared LRU at the Cache interface boundary for one client.
type recCache struct {
	inner  cache.Cache
	client int
	rng    *rand.Rand
	keyID  map[curve.CompressedEdwardsY]int
	valID  map[*ed25519.ExpandedPublicKey]int
	ops    []porcupine.Operation
	bad    []string
}

func (c *recCache) jitter() {
	switch c.rng.IntN(4) {
	case 0:
		runtime.Gosched()
	case 1:
		for i := 0; i < c.rng.IntN(200); i++ {
			_ = i
		}
	case 2:
		time.Sleep(time.Duration(c.rng.IntN(20)) * time.Microsecond)
	}
}

func (c *recCache) Get(k *curve.CompressedEdwardsY) *ed25519.ExpandedPublicKey {
	c.jitter()
	call := atomic.AddInt64(&clock, 1)
	e := c.inner.Get(k)
	ret := atomic.AddInt64(&clock, 1)
	out := 0
	if e != nil {
		out = c.valID[e]
		if out == 0 {
			out = -1 // a non-nil expansion created inside the Verifier (no id): the history is checked presence-only
		}
		if e.CompressedY() != *k {
			c.bad = append(c.bad, fmt.Sprintf("Get(k%d) returned the expansion of another public key", c.keyID[*k]))
		}
	}
	c.ops = append(c.ops, porcupine.Operation{ClientId: c.client, Input: lruIn{Key: c.keyID[*k]}, Call: call, Output: out, Return: ret})
	c.jitter()
	return e
}

func (c *recCache) Put(k *curve.CompressedEdwardsY, e *ed25519.ExpandedPublicKey) {
	c.jitter()
	call := atomic.AddInt64(&clock, 1)
	c.inner.Put(k, e)
	ret := atomic.AddInt64(&clock, 1)
	c.ops = append(c.ops, porcupine.Operation{ClientId: c.client, Input: lruIn{Put: true, Key: c.keyID[*k], Val: c.valID[e]}, Call: call, Output: 0, Return: ret})
	c.jitter()
}

type linKeys struct {
	pubs  []ed25519.PublicKey
	comps []curve.CompressedEdwardsY
}

var lk linKeys

func linearizability(r *mon.Run, c Case) {
	rng := r.Rng(c.Stream)
	universe := c.Capacity + 2
	if len(lk.pubs) < 8 {
		mon.Fatalf("key universe not initialised")
	}
	inner := cache.NewLRUCache(c.Capacity)
	keyID := map[curve.CompressedEdwardsY]int{}
	for i := 0; i < universe; i++ {
		keyID[lk.comps[i]] = i + 1
	}
	// every Put carries a unique expansion: pre-create them (several distinct expansions of the same key)
	valID := map[*ed25519.ExpandedPublicKey]int{}
	perClient := make([][]*ed25519.ExpandedPublicKey, c.Clients)
	next := 1
	for cl := 0; cl < c.Clients; cl++ {
		for o := 0; o < c.Ops; o++ {
			k := rng.IntN(universe)
			e, _ := ed25519.NewExpandedPublicKey(lk.pubs[k])
			valID[e] = next
			next++
			perClient[cl] = append(perClient[cl], e)
		}
	}
	recs := make([]*recCache, c.Clients)
	scratch := make([]curve.CompressedEdwardsY, c.Clients)
	var wg sync.WaitGroup
	var arrived int64
	rounds := c.Ops
	for cl := 0; cl < c.Clients; cl++ {
		recs[cl] = &recCache{inner: inner, client: cl, rng: r.Rng(fmt.Sprintf("%s/c%d", c.Stream, cl)), keyID: keyID, valID: valID}
		wg.Add(1)
		go func(cl int) {
			defer wg.Done()
			rc := recs[cl]
			v := cache.NewVerifier(rc)
			var ky *curve.CompressedEdwardsY
			for round := 0; round < rounds; round++ {
				// spin barrier: all clients arrive at the cache together
				atomic.AddInt64(&arrived, 1)
				for atomic.LoadInt64(&arrived) < int64((round+1)*c.Clients) {
					runtime.Gosched()
				}
				e := perClient[cl][round]
				y := e.CompressedY()
				if cl%2 == 1 {
					// odd clients reuse one scratch key buffer for every call, as a caller of the Cache interface
					// may: the cache must not keep the pointer it was given
					scratch[cl] = y
					ky = &scratch[cl]
				} else {
					ky = &y
				}
				nKinds := 3
				if c.Capacity%2 == 0 || c.Clients%2 == 0 {
					nKinds = 4 // histories that also drive the real Verifier upsert (checked presence-only)
				}
				switch rc.rng.IntN(nKinds) {
				case 0:
					rc.Get(ky)
				case 1:
					rc.Put(ky, e)
				case 2:
					// the Verifier's own upsert: Get, then Put on a miss (two critical sections)
					if rc.Get(ky) == nil {
						rc.Put(ky, e)
					}
				default:
					v.AddPublicKey(ed25519.PublicKey(y[:])) // real upsert path; creates its own expansion on a miss
				}
			}
		}(cl)
	}
	wg.Wait()
	var ops []porcupine.Operation
	for _, rc := range recs {
		for _, b := range rc.bad {
			r.Violate("cache/Get/expansion-of-a-different-key", b, c)
		}
		ops = append(ops, rc.ops...)
	}
	// expansions created inside Verifier.AddPublicKey are unknown to valID (id 0 would read as "nil"): give them ids
	// by pointer identity is impossible afterwards, so histories use AddPublicKey only when its Put value is irrelevant:
	// a Get that returns such a value maps to id 0 and would be misread. Re-map: any operation whose Output/Val is 0
	// for a non-nil pointer was recorded with id 0 at the time; to stay sound those histories are checked with the
	// value dimension erased (presence only).
	presenceOnly := false
	for _, op := range ops {
		in := op.Input.(lruIn)
		if in.Put && in.Val == 0 {
			presenceOnly = true
		}
	}
	if presenceOnly {
		for i := range ops {
			in := ops[i].Input.(lruIn)
			if in.Put {
				in.Val = 1
				ops[i].Input = in
			} else if ops[i].Output.(int) != 0 {
				ops[i].Output = 1
			}
		}
	}
	// overlap statistics
	overlaps := 0
	for i := range ops {
		for j := i + 1; j < len(ops); j++ {
			if ops[i].ClientId != ops[j].ClientId && ops[i].Call < ops[j].Return && ops[j].Call < ops[i].Return {
				overlaps++
			}
		}
	}
	res, info := porcupine.CheckOperationsVerbose(lruModel(c.Capacity), ops, 20*time.Second)
	r.Eval([]byte(c.Stream))
	r.EvalN(int64(len(ops)))
	r.Hist("linearizability/histories")
	r.HistN("linearizability/operations", int64(len(ops)))
	if overlaps > 0 {
		r.Hist("linearizability/histories-with-overlapping-operations")
	}
	r.HistN("linearizability/overlapping-pairs", int64(overlaps))
	if presenceOnly {
		r.Hist("linearizability/histories-checked-presence-only")
	}
	switch res {
	case porcupine.Illegal:
		var hist []string
		for _, op := range ops {
			hist = append(hist, fmt.Sprintf("c%d [%d,%d] %s", op.ClientId, op.Call, op.Return, lruModel(c.Capacity).DescribeOperation(op.Input, op.Output)))
		}
		_ = info
		r.Violate("cache/not-linearizable", fmt.Sprintf("no sequential LRU execution (capacity %d) explains the recorded history of %d operations", c.Capacity, len(ops)), map[string]any{"case": c, "history": hist})
	case porcupine.Unknown:
		r.Hist("linearizability/checker-timeouts")
		r.Inconclusive("porcupine timed out on " + c.Stream)
	}
	inspectCache(r, inner, c.Capacity, c)
}

// sequentialLRU: one client, a long PRNG program over a key universe a little larger than the capacity, at
// capacities far beyond the small ones the concurrent histories use (and on both sides of powers of two): every Get
// must return exactly what a sequential LRU of that capacity holds - the latest expansion put for a resident key,
// nothing for a key that was never put or has been evicted as the least recently used one.
func sequentialLRU(r *mon.Run, c Case) {
	rng := r.Rng(c.Stream)
	universe := c.Capacity + 1 + rng.IntN(5)
	if universe > len(lk.pubs) {
		universe = len(lk.pubs)
	}
	inner := cache.NewLRUCache(c.Capacity)
	type ent struct {
		key int
		val *ed25519.ExpandedPublicKey
	}
	var model []ent // front = most recently used
	find := func(k int) int {
		for i, e := range model {
			if e.key == k {
				return i
			}
		}
		return -1
	}
	touch := func(i int) {
		e := model[i]
		copy(model[1:i+1], model[:i])
		model[0] = e
	}
	nops := 6*c.Capacity + 60
	var scratch curve.CompressedEdwardsY
	for op := 0; op < nops; op++ {
		k := rng.IntN(universe)
		if op < c.Capacity+2 {
			k = op % universe // fill up in order first, so that the capacity limit is reached exactly
		}
		scratch = lk.comps[k]
		r.Eval(nil)
		if rng.IntN(3) != 0 || op < c.Capacity+2 {
			e, _ := ed25519.NewExpandedPublicKey(lk.pubs[k])
			inner.Put(&scratch, e)
			if i := find(k); i >= 0 {
				touch(i) // Put of a resident key keeps the resident expansion and only marks it most recently used
			} else {
				if len(model) == c.Capacity {
					model = model[:len(model)-1]
				}
				model = append([]ent{{k, e}}, model...)
			}
		} else {
			got := inner.Get(&scratch)
			var want *ed25519.ExpandedPublicKey
			if i := find(k); i >= 0 {
				want = model[i].val
				touch(i)
			}
			if got != want {
				r.Violate("cache/sequential-lru", fmt.Sprintf("capacity %d, universe %d, operation %d: Get(key %d) returned %s, a sequential LRU holds %s (%d keys resident in the model)", c.Capacity, universe, op, k, descr(got), descr(want), len(model)), c)
				return
			}
		}
		if op%64 == 0 {
			inspectCache(r, inner, c.Capacity, c)
		}
	}
	inspectCache(r, inner, c.Capacity, c)
	r.Hist(fmt.Sprintf("sequential-lru/capacity=%d", c.Capacity))
	r.HistN("sequential-lru/operations", int64(nops))
}

func descr(e *ed25519.ExpandedPublicKey) string {
	if e == nil {
		return "nothing"
	}
	y := e.CompressedY()
	return fmt.Sprintf("an expansion of %x..", y[:4])
}

func runCase(r *mon.Run, c Case) {
	switch c.Kind {
	case "stress":
		stress(r, c)
	case "linearizability":
		linearizability(r, c)
	case "sequential-lru":
		sequentialLRU(r, c)
	}
}

func tableDigestAPI() string {
	h := sha256.New()
	add := func(p *curve.EdwardsPoint) { b, _ := p.MarshalBinary(); h.Write(b) }
	add(curve.ED25519_BASEPOINT_POINT)
	add(curve.ED25519_BASEPOINT_TABLE.Basepoint())
	for _, t := range curve.EIGHT_TORSION {
		add(t)
	}
	h.Write(curve.ED25519_BASEPOINT_COMPRESSED[:])
	h.Write(curve.X25519_BASEPOINT[:])
	h.Write(x25519.Basepoint)
	// every table row is read by multiplying with scalars whose digits select it
	for d := byte(1); d <= 8; d++ {
		for _, neg := range []bool{false, true} {
			b := bytes.Repeat([]byte{d | d<<4}, 32)
			b[31] &= 0x0f
			s, _ := scalar.NewFromBits(b)
			if neg {
				s.Neg(s)
			}
			add(curve.NewEdwardsPoint().MulBasepoint(curve.ED25519_BASEPOINT_TABLE, s))
			add(curve.NewEdwardsPoint().DoubleScalarMulBasepointVartime(scalar.New(), curve.ED25519_BASEPOINT_POINT, s))
		}
	}
	return fmt.Sprintf("%x", h.Sum(nil))
}

// coldStart: the very first library operations of this process are issued concurrently, with no sequential
// warm-up, so that lazily initialised package state (tables built on first use, sync.Once fast paths) is
// initialised under contention while the race detector watches. Inputs are prepared with Go's own crypto only.
func coldStart(r *mon.Run) {
	rng := r.Rng("c18/coldstart")
	seed := mon.Bytes(rng, 32)
	spriv := stded.NewKeyFromSeed(seed)
	spub := spriv.Public().(stded.PublicKey)
	msg := mon.Bytes(rng, 64)
	ssig := stded.Sign(spriv, msg)
	xk := mon.Bytes(rng, 32)
	type res struct {
		name string
		out  []byte
	}
	ops := []func() res{
		func() res { return res{"Verify", bb(ed25519.Verify(ed25519.PublicKey(spub), msg, ssig))} },
		func() res {
			return res{"VerifyWithOptions(StdLib)", bb(ed25519.VerifyWithOptions(ed25519.PublicKey(spub), msg, ssig, &ed25519.Options{Verify: ed25519.VerifyOptionsStdLib}))}
		},
		func() res {
			x, err := ed25519.NewExpandedPublicKey(ed25519.PublicKey(spub))
			if err != nil {
				return res{"VerifyExpanded", nil}
			}
			return res{"VerifyExpanded", bb(ed25519.VerifyExpanded(x, msg, ssig))}
		},
		func() res {
			x, err := ed25519.NewExpandedPublicKey(ed25519.PublicKey(spub))
			if err != nil {
				return res{"VerifyExpandedWithOptions(StdLib)", nil}
			}
			return res{"VerifyExpandedWithOptions(StdLib)", bb(ed25519.VerifyExpandedWithOptions(x, msg, ssig, &ed25519.Options{Verify: ed25519.VerifyOptionsStdLib}))}
		},
		func() res {
			s, _ := scalar.NewFromBytesModOrderWide(msg)
			x := curve.NewExpandedEdwardsPoint(curve.ED25519_BASEPOINT_POINT)
			b, _ := curve.NewEdwardsPoint().ExpandedDoubleScalarMulBasepointVartime(s, x, s).MarshalBinary()
			return res{"ExpandedDoubleScalarMulBasepointVartime", b}
		},
		func() res { return res{"Sign", ed25519.Sign(ed25519.PrivateKey(spriv), msg)} },
		func() res { return res{"NewKeyFromSeed", ed25519.NewKeyFromSeed(seed)} },
		func() res { out, _ := x25519.X25519(xk, x25519.Basepoint); return res{"X25519(Basepoint)", out} },
		func() res {
			bv := ed25519.NewBatchVerifier()
			for i := 0; i < 4; i++ {
				bv.Add(ed25519.PublicKey(spub), msg, ssig)
			}
			all, _ := bv.Verify(nil)
			return res{"Batch", bb(all)}
		},
		func() res {
			v := cache.NewVerifier(cache.NewLRUCache(2))
			return res{"cache.Verify", bb(v.Verify(ed25519.PublicKey(spub), msg, ssig))}
		},
		func() res {
			pi := ecvrf.Prove(ed25519.PrivateKey(spriv), msg)
			ok, beta := ecvrf.Verify(ed25519.PublicKey(spub), pi, msg)
			return res{"ecvrf", append(append(pi, bb(ok)...), beta...)}
		},
		func() res {
			msk, _ := sr25519.NewMiniSecretKeyFromBytes(seed)
			kp := msk.ExpandUniform().KeyPair()
			st := sr25519.NewSigningContext([]byte("c")).NewTranscriptBytes(msg)
			sig, _ := kp.Sign(zeroes{}, st)
			b, _ := sig.MarshalBinary()
			return res{"sr25519", append(b, bb(kp.PublicKey().Verify(st, sig))...)}
		},
		func() res {
			s, _ := scalar.NewFromBytesModOrderWide(msg)
			b, _ := curve.NewEdwardsPoint().DoubleScalarMulBasepointVartime(s, curve.ED25519_BASEPOINT_POINT, s).MarshalBinary()
			return res{"DoubleScalarMulBasepointVartime", b}
		},
		func() res {
			s, _ := scalar.NewFromBytesModOrderWide(msg)
			b, _ := curve.NewRistrettoPoint().MulBasepoint(curve.RISTRETTO_BASEPOINT_TABLE, s).MarshalBinary()
			return res{"Ristretto.MulBasepoint", b}
		},
	}
	const copies = 3
	results := make([]res, len(ops)*copies)
	var wg sync.WaitGroup
	start := make(chan struct{})
	for i := range results {
		wg.Add(1)
		go func(i int) {
			defer wg.Done()
			<-start
			results[i] = ops[i%len(ops)]()
		}(i)
	}
	close(start)
	wg.Wait()
	// now sequentially: every concurrent first-use result must equal the sequential one
	for i, got := range results {
		want := ops[i%len(ops)]()
		r.Eval([]byte("cold/" + got.name))
		r.Hist("coldstart/" + got.name)
		if !bytes.Equal(got.out, want.out) {
			r.Violate("concurrent/cold-start/"+got.name, fmt.Sprintf("first use under contention gave %x, sequential %x", head(got.out), head(want.out)), Case{Kind: "coldstart"})
		}
	}
}

func main() {
	cold := false
	for i, a := range os.Args {
		if a == "-coldstart" {
			os.Args = append(os.Args[:i:i], os.Args[i+1:]...)
			cold = true
			break
		}
	}
	if cold {
		r := mon.Start("C18", "cold start: the first library operations of a fresh process issued concurrently under the race detector")
		coldStart(r)
		r.Finish()
		return
	}
	r := mon.Start("C18", "stress: G goroutines x N PRNG-chosen operations (sign, verify plain/ctx/ph/expanded with shared keys and presets, own batch verifiers over shared keys, key derivation, ECVRF, X25519 with the shared Basepoint, sr25519 with a shared signing context, fixed-base/custom tables, multiscalar over shared points and expansions, a shared cache.Verifier of capacity 1..3 over 5 keys) under the race detector, each result compared with its sequential value, shared objects re-checked afterwards, table digests before/after, cache structure inspected every 16 operations; linearizability: many short histories (3-6 clients x 6-12 rounds behind a spin barrier, capacity 1..3, universe capacity+2, PRNG yields/sleeps around and between the Get and Put of an upsert, unique expansion per Put) plus longer free-running ones, checked with porcupine against a sequential LRU; non-trivial = one stress run or one history; distinct = its PRNG stream")
	var c Case
	// key universe for the histories
	krng := r.Rng("c18/keys")
	for i := 0; i < 320; i++ {
		priv := ed25519.NewKeyFromSeed(mon.Bytes(krng, 32))
		pub := priv.Public().(ed25519.PublicKey)
		var y curve.CompressedEdwardsY
		copy(y[:], pub)
		lk.pubs = append(lk.pubs, pub)
		lk.comps = append(lk.comps, y)
	}
	if r.Replay != "" {
		var w struct {
			Case Case `json:"case"`
		}
		if r.LoadReplay(&w) && w.Case.Kind != "" {
			runCase(r, w.Case)
		} else if r.LoadReplay(&c) && c.Kind != "" {
			runCase(r, c)
		}
		r.Finish()
		return
	}
	r.Observe("GOMAXPROCS", runtime.GOMAXPROCS(0))
	for i := 0; i < r.Pick(6, 40); i++ {
		runCase(r, Case{Kind: "stress", Stream: fmt.Sprintf("c18/stress/%d", i), Clients: r.Pick(8, 32), Ops: r.Pick(40, 150)})
	}
	for rep := 0; rep < r.Pick(1, 6); rep++ {
		for _, capa := range []int{1, 2, 3, 7, 8, 9, 63, 64, 65, 127, 128, 129, 130, 255, 256, 257, 300} {
			runCase(r, Case{Kind: "sequential-lru", Stream: fmt.Sprintf("c18/seq/%d/%d", capa, rep), Capacity: capa})
		}
	}
	nh := r.Pick(1500, 30000)
	for i := 0; i < nh; i++ {
		c := Case{Kind: "linearizability", Stream: fmt.Sprintf("c18/lin/%d", i), Clients: 3 + i%4, Ops: 6 + i%7, Capacity: 1 + i%3}
		if i%50 == 49 {
			c.Clients, c.Ops = 6, 40 // longer history
		}
		runCase(r, c)
	}
	r.Sample("case", Case{Kind: "stress", Stream: "c18/stress/0", Clients: r.Pick(8, 32), Ops: r.Pick(40, 150)})
	r.Sample("case", Case{Kind: "linearizability", Stream: "c18/lin/0", Clients: 3, Ops: 6, Capacity: 1})
	r.Sample("case", Case{Kind: "linearizability", Stream: "c18/lin/49", Clients: 6, Ops: 40, Capacity: 2})
	if r.HistGet("linearizability/histories-with-overlapping-operations")*4 < r.HistGet("linearizability/histories") {
		r.Inconclusive("fewer than a quarter of the histories contained overlapping operations")
	}
	r.Finish()
}

// deadlockWatch decides a deadlock of the shared cache from a WITNESS, not from elapsed time: when the operation counter
// has stood still for a while it takes a dump of all goroutines and looks at the ones that are inside the cache package.
// The cache's lock is only ever held by a goroutine executing a cache method; if every goroutine inside the package is
// parked in a lock acquisition (and there is at least one), nobody is left who could release the lock, now or later:
// the run can never finish. That state is reported as a violation with the stacks; anything else (slow machine, long
// operation) is left to the orchestrator's wall-clock watchdog, whose firing is only ever "inconclusive".
func deadlockWatch(r *mon.Run, c Case, progress *int64) chan struct{} {
	stop := make(chan struct{})
	go func() {
		last, still := int64(-1), 0
		for {
			select {
			case <-stop:
				return
			case <-time.After(2 * time.Second):
			}
			cur := atomic.LoadInt64(progress)
			if cur != last {
				last, still = cur, 0
				continue
			}
			still++
			if still < 5 {
				continue
			}
			buf := make([]byte, 4<<20)
			buf = buf[:runtime.Stack(buf, true)]
			inCache, parked := 0, 0
			var sample string
			for _, g := range strings.Split(string(buf), "\n\n") {
				if !strings.Contains(g, "/extra/cache.") {
					continue
				}
				inCache++
				top := g
				if i := strings.Index(g, "/extra/cache."); i > 0 {
					top = g[:i] // the frames above the first cache frame: what the goroutine is doing inside it
				}
				if strings.Contains(top, "sync.runtime_Semacquire") || strings.Contains(top, "sync.(*RWMutex).RLock") || strings.Contains(top, "sync.(*RWMutex).Lock") || strings.Contains(top, "sync.(*Mutex).Lock") {
					parked++
					if sample == "" {
						sample = g
					}
				}
			}
			if inCache > 0 && parked == inCache {
				if len(sample) > 1500 {
					sample = sample[:1500]
				}
				r.Violate("concurrent/deadlock-on-the-shared-cache", fmt.Sprintf("no operation has completed for %d s (%d done); all %d goroutines that are inside the cache package are parked acquiring its lock, so no goroutine is left that could release it. One of them:\n%s", 2*still, cur, inCache, sample), c)
				r.Finish()
				os.Exit(0)
			}
			still = 0 // not a deadlock witness: keep waiting
		}
	}()
	return stop
}
