//go:build verif && !(amd64 && !purego && !force32bit)

package main

import "hash"

func vectorDigest(h hash.Hash) {}
