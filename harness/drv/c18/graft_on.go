//go:build verif

package main

import (
	"crypto/sha256"
	"fmt"
	"strings"

	"github.com/oasisprotocol/curve25519-voi/curve"
	"github.com/oasisprotocol/curve25519-voi/internal/field"
	"github.com/oasisprotocol/curve25519-voi/primitives/ed25519/extra/cache"
	"github.com/oasisprotocol/curve25519-voi/zzverif/mon"
)

func inspectCache(r *mon.Run, c cache.Cache, capacity int, cs Case) {
	snap, ok := cache.VerifInspect(c)
	if !ok {
		return
	}
	r.Hist("cache/inspections")
	if snap.ListLen == capacity {
		r.Hist("cache/inspections-at-capacity")
	}
	if len(snap.Problems) > 0 {
		r.Violate("cache/structure/"+snap.Problems[0], strings.Join(snap.Problems, "; "), cs)
	}
}

// tableDigest hashes the raw limbs of every precomputed table entry of this build.
func tableDigest() string {
	h := sha256.New()
	fe := func(e *field.Element) { fmt.Fprint(h, field.VerifLimbs(e)) }
	an := func(e *curve.VerifAffineNiels) { fe(&e.YplusX); fe(&e.YminusX); fe(&e.XY2D) }
	if live, ok := curve.VerifLiveBasepointTable(); ok {
		for i := range live {
			for j := range live[i] {
				an(&live[i][j])
			}
		}
	}
	odd, shl := curve.VerifOddMultiples()
	for i := range odd {
		an(&odd[i])
		an(&shl[i])
	}
	vectorDigest(h)
	for _, t := range curve.EIGHT_TORSION {
		X, Y, Z, T := curve.VerifCoords(t)
		fe(X)
		fe(Y)
		fe(Z)
		fe(T)
	}
	X, Y, Z, T := curve.VerifCoords(curve.ED25519_BASEPOINT_POINT)
	fe(X)
	fe(Y)
	fe(Z)
	fe(T)
	return fmt.Sprintf("%x", h.Sum(nil)) + tableDigestAPI()
}
