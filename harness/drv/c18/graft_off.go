//go:build !verif

package main

import (
	"github.com/oasisprotocol/curve25519-voi/primitives/ed25519/extra/cache"
	"github.com/oasisprotocol/curve25519-voi/zzverif/mon"
)

func inspectCache(r *mon.Run, c cache.Cache, capacity int, cs Case) {}
func tableDigest() string                                           { return tableDigestAPI() }
