//go:build verif && amd64 && !purego && !force32bit

package main

import (
	"fmt"
	"hash"

	"github.com/oasisprotocol/curve25519-voi/curve"
)

func vectorDigest(h hash.Hash) {
	odd, shl, base, ok := curve.VerifVectorTables()
	if ok {
		fmt.Fprint(h, odd, shl, base)
	}
}
