// C15: ECVRF proofs are complete, unique and specification-exact.
// Monitor: every Prove*/Verify*/ProofToHash call is shadowed by an RFC 9381 (and draft-10)
// reference in big integers; soundness-side inputs (bit flips, s+L, special Gamma encodings,
// small-order / non-canonical keys with forged proofs, torsion-shifted Gamma from a malicious
// prover that knows the key) check rejection and uniqueness of the output.
package main

import (
	"bytes"
	"crypto/sha512"
	"errors"
	"fmt"
	"math/big"

	"github.com/oasisprotocol/curve25519-voi/primitives/ed25519"
	"github.com/oasisprotocol/curve25519-voi/primitives/ed25519/extra/ecvrf"
	"github.com/oasisprotocol/curve25519-voi/zzverif/entropy"
	"github.com/oasisprotocol/curve25519-voi/zzverif/gen"
	"github.com/oasisprotocol/curve25519-voi/zzverif/mon"
	"github.com/oasisprotocol/curve25519-voi/zzverif/ref"
)

type Case struct {
	Kind  string `json:"kind"`
	Seed  string `json:"seed,omitempty"`
	Alpha string `json:"alpha,omitempty"`
	V10   bool   `json:"v10"`
	Idx   int    `json:"idx"`
}

type failing struct{ n int }

func (f *failing) Read(p []byte) (int, error) {
	if f.n <= 0 {
		return 0, errors.New("entropy failure")
	}
	k := min(f.n, len(p))
	f.n -= k
	return k, nil
}

// verify hands the library pk, pi and alpha as adjacent fields of one received frame (sub-slices with spare
// capacity); memViolation is non-empty when the call changed any byte of that frame or of the memory after it.
func verify(r *mon.Run, c Case, v10 bool, pk, pi, alpha []byte) (ok bool, beta []byte, pan bool, msg string) {
	fr, frameCheck := mon.Frame(pk, pi, alpha)
	if len(alpha) == 0 && len(pi) > 0 && pi[0]&1 == 1 {
		// the empty message as a nil slice (half of the time): nil and empty are the same byte string
		fr[2] = nil
		r.Hist("verify/empty-alpha-passed-as-nil")
	}
	pan, msg = mon.Try(func() {
		if v10 {
			ok, beta = ecvrf.Verify_v10(fr[0], fr[1], fr[2])
		} else {
			ok, beta = ecvrf.Verify(fr[0], fr[1], fr[2])
		}
	})
	if m := frameCheck(); m != "" {
		r.Violate("ecvrf/Verify/writes-caller-memory", fmt.Sprintf("Verify(v10=%v) on pk||pi||alpha: %s", v10, m), c)
	}
	return
}

func expectVerify(r *mon.Run, c Case, what string, v10 bool, pk, pi, alpha []byte, want bool, wantBeta []byte) {
	ok, beta, pan, msg := verify(r, c, v10, pk, pi, alpha)
	r.Eval(nil)
	r.Hist(fmt.Sprintf("verify/%s/want=%v", what, want))
	switch {
	case pan:
		r.Violate("ecvrf/Verify/"+what+"/panic", msg, c)
	case ok != want:
		r.Violate(fmt.Sprintf("ecvrf/Verify/%s/want=%v", what, want), fmt.Sprintf("v10=%v pk=%x pi=%x: got %v", v10, pk, pi, ok), c)
	case ok && !bytes.Equal(beta, wantBeta):
		r.Violate("ecvrf/Verify/"+what+"/output", fmt.Sprintf("v10=%v: beta %x want %x", v10, beta, wantBeta), c)
	case !ok && beta != nil:
		r.Violate("ecvrf/Verify/"+what+"/output-on-failure", "non-nil output with a failed verification", c)
	}
}

func proofToHash(r *mon.Run, c Case, pi []byte) {
	got, err := ecvrf.ProofToHash(pi)
	want, ok := ref.VRFProofToHash(pi)
	r.Eval(nil)
	r.Hist(fmt.Sprintf("ProofToHash/accept=%v", ok))
	if (err == nil) != ok {
		r.Violate(fmt.Sprintf("ecvrf/ProofToHash/accept/want=%v", ok), fmt.Sprintf("pi=%x err=%v", pi, err), c)
	} else if ok && !bytes.Equal(got, want) {
		r.Violate("ecvrf/ProofToHash/value", fmt.Sprintf("pi=%x", pi), c)
	}
}

func honest(r *mon.Run, c Case) {
	seed, alpha := mon.UnHex(c.Seed), mon.UnHex(c.Alpha)
	rng := r.Rng(fmt.Sprintf("c15/%d/%v", c.Idx, c.V10))
	sk := ed25519.NewKeyFromSeed(seed)
	pk := []byte(sk.Public().(ed25519.PublicKey))
	v10 := c.V10
	r.Journal("c15 honest %+v", c)
	r.Eval([]byte(fmt.Sprintf("%s|%s|%v", c.Seed, c.Alpha, v10)))
	var pi []byte
	// the private key is one entry of a slab of keys, the message a field after it
	slab, slabCheck := mon.Frame(sk, bytes.Repeat([]byte{0x5c}, 64), alpha)
	if pan, msg := mon.Try(func() {
		if v10 {
			pi = ecvrf.Prove_v10(ed25519.PrivateKey(slab[0]), slab[2])
		} else {
			pi = ecvrf.Prove(ed25519.PrivateKey(slab[0]), slab[2])
		}
	}); pan {
		r.Violate("ecvrf/Prove/panic", msg, c)
		return
	}
	if m := slabCheck(); m != "" {
		r.Violate("ecvrf/Prove/writes-caller-memory", fmt.Sprintf("Prove(v10=%v) on sk||next key||alpha: %s", v10, m), c)
	}
	want, _ := ref.VRFProve(seed, alpha, v10, nil, nil)
	if !bytes.Equal(pi, want) {
		r.Violate("ecvrf/Prove/rfc9381-mismatch", fmt.Sprintf("v10=%v: got %x want %x", v10, pi, want), c)
		return
	}
	beta, okb := ref.VRFProofToHash(pi)
	rok, rbeta := ref.VRFVerify(pk, pi, alpha, v10)
	if !okb || !rok || !bytes.Equal(beta, rbeta) {
		mon.Fatalf("ORACLE: reference rejects its own proof")
	}
	expectVerify(r, c, "honest", v10, pk, pi, alpha, true, beta)
	proofToHash(r, c, pi)
	// the two challenge formats never cross-verify
	expectVerify(r, c, "cross-format", !v10, pk, pi, alpha, false, nil)

	// added randomness: exact value for a fixed stream, depends on the stream, failing entropy is an error
	z1, z2 := bytes.Repeat([]byte{1}, 32), bytes.Repeat([]byte{2}, 32)
	prove := func(z []byte) ([]byte, error) {
		if v10 {
			return ecvrf.ProveWithAddedRandomness_v10(bytes.NewReader(z), sk, alpha)
		}
		return ecvrf.ProveWithAddedRandomness(bytes.NewReader(z), sk, alpha)
	}
	p1, e1 := prove(z1)
	p2, e2 := prove(z2)
	r.EvalN(2)
	if e1 != nil || e2 != nil {
		r.Violate("ecvrf/ProveWithAddedRandomness/error", fmt.Sprintf("%v %v", e1, e2), c)
	} else {
		w1, _ := ref.VRFProve(seed, alpha, v10, ref.VRFNonce(seed, alpha, z1), nil)
		if !bytes.Equal(p1, w1) {
			r.Violate("ecvrf/ProveWithAddedRandomness/value", fmt.Sprintf("got %x want %x", p1, w1), c)
		}
		if bytes.Equal(p1, pi) || bytes.Equal(p1, p2) {
			r.Violate("ecvrf/ProveWithAddedRandomness/independent-of-entropy", "", c)
		}
		expectVerify(r, c, "added-randomness", v10, pk, p1, alpha, true, beta) // same Gamma, same output
	}
	for _, k := range []int{0, 31} {
		var p []byte
		var err error
		if v10 {
			p, err = ecvrf.ProveWithAddedRandomness_v10(&failing{k}, sk, alpha)
		} else {
			p, err = ecvrf.ProveWithAddedRandomness(&failing{k}, sk, alpha)
		}
		if err == nil || p != nil {
			r.Violate("ecvrf/ProveWithAddedRandomness/entropy-failure-ignored", fmt.Sprintf("reader failing after %d bytes", k), c)
		}
	}

	// soundness: altered proof bits
	flips := []int{639, 638, 636, 635, 383, 376, 255, 254, 0, 7, 256, 384}
	for i := 0; i < r.Pick(20, 120); i++ {
		flips = append(flips, rng.IntN(640))
	}
	for _, b := range flips {
		p2 := append([]byte{}, pi...)
		p2[b/8] ^= 1 << uint(b%8)
		expectVerify(r, c, "proof-bit-flip", v10, pk, p2, alpha, false, nil)
		proofToHash(r, c, p2)
	}
	// s + L (still < 2^256)
	S := ref.FromLE(pi[48:])
	for k := int64(1); k < 16; k++ {
		s2 := new(big.Int).Add(S, new(big.Int).Mul(ref.L, big.NewInt(k)))
		if s2.BitLen() > 256 {
			break
		}
		p3 := append(append([]byte{}, pi[:48]...), ref.LE32(s2)...)
		expectVerify(r, c, "s+kL", v10, pk, p3, alpha, false, nil)
		proofToHash(r, c, p3)
	}
	// other input / other key
	expectVerify(r, c, "alpha-extended", v10, pk, pi, append(append([]byte{}, alpha...), 0), false, nil)
	if len(alpha) > 0 {
		a2 := append([]byte{}, alpha...)
		a2[rng.IntN(len(a2))] ^= 1
		expectVerify(r, c, "alpha-bit-flip", v10, pk, pi, a2, false, nil)
	}
	other := ed25519.NewKeyFromSeed(mon.Bytes(rng, 32))
	expectVerify(r, c, "other-key", v10, []byte(other[32:]), pi, alpha, false, nil)
	pk2 := append([]byte{}, pk...)
	pk2[rng.IntN(32)] ^= 1 << uint(rng.IntN(8))
	expectVerify(r, c, "key-bit-flip", v10, pk2, pi, alpha, false, nil)
	// key with a torsion component added (mixed order): not the signer's key
	for j := 1; j < 8; j += 3 {
		pkj := ref.Encode(ref.Decode(pk).Pt.Add(gen.Tors[j]))
		expectVerify(r, c, "key+torsion", v10, pkj, pi, alpha, false, nil)
	}
	// Gamma replaced by each special encoding (small order canonical / non-canonical)
	for _, e := range gen.SpecialEncodings() {
		p4 := append(append([]byte{}, e...), pi[32:]...)
		expectVerify(r, c, "special-gamma", v10, pk, p4, alpha, false, nil)
		proofToHash(r, c, p4)
	}

	// uniqueness: a malicious prover who knows x shifts Gamma by a torsion point and grinds the nonce until
	// c*T_j = O; the RFC accepts such proofs and the output must equal the honest one (cofactor clearing)
	for j := 1; j < 8; j++ {
		tj := gen.Tors[j]
		for try := 0; try < 200; try++ {
			k := gen.RandModL(rng)
			pim, cc := ref.VRFProve(seed, alpha, v10, k, &tj)
			if !tj.Mul(cc).IsIdentity() {
				continue
			}
			if j == 1 && c.Idx%4 == 0 {
				if rok, rb := ref.VRFVerify(pk, pim, alpha, v10); !rok || !bytes.Equal(rb, beta) {
					mon.Fatalf("ORACLE: reference does not accept the torsion-shifted proof it built")
				}
			}
			expectVerify(r, c, "torsion-shifted-gamma", v10, pk, pim, alpha, true, beta)
			proofToHash(r, c, pim)
			break
		}
	}
	// specification-exactness of key validation: a public key with a torsion component (canonical, not of small order,
	// outside the prime-order subgroup) is a VALID key under RFC 9381 5.4.5; a prover who knows x grinds the nonce until
	// c*T_j = O, and the proof verifies, with the output proof-to-hash gives. For the first nonce with c*T_j != O the
	// same construction must be rejected.
	if c.Idx%2 == 0 {
		x := gen.RandModL(rng)
		for j := 1; j < 8; j++ {
			tj := gen.Tors[j]
			rejectedSeen := false
			for try := 0; try < 200; try++ {
				k := gen.RandModL(rng)
				pkm, pim, cc := ref.VRFProveMixedKey(x, tj, alpha, v10, k)
				valid := tj.Mul(cc).IsIdentity()
				if !valid && rejectedSeen {
					continue
				}
				rok, rb := ref.VRFVerify(pkm, pim, alpha, v10)
				if rok != valid {
					mon.Fatalf("ORACLE: reference verifier and the mixed-order-key construction disagree")
				}
				if valid {
					expectVerify(r, c, "mixed-order-key-valid-proof", v10, pkm, pim, alpha, true, rb)
					break
				}
				rejectedSeen = true
				expectVerify(r, c, "mixed-order-key-invalid-proof", v10, pkm, pim, alpha, false, nil)
			}
		}
	}
	// nonces chosen by the prover (who knows x): k = 0 makes the recomputed commitments U = V = O, k = 1, L-1, the
	// cofactor and a small value make them the simplest non-trivial points. RFC 9381 ECVRF_verify has no opinion on U
	// and V beyond the challenge comparison: these proofs are VALID, with the honest output.
	for _, kv := range []*big.Int{big.NewInt(0), big.NewInt(1), new(big.Int).Sub(ref.L, big.NewInt(1)), big.NewInt(8), big.NewInt(2)} {
		pik, _ := ref.VRFProve(seed, alpha, v10, kv, nil)
		if rok, rb := ref.VRFVerify(pk, pik, alpha, v10); !rok || !bytes.Equal(rb, beta) {
			mon.Fatalf("ORACLE: reference does not accept the chosen-nonce proof it built (k=%v)", kv)
		}
		expectVerify(r, c, "chosen-nonce", v10, pk, pik, alpha, true, beta)
		proofToHash(r, c, pik)
	}
	// one key buffer used for two keys in turn, the same alpha: each proof is the proof for the key the buffer holds
	// at the time of the call
	{
		seed2 := sha512.Sum512_256(seed)
		sk2 := ed25519.NewKeyFromSeed(seed2[:])
		kb := make([]byte, 64, 96)
		for round, key := range []ed25519.PrivateKey{sk, sk2, sk} {
			copy(kb, key)
			sd := key.Seed()
			var got []byte
			pan, msg := mon.Try(func() {
				if v10 {
					got = ecvrf.Prove_v10(ed25519.PrivateKey(kb), alpha)
				} else {
					got = ecvrf.Prove(ed25519.PrivateKey(kb), alpha)
				}
			})
			wantPi, _ := ref.VRFProve(sd, alpha, v10, nil, nil)
			r.Eval(nil)
			r.Hist("reused-key-buffer/prove")
			if pan || !bytes.Equal(got, wantPi) {
				r.Violate("ecvrf/Prove/reused-key-buffer", fmt.Sprintf("round %d: panic=%v %s got %x want %x", round, pan, msg, got, wantPi), c)
				continue
			}
			wb, _ := ref.VRFProofToHash(wantPi)
			pkb := kb[32:64]
			expectVerify(r, c, "reused-key-buffer", v10, pkb, wantPi, alpha, true, wb)
		}
	}
	r.Sample(fmt.Sprintf("honest-v10=%v", v10), map[string]any{"case": c, "pi": mon.Hex(pi), "beta": mon.Hex(beta)})
}

// badKeys: small-order keys with a forged proof that verifies except for key validation; non-canonical keys; lengths.
func badKeys(r *mon.Run, c Case) {
	rng := r.Rng(fmt.Sprintf("c15/badkeys/%d", c.Idx))
	alpha := mon.Bytes(rng, rng.IntN(40))
	r.Eval([]byte(fmt.Sprintf("badkeys%d", c.Idx)))
	for _, v10 := range []bool{false, true} {
		for _, e := range gen.SpecialEncodings() {
			d := ref.Decode(e)
			if !d.OK {
				continue
			}
			// small-order Y (any encoding), small-order Gamma: grind k until c = 0 mod 8, then everything but
			// validate_key / canonical-key checks would accept
			if d.SmallOrder {
				g := gen.Tors[rng.IntN(8)]
				for try := 0; try < 200; try++ {
					k := gen.RandModL(rng)
					pi, cc := ref.VRFForge(e, g, alpha, v10, k)
					if new(big.Int).Mod(cc, big.NewInt(8)).Sign() != 0 {
						continue
					}
					expectVerify(r, c, "small-order-key-forgery", v10, e, pi, alpha, false, nil)
					break
				}
			} else {
				// non-canonical encoding of a point of large order: no proof can be forged, it must simply be rejected
				expectVerify(r, c, "non-canonical-key", v10, e, make([]byte, 80), alpha, false, nil)
			}
		}
		good := ed25519.NewKeyFromSeed(mon.Bytes(rng, 32))
		pi := ecvrf.Prove(good, alpha)
		for l := 0; l <= 100; l++ {
			if l != 32 {
				expectVerify(r, c, "key-length", v10, make([]byte, l), pi, alpha, false, nil)
			}
			if l != 80 {
				p := make([]byte, l)
				copy(p, pi)
				expectVerify(r, c, "proof-length", v10, []byte(good[32:]), p, alpha, false, nil)
				proofToHash(r, c, p)
			}
		}
		expectVerify(r, c, "nil-inputs", v10, nil, nil, nil, false, nil)
	}
}

// entropyCase: the entropy-consuming APIs of this property behind differently behaving readers (package entropy).
func entropyCase(r *mon.Run, c Case) {
	entropy.Check(r, "C15", r.Rng(fmt.Sprintf("c15/entropy/%d", c.Idx)), func(sig, what string) { r.Violate(sig, what, c) })
}

func runCase(r *mon.Run, c Case) {
	if c.Kind == "entropy" {
		entropyCase(r, c)
		return
	}
	switch c.Kind {
	case "honest":
		honest(r, c)
	case "badkeys":
		badKeys(r, c)
	}
}

func main() {
	r := mon.Start("C15", "seeds {0^32, ff^32, RFC 9381 seeds, PRNG} x alpha lengths {0,1,72,127,128,1000} x {RFC 9381, draft-10}: proof bytes vs the reference, honest verification, Verify output == ProofToHash, added randomness (exact value, entropy dependence, failing reader), cross-format rejection; per proof: 32+ bit flips (incl. bit 639 and the c/s boundaries), s+kL, altered alpha/key, key+torsion, Gamma replaced by each small-order / non-canonical encoding, torsion-shifted Gamma from a malicious prover with c*T_j = O (accepted, output must equal the honest one); small-order keys with proofs forged so that only key validation can reject them; non-canonical keys; lengths 0..100; non-trivial = (seed, alpha, format); distinct = SHA-256 of it")
	var c Case
	if r.LoadReplay(&c) {
		runCase(r, c)
		r.Finish()
		return
	}
	rng := r.Rng("c15")
	rfcSeeds := []string{
		"9d61b19deffd5a60ba844af492ec2cc44449c5697b326919703bac031cae7f60",
		"4ccd089b28ff96da9db6c346ec114e0f5b8a319f35aba624da8cf6ed4fb8a6fb",
		"c5aa8df43f9f837bedb7442f31dcb7b166d38535076f094b85ce3a2e0b4458f7",
	}
	alphaLens := []int{0, 1, 31, 32, 33, 63, 64, 65, 72, 95, 96, 97, 127, 128, 129, 1000}
	var cases []Case
	n := r.Pick(30, 900)
	for i := 0; i < n; i++ {
		seed := mon.Bytes(rng, 32)
		switch {
		case i == 0:
			seed = make([]byte, 32)
		case i == 1:
			seed = bytes.Repeat([]byte{0xff}, 32)
		case i-2 < len(rfcSeeds):
			seed = mon.UnHex(rfcSeeds[i-2])
		}
		alpha := mon.Bytes(rng, alphaLens[i%len(alphaLens)])
		for _, v10 := range []bool{false, true} {
			cases = append(cases, Case{Kind: "honest", Seed: mon.Hex(seed), Alpha: mon.Hex(alpha), V10: v10, Idx: i})
		}
	}
	for i := 0; i < r.Pick(2, 30); i++ {
		cases = append(cases, Case{Kind: "badkeys", Idx: i})
	}
	r.Parallel(len(cases), func(i int) { runCase(r, cases[i]) })
	for _, b := range []string{"verify/torsion-shifted-gamma/want=true", "verify/mixed-order-key-valid-proof/want=true", "verify/small-order-key-forgery/want=false", "verify/honest/want=true"} {
		if r.HistGet(b) == 0 {
			r.Inconclusive("workload never reached " + b)
		}
	}
	for i := 0; i < r.Pick(6, 60); i++ {
		entropyCase(r, Case{Kind: "entropy", Idx: i})
	}
	r.Finish()
}
