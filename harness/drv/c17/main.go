// C17: scalar digit recodings preserve the value within their digit bounds.
// Monitor: every digit vector returned by Bits / NonAdjacentForm / ToRadix16 / ToRadix2w is
// reconstructed as an integer and range-checked; the same scalars are then fed through the
// table-driven multiplications so that every digit is also observed where a lookup consumes it.
package main

import (
	"bytes"
	"fmt"
	"math/big"
	"math/rand/v2"

	"github.com/oasisprotocol/curve25519-voi/curve"
	"github.com/oasisprotocol/curve25519-voi/curve/scalar"
	"github.com/oasisprotocol/curve25519-voi/zzverif/gen"
	"github.com/oasisprotocol/curve25519-voi/zzverif/hist"
	"github.com/oasisprotocol/curve25519-voi/zzverif/mon"
	"github.com/oasisprotocol/curve25519-voi/zzverif/ref"
)

type Case struct {
	Kind   string `json:"kind"`
	Stream string `json:"stream,omitempty"`
	V      string `json:"v,omitempty"` // hex big-endian
}

var mask255 = new(big.Int).Sub(gen.Two255, big.NewInt(1))

type ctx struct {
	r *mon.Run
	c Case
	h *hist.Pool // scalar objects with a past: recoded before, then overwritten through some mutator (package hist)
}

func (x *ctx) fail(sig, what string, v *big.Int) {
	// the witness replays the whole enclosing case: the scalar objects carry a past, so the value alone may not
	// reproduce a failure that depends on what its object held before
	c := x.c
	if c.Kind == "" || c.Kind == "value" {
		c = Case{Kind: "value"}
	}
	c.V = fmt.Sprintf("%x", v)
	x.r.Violate("digits/"+sig, fmt.Sprintf("%s (scalar %x)", what, v), c)
}

func (x *ctx) check(v *big.Int) {
	r := x.r
	// the object has held other values and has been recoded with them; the value is written through a randomly
	// chosen mutator (SetBits, Set, ConditionalSelect, and for reduced values the decoders and arithmetic)
	s := x.h.SVal(ref.LE32(v))
	r.Journal("c17 value %x", v)
	r.Eval(v.Bytes())
	acc := new(big.Int)
	// bit decomposition
	bits := s.Bits()
	for i := 255; i >= 0; i-- {
		acc.Lsh(acc, 1)
		if bits[i] > 1 {
			x.fail("Bits/range", fmt.Sprintf("bit %d = %d", i, bits[i]), v)
		}
		acc.Add(acc, big.NewInt(int64(bits[i])))
	}
	if acc.Cmp(v) != 0 {
		x.fail("Bits/value", fmt.Sprintf("reconstructs to %x", acc), v)
	}
	// signed radix 16: digits in [-8,8) except the last in [-8,8]
	d16 := s.ToRadix16()
	acc.SetInt64(0)
	for i := 63; i >= 0; i-- {
		acc.Lsh(acc, 4)
		acc.Add(acc, big.NewInt(int64(d16[i])))
		if d16[i] < -8 || d16[i] > 8 || (i < 63 && d16[i] == 8) {
			x.fail("ToRadix16/range", fmt.Sprintf("digit %d at %d", d16[i], i), v)
		}
		r.Max("radix16/max-digit", int64(d16[i]))
		r.Max("radix16/max-neg-digit", int64(-d16[i]))
	}
	if acc.Cmp(v) != 0 {
		x.fail("ToRadix16/value", fmt.Sprintf("reconstructs to %x", acc), v)
	}
	// width-w NAF
	for w := uint(2); w <= 8; w++ {
		n := s.NonAdjacentForm(w)
		acc.SetInt64(0)
		for i := 255; i >= 0; i-- {
			acc.Lsh(acc, 1)
			acc.Add(acc, big.NewInt(int64(n[i])))
		}
		last := -1000
		for i := 0; i < 256; i++ {
			d := int(n[i])
			if d == 0 {
				continue
			}
			if d%2 == 0 || d >= 1<<(w-1) || d <= -(1<<(w-1)) {
				x.fail(fmt.Sprintf("NonAdjacentForm(%d)/range", w), fmt.Sprintf("digit %d at %d", d, i), v)
			}
			if i-last < int(w) {
				x.fail(fmt.Sprintf("NonAdjacentForm(%d)/spacing", w), fmt.Sprintf("non-zero digits at %d and %d", last, i), v)
			}
			last = i
			r.Max(fmt.Sprintf("naf%d/top-index", w), int64(i))
		}
		if acc.Cmp(v) != 0 {
			x.fail(fmt.Sprintf("NonAdjacentForm(%d)/value", w), fmt.Sprintf("reconstructs to %x", acc), v)
		}
	}
	// signed radix 2^w
	for w := uint(6); w <= 8; w++ {
		d := s.ToRadix2w(w)
		hint := scalar.ToRadix2wSizeHint(w)
		half := 1 << (w - 1)
		acc.SetInt64(0)
		for i := 42; i >= 0; i-- {
			acc.Lsh(acc, w)
			acc.Add(acc, big.NewInt(int64(d[i])))
			if uint(i) >= hint && d[i] != 0 {
				x.fail(fmt.Sprintf("ToRadix2w(%d)/beyond-size-hint", w), fmt.Sprintf("digit %d at %d (hint %d)", d[i], i, hint), v)
			}
		}
		for i := 0; i < int(hint); i++ {
			dv := int(d[i])
			switch {
			case w == 8 && i == int(hint)-1:
				// the terminal carry lives in its own digit: 0 or 1
				if dv != 0 && dv != 1 {
					x.fail("ToRadix2w(8)/terminal-carry", fmt.Sprintf("carry digit %d", dv), v)
				}
				r.Max("radix256/terminal-carry", int64(dv))
			case w < 8 && i == int(hint)-1:
				// documented: the final carry is folded onto the last digit (d + carry*2^w)
				if dv < -half || dv >= half+(1<<w) {
					x.fail(fmt.Sprintf("ToRadix2w(%d)/range", w), fmt.Sprintf("last digit %d", dv), v)
				}
			default:
				if dv < -half || dv >= half {
					x.fail(fmt.Sprintf("ToRadix2w(%d)/range", w), fmt.Sprintf("digit %d at %d", dv, i), v)
				}
			}
		}
		if acc.Cmp(v) != 0 {
			x.fail(fmt.Sprintf("ToRadix2w(%d)/value", w), fmt.Sprintf("reconstructs to %x", acc), v)
		}
	}
	r.EvalN(11)
}

// reconstruct adds digit*2^bit for every (digit, bit) into a byte-wise signed accumulator and reports whether the
// sum equals the 32-byte little-endian value.
type recon struct{ acc [48]int64 }

func (a *recon) add(d int64, bit uint) { a.acc[bit/8] += d << (bit % 8) }
func (a *recon) equals(v []byte) bool {
	carry := int64(0)
	for i := range a.acc {
		t := a.acc[i] + carry
		b := t & 0xff
		carry = (t - b) >> 8
		want := int64(0)
		if i < 32 {
			want = int64(v[i])
		}
		if b != want {
			return false
		}
	}
	return carry == 0
}

// fastCheck applies the same rules as check (value reconstruction and digit ranges of every recoding) without big
// integers, so that millions of structured strings can be pushed through.
func (x *ctx) fastCheck(vb []byte) {
	s := x.h.SVal(vb)
	bad := func(sig string) {
		x.fail(sig, "fast path; re-run through the full checker with the replay", ref.FromLE(vb))
	}
	var a recon
	bits := s.Bits()
	for i, b := range bits {
		if b > 1 {
			bad("Bits/range")
		}
		a.add(int64(b), uint(i))
	}
	if !a.equals(vb) {
		bad("Bits/value")
	}
	a = recon{}
	d16 := s.ToRadix16()
	for i, d := range d16 {
		if d < -8 || d > 8 || (i < 63 && d == 8) {
			bad("ToRadix16/range")
		}
		a.add(int64(d), uint(4*i))
	}
	if !a.equals(vb) {
		bad("ToRadix16/value")
	}
	for w := uint(2); w <= 8; w++ {
		n := s.NonAdjacentForm(w)
		a = recon{}
		last := -1000
		for i, d := range n {
			if d == 0 {
				continue
			}
			if d%2 == 0 || int(d) >= 1<<(w-1) || int(d) <= -(1<<(w-1)) {
				bad(fmt.Sprintf("NonAdjacentForm(%d)/range", w))
			}
			if i-last < int(w) {
				bad(fmt.Sprintf("NonAdjacentForm(%d)/spacing", w))
			}
			last = i
			a.add(int64(d), uint(i))
		}
		if !a.equals(vb) {
			bad(fmt.Sprintf("NonAdjacentForm(%d)/value", w))
		}
	}
	for w := uint(6); w <= 8; w++ {
		d := s.ToRadix2w(w)
		hint := int(scalar.ToRadix2wSizeHint(w))
		half := 1 << (w - 1)
		a = recon{}
		for i, dv := range d {
			switch {
			case i >= hint:
				if dv != 0 {
					bad(fmt.Sprintf("ToRadix2w(%d)/beyond-size-hint", w))
				}
			case w == 8 && i == hint-1:
				if dv != 0 && dv != 1 {
					bad("ToRadix2w(8)/terminal-carry")
				}
			case w < 8 && i == hint-1:
				if int(dv) < -half || int(dv) >= half+(1<<w) {
					bad(fmt.Sprintf("ToRadix2w(%d)/range", w))
				}
			default:
				if int(dv) < -half || int(dv) >= half {
					bad(fmt.Sprintf("ToRadix2w(%d)/range", w))
				}
			}
			a.add(int64(dv), uint(i)*w)
		}
		if !a.equals(vb) {
			bad(fmt.Sprintf("ToRadix2w(%d)/value", w))
		}
	}
	x.r.EvalN(12)
}

// alphabetString: a 255-bit value whose u-bit digits are drawn independently from the values that steer the carry
// logic of a signed recoding - half-1 (passes a carry on), half (creates one), 0 and 2^u-1, their neighbours - with a
// few arbitrary digits in between. Detached and interrupted carry chains of every shape appear with probability
// 2^-8..2^-12 per string instead of 2^-32 and less for uniform strings.
func alphabetString(rng *rand.Rand, u uint) []byte {
	half := uint64(1) << (u - 1)
	max := uint64(1)<<u - 1
	v := new(big.Int)
	for pos := uint(0); pos < 255; pos += u {
		var d uint64
		switch rng.IntN(12) {
		case 0, 1, 2:
			d = half - 1
		case 3, 4:
			d = half
		case 5, 6:
			d = 0
		case 7:
			d = max
		case 8:
			d = 1
		case 9:
			d = half + 1
		case 10:
			d = max - 1
		default:
			d = rng.Uint64() & max
		}
		v.Or(v, new(big.Int).Lsh(new(big.Int).SetUint64(d), pos))
	}
	v.And(v, mask255)
	return ref.LE32(v)
}

// consume: the digits drive table lookups; wrong or out-of-range digits show as a wrong point or a panic.
func (x *ctx) consume(vals []*big.Int, rng *rand.Rand) {
	r := x.r
	T := gen.KnownPoint("B+T", big.NewInt(1), 1)
	for _, v := range vals {
		s, _ := scalar.NewFromBits(ref.LE32(v))
		want := ref.Encode(T.Ref.Mul(v))
		wantB := ref.Encode(ref.B.Mul(new(big.Int).Mod(v, ref.L)))
		for name, f := range map[string]func() *curve.EdwardsPoint{
			"Mul(radix16 lookups)": func() *curve.EdwardsPoint { return curve.NewEdwardsPoint().Mul(T.Lib, s) },
			"Straus-vartime(NAF5 lookups)": func() *curve.EdwardsPoint {
				return curve.NewEdwardsPoint().MultiscalarMulVartime([]*scalar.Scalar{s}, []*curve.EdwardsPoint{T.Lib})
			},
			"DoubleBase(NAF5+NAF8 lookups)": func() *curve.EdwardsPoint {
				return curve.NewEdwardsPoint().DoubleScalarMulBasepointVartime(s, T.Lib, scalar.New())
			},
		} {
			var got *curve.EdwardsPoint
			pan, msg := mon.Try(func() { got = f() })
			r.Eval(nil)
			r.Hist("consume/" + name)
			if pan {
				x.fail("consume/"+name+"/panic", msg, v)
			} else if b, _ := got.MarshalBinary(); !bytes.Equal(b, want) {
				x.fail("consume/"+name, "wrong point", v)
			}
		}
		var got *curve.EdwardsPoint
		pan, msg := mon.Try(func() { got = curve.NewEdwardsPoint().MulBasepoint(curve.ED25519_BASEPOINT_TABLE, s) })
		if pan {
			x.fail("consume/MulBasepoint/panic", msg, v)
		} else if b, _ := got.MarshalBinary(); !bytes.Equal(b, wantB) {
			x.fail("consume/MulBasepoint", "wrong point", v)
		}
	}
	// Pippenger windows: 200 (w=6), 500 (w=7), 800 (w=8) terms all on the same point T: sum = [sum v_i]T
	for _, n := range []int{200, 500, 800} {
		if r.Quick && n == 500 && rng.IntN(2) == 0 {
			continue
		}
		var ss []*scalar.Scalar
		var ps []*curve.EdwardsPoint
		sum := new(big.Int)
		for i := 0; i < n; i++ {
			v := vals[rng.IntN(len(vals))]
			s, _ := scalar.NewFromBits(ref.LE32(v))
			ss = append(ss, s)
			ps = append(ps, T.Lib)
			sum.Add(sum, v)
		}
		want := ref.Encode(ref.B.Mul(new(big.Int).Mod(sum, ref.L)).Add(gen.Tors[new(big.Int).Mod(sum, big.NewInt(8)).Int64()]))
		var got *curve.EdwardsPoint
		pan, msg := mon.Try(func() { got = curve.NewEdwardsPoint().MultiscalarMulVartime(ss, ps) })
		r.Eval(nil)
		r.Hist(fmt.Sprintf("consume/Pippenger(n=%d)", n))
		if pan {
			x.r.Violate(fmt.Sprintf("digits/consume/Pippenger(n=%d)/panic", n), msg, x.c)
		} else if b, _ := got.MarshalBinary(); !bytes.Equal(b, want) {
			x.r.Violate(fmt.Sprintf("digits/consume/Pippenger(n=%d)", n), "wrong point", x.c)
		}
	}
}

func structured() []*big.Int {
	var out []*big.Int
	do := func(v *big.Int) { out = append(out, new(big.Int).And(v, mask255)) }
	for k := uint(0); k <= 255; k++ {
		p := new(big.Int).Lsh(big.NewInt(1), k)
		do(p)
		do(new(big.Int).Sub(p, big.NewInt(1)))
		do(new(big.Int).Add(p, big.NewInt(1)))
	}
	for b := 0; b < 256; b++ {
		do(new(big.Int).SetBytes(bytes.Repeat([]byte{byte(b)}, 32)))
	}
	for pos := 0; pos < 64; pos++ {
		for nib := 0; nib < 16; nib++ {
			v := new(big.Int).Lsh(big.NewInt(int64(nib)), uint(4*pos))
			do(v)
			w := new(big.Int).AndNot(mask255, new(big.Int).Lsh(big.NewInt(15), uint(4*pos)))
			do(w.Or(w, v))
		}
	}
	for w := uint(2); w <= 8; w++ {
		for _, dv := range []int64{1 << (w - 1), 1<<(w-1) - 1, 1<<(w-1) + 1, 1<<w - 1} {
			v := new(big.Int)
			for i := 0; i < 256/int(w)+1; i++ {
				v.Lsh(v, w)
				v.Add(v, big.NewInt(dv))
			}
			do(v)
		}
	}
	// ones straddling the 64-bit word seams in every window alignment, on zero and all-ones backgrounds
	for _, seam := range []uint{64, 128, 192} {
		for lo := seam - 9; lo <= seam; lo++ {
			for width := uint(1); width <= 10; width++ {
				v := new(big.Int).Lsh(new(big.Int).Sub(new(big.Int).Lsh(big.NewInt(1), width), big.NewInt(1)), lo)
				do(v)
				do(new(big.Int).Xor(mask255, v))
				// plus a lone low bit so that carries arrive at the seam
				do(new(big.Int).Or(v, new(big.Int).Lsh(big.NewInt(1), lo-20)))
			}
		}
	}
	// two isolated bits (i, j) around the seams: exercises window extraction across words without carry
	for _, seam := range []uint{64, 128, 192} {
		for i := seam - 10; i < seam; i++ {
			for j := seam; j < seam+4; j++ {
				do(new(big.Int).Or(new(big.Int).Lsh(big.NewInt(1), i), new(big.Int).Lsh(big.NewInt(1), j)))
			}
		}
	}
	// prefixes of all-ones / nibble fills cut at every byte length (short scalars with empty upper words)
	for n := 1; n <= 32; n++ {
		for _, b := range []byte{0xff, 0x88, 0x77, 0x80, 0x7f} {
			do(new(big.Int).SetBytes(bytes.Repeat([]byte{b}, n)))
		}
	}
	// carry-propagation chains: a digit that generates a recentring carry (>= half) at position i followed by a
	// run of k digits equal to half-1 (which the incoming carry turns into carry generators), for every radix in
	// use, every start and every run length, on a zero background and with a non-zero digit on top
	for _, w := range []uint{4, 5, 6, 7, 8} {
		half := int64(1) << (w - 1)
		nd := int(255 / w)
		for i := 0; i < nd; i++ {
			for k := 1; i+k < nd && k <= 64; k++ {
				if w != 4 && (i%3 != 0 || k%2 != 0) {
					continue // full grid for radix 16, a sub-grid for the wider radices
				}
				v := new(big.Int).Lsh(big.NewInt(half), uint(i)*w)
				for j := 1; j <= k; j++ {
					v.Or(v, new(big.Int).Lsh(big.NewInt(half-1), uint(i+j)*w))
				}
				do(v)
				do(new(big.Int).Or(v, new(big.Int).Lsh(big.NewInt(1), uint(i+k+1)*w)))
			}
		}
	}
	out = append(out, new(big.Int).Sub(ref.L, big.NewInt(1)), new(big.Int).Set(ref.L), new(big.Int).Set(mask255))
	out = append(out, gen.ScalarCatalogue()...)
	return out
}

func runCase(r *mon.Run, c Case) {
	x := &ctx{r: r, c: c, h: hist.New(r.Rng(c.Stream + "/objects"))}
	rng := r.Rng(c.Stream)
	switch c.Kind {
	case "value":
		v, _ := new(big.Int).SetString(c.V, 16)
		x.check(v)
		x.consume([]*big.Int{v}, rng)
	case "structured":
		st := structured()
		r.Observe("structured_values", len(st))
		for _, v := range st {
			x.check(v)
		}
	case "random":
		for i := 0; i < 2000; i++ {
			x.check(gen.Rand255(rng))
		}
	case "alphabet":
		for i := 0; i < 20000; i++ {
			u := uint(4 + i%5)
			x.fastCheck(alphabetString(rng, u))
			if i%64 == 0 {
				x.r.Eval(nil)
				x.r.Hist(fmt.Sprintf("alphabet-strings/digit-bits=%d", u))
			}
		}
	case "consume":
		st := structured()
		var pick []*big.Int
		for i := 0; i < 40; i++ {
			pick = append(pick, st[rng.IntN(len(st))])
		}
		pick = append(pick, mask255, new(big.Int).Sub(gen.Two255, big.NewInt(19)))
		x.consume(pick, rng)
	}
}

func main() {
	r := mon.Start("C17", "exhaustive structured families (2^k, 2^k+-1 for k=0..255; every byte value x32; every nibble at each of the 64 positions on zero and all-ones backgrounds; all-half / all-(half-1) digit strings for w=2..8; runs of ones and isolated bit pairs straddling bits 64/128/192 in every alignment; byte-length prefixes; L-1, L, 2^255-1; the scalar catalogue) + PRNG 255-bit values; each value through Bits, NAF w=2..8, radix-16, radix-2^w w=6..8 with value reconstruction and digit-range rules; plus consumption of the same scalars by table-driven multiplications (radix-16, NAF, Pippenger w=6/7/8) against the reference; invalid widths must panic; non-trivial = one scalar value; distinct = SHA-256 of the value")
	var c Case
	if r.LoadReplay(&c) {
		runCase(r, c)
		r.Finish()
		return
	}
	cases := []Case{{Kind: "structured"}}
	for i := 0; i < r.Pick(100, 4000); i++ {
		cases = append(cases, Case{Kind: "random", Stream: fmt.Sprintf("c17/random/%d", i)})
	}
	for i := 0; i < r.Pick(48, 1600); i++ {
		cases = append(cases, Case{Kind: "alphabet", Stream: fmt.Sprintf("c17/alphabet/%d", i)})
	}
	for i := 0; i < r.Pick(12, 200); i++ {
		cases = append(cases, Case{Kind: "consume", Stream: fmt.Sprintf("c17/consume/%d", i)})
	}
	// documented panics for invalid widths
	s := scalar.NewFromUint64(5)
	for _, w := range []uint{0, 1, 9, 64} {
		if pan, _ := mon.Try(func() { s.NonAdjacentForm(w) }); !pan {
			r.Violate("digits/NonAdjacentForm/invalid-width-accepted", fmt.Sprintf("w=%d did not panic", w), Case{Kind: "width"})
		}
	}
	for _, w := range []uint{0, 1, 5, 9} {
		if pan, _ := mon.Try(func() { s.ToRadix2w(w) }); !pan {
			r.Violate("digits/ToRadix2w/invalid-width-accepted", fmt.Sprintf("w=%d did not panic", w), Case{Kind: "width"})
		}
		if pan, _ := mon.Try(func() { scalar.ToRadix2wSizeHint(w) }); !pan {
			r.Violate("digits/ToRadix2wSizeHint/invalid-width-accepted", fmt.Sprintf("w=%d did not panic", w), Case{Kind: "width"})
		}
	}
	r.EvalN(12)
	r.Parallel(len(cases), func(i int) { runCase(r, cases[i]) })
	r.Sample("case", cases[0])
	r.Sample("value", "7fffffffffffffffffffffffffffffffffffffffffffffffffffffffffffffff")
	r.Sample("case", cases[len(cases)-1])
	r.Finish()
}
