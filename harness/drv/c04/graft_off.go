//go:build !verif

package main

import (
	"fmt"
	"math/big"
	"math/rand/v2"

	"github.com/oasisprotocol/curve25519-voi/internal/field"
	"github.com/oasisprotocol/curve25519-voi/zzverif/mon"
)

func backendName() string                                    { return "unknown (no graft)" }
func limbValue(fe *field.Element) (*big.Int, bool)           { return nil, false }
func observeOut(r *mon.Run, op string, fe *field.Element)    {}
func describe(fe *field.Element) string                      { return fmt.Sprintf("%x", toBytes(fe)) }
func graftMulVariants(x *ctx, a, b *Elem, det func() string) {}
func limbStress(x *ctx, rng *rand.Rand)                      { x.r.HookMissing("field graft (raw limb access)") }
func laneStress(x *ctx, rng *rand.Rand)                      {}
