//go:build verif

package main

import (
	"fmt"
	"math/big"
	"math/bits"
	"math/rand/v2"

	"github.com/oasisprotocol/curve25519-voi/internal/field"
	"github.com/oasisprotocol/curve25519-voi/zzverif/mon"
)

func backendName() string { return field.VerifBackend }

var weights = field.VerifLimbWeights()

func limbValue(fe *field.Element) (*big.Int, bool) {
	return limbsValue(field.VerifLimbs(fe)), true
}

func limbsValue(l []uint64) *big.Int {
	v := new(big.Int)
	for i, x := range l {
		v.Add(v, new(big.Int).Lsh(new(big.Int).SetUint64(x), weights[i]))
	}
	return v
}

func describe(fe *field.Element) string { return fmt.Sprintf("limbs%x", field.VerifLimbs(fe)) }

// observeOut records the largest limb (in bits) an operation ever returned: the envelope the next operation sees.
func observeOut(r *mon.Run, op string, fe *field.Element) {
	m := 0
	for _, l := range field.VerifLimbs(fe) {
		if b := bits.Len64(l); b > m {
			m = b
		}
	}
	r.Max("out_limb_bits/"+op, int64(m))
}

func graftMulVariants(x *ctx, a, b *Elem, det func() string) {
	var out field.Element
	prod := new(big.Int).Mul(a.val, b.val)
	field.VerifMulImpl(&out, &a.fe, &b.fe)
	x.expect("feMul(impl)", &out, prod, det)
	field.VerifMulGeneric(&out, &a.fe, &b.fe)
	x.expect("feMulGeneric", &out, prod, det)
	for _, k := range []uint{1, 3} {
		e := new(big.Int).Lsh(big.NewInt(1), k)
		want := new(big.Int).Exp(mod(a.val), e, P)
		field.VerifPow2kImpl(&out, &a.fe, k)
		x.expect("fePow2k(impl)", &out, want, det)
		field.VerifPow2kGeneric(&out, &a.fe, k)
		x.expect("fePow2kGeneric", &out, want, det)
		t := a.fe
		field.VerifPow2kGeneric(&t, &t, k)
		x.expect("fePow2kGeneric-aliased", &t, want, det)
	}
}

// limit returns the exclusive upper bound of limb i for the given operand class.
//
//	"mul": operands of Mul/Square/Pow2k/Mul121666/Invert/SqrtRatioI
//	"add": operands of Add/Sub/Neg and of the read-only operations
func limit(class string, i int) uint64 {
	if field.VerifBackend == "u64" {
		return 1 << 54 // documented: "Choose 16*p = p << 4 to be larger than 54-bit b"; mul/square inputs < 2^(51+b), b < 3
	}
	base := uint(26)
	if i%2 == 1 {
		base = 25
	}
	if class == "mul" {
		// b < 1.75 bits of excess: floor(2^base * 2^1.75); 2^1.75 = 3.3635856...
		return uint64(float64(uint64(1)<<base) * 3.36358)
	}
	return 1 << (base + 3) // subtrahend must stay below 16p limb-wise; sums must not wrap 32 bits
}

func mask(i int) uint64 {
	if field.VerifBackend == "u64" {
		return 1<<51 - 1
	}
	if i%2 == 1 {
		return 1<<25 - 1
	}
	return 1<<26 - 1
}

func genLimbs(rng *rand.Rand, class string) ([]uint64, string) {
	n := len(weights)
	l := make([]uint64, n)
	pat := rng.IntN(12)
	name := ""
	for i := 0; i < n; i++ {
		lim := limit(class, i)
		switch pat {
		case 0:
			name = "all-max"
			l[i] = lim - 1
		case 1:
			name = "one-max"
		case 2:
			name = "alternating"
			if i%2 == 0 {
				l[i] = lim - 1
			}
		case 3:
			name = "alternating-odd"
			if i%2 == 1 {
				l[i] = lim - 1
			}
		case 4:
			name = "max-minus-small"
			l[i] = lim - 1 - uint64(rng.IntN(4))
		case 5:
			name = "at-mask"
			l[i] = mask(i) + uint64(rng.IntN(3)) - 1
		case 6:
			name = "p..2p"
			l[i] = mask(i) // value 2^255-1 = p+18; adjusted below
		case 7:
			name = "2x-mask"
			l[i] = 2 * mask(i)
		case 8, 9:
			name = "random-headroom"
			l[i] = rng.Uint64N(lim)
		case 10:
			name = "random-reduced"
			l[i] = rng.Uint64N(mask(i) + 1)
		default:
			name = "power-of-two"
			l[i] = uint64(1) << uint(rng.IntN(bits.Len64(lim-1)))
		}
	}
	if pat == 1 {
		i := rng.IntN(n)
		l[i] = limit(class, i) - 1
	}
	if pat == 6 {
		l[0] -= uint64(rng.IntN(38))
	}
	return l, name
}

func elemFromLimbs(l []uint64, src string) Elem {
	return Elem{fe: field.VerifFromLimbs(l), val: limbsValue(l), src: src}
}

// wordBoundary121666 builds operands of the multiply-by-constant whose partial products a_i*121666 end just
// below a 64-bit word boundary while the limb below produces a large carry-in: the place where a dropped
// carry between the low and the high word of a 128-bit accumulator would show.
func wordBoundary121666(rng *rand.Rand) []uint64 {
	n := len(weights)
	l := make([]uint64, n)
	for i := range l {
		lim := limit("mul", i)
		switch rng.IntN(3) {
		case 0:
			l[i] = lim - 1 - uint64(rng.IntN(1000)) // large carry-out
		default:
			// a = floor((m*2^64 - 1 - d) / 121666) for the m that fit below the limb bound
			hi := new(big.Int).Mul(new(big.Int).SetUint64(lim-1), big.NewInt(121666))
			hi.Rsh(hi, 64)
			mmax := hi.Uint64()
			if mmax == 0 {
				l[i] = rng.Uint64N(lim)
				continue
			}
			m := 1 + rng.Uint64N(mmax)
			v := new(big.Int).Lsh(new(big.Int).SetUint64(m), 64)
			v.Sub(v, big.NewInt(1+int64(rng.IntN(200000))))
			v.Div(v, big.NewInt(121666))
			l[i] = v.Uint64()
			if l[i] >= lim {
				l[i] = lim - 1
			}
		}
	}
	return l
}

func limbStress(x *ctx, rng *rand.Rand) {
	if field.VerifBackend == "u64" {
		for i := 0; i < 40; i++ {
			la := wordBoundary121666(rng)
			a := elemFromLimbs(la, "mul/word-boundary-121666")
			var out field.Element
			x.r.Eval([]byte(fmt.Sprint("wb", la)))
			x.r.Hist("limb-pattern/mul/word-boundary-121666")
			x.expect("Mul121666", out.Mul121666(&a.fe), new(big.Int).Mul(a.val, big.NewInt(121666)), func() string { return describe(&a.fe) })
		}
	}
	for i := 0; i < 30; i++ {
		la, na := genLimbs(rng, "mul")
		lb, nb := genLimbs(rng, "mul")
		a, b := elemFromLimbs(la, "mul/"+na), elemFromLimbs(lb, "mul/"+nb)
		x.r.Eval([]byte(fmt.Sprint("m", la, lb)))
		x.r.Hist("limb-pattern/mul/" + na)
		x.ops(a, b, dom{mul: true, read: true}, rng)
		la, na = genLimbs(rng, "add")
		lb, nb = genLimbs(rng, "add")
		a, b = elemFromLimbs(la, "add/"+na), elemFromLimbs(lb, "add/"+nb)
		x.r.Eval([]byte(fmt.Sprint("a", la, lb)))
		x.r.Hist("limb-pattern/add/" + na)
		x.ops(a, b, dom{add: true, sub: true, read: true}, rng)
	}
}

var _ = mon.Hex
