// C04: field arithmetic is exact modulo 2^255-19 for every representable input.
// Monitor: every field operation result (read back limb-wise through the field graft and
// through ToBytes) is compared with math/big on operands whose limbs sit anywhere in the
// documented headroom, on each backend; AVX2 lanes through the curve graft.
package main

import (
	"bytes"
	"fmt"
	"math/big"
	"math/rand/v2"

	"github.com/oasisprotocol/curve25519-voi/internal/field"
	"github.com/oasisprotocol/curve25519-voi/zzverif/fluent"
	"github.com/oasisprotocol/curve25519-voi/zzverif/gen"
	"github.com/oasisprotocol/curve25519-voi/zzverif/mon"
	"github.com/oasisprotocol/curve25519-voi/zzverif/ref"
)

type Case struct {
	Kind   string `json:"kind"`
	Stream string `json:"stream"`
}

// Elem is a library element together with the integer its representation denotes (mod p).
type Elem struct {
	fe  field.Element
	val *big.Int
	src string
}

var P = ref.P

func mod(v *big.Int) *big.Int { return new(big.Int).Mod(v, P) }

func fromBytes(b []byte) Elem {
	var e Elem
	if _, err := e.fe.SetBytes(b); err != nil {
		mon.Fatalf("SetBytes(32 bytes): %v", err)
	}
	v := ref.FromLE(b)
	v.And(v, ref.Mask255)
	e.val = mod(v)
	e.src = "bytes"
	return e
}

func fromBig(v *big.Int) Elem { return fromBytes(ref.LE32(mod(v))) }

func toBytes(fe *field.Element) []byte {
	var out [32]byte
	if err := fe.ToBytes(out[:]); err != nil {
		mon.Fatalf("ToBytes: %v", err)
	}
	return out[:]
}

type ctx struct {
	r *mon.Run
	c Case
}

// valueOf reads an element both ways (limbs via graft when available, and ToBytes) and checks them against want.
func (x *ctx) expect(op string, out *field.Element, want *big.Int, detail func() string) {
	x.r.Eval(nil)
	x.r.Hist("op/" + op)
	want = mod(want)
	got := toBytes(out)
	if !bytes.Equal(got, ref.LE32(want)) {
		x.r.Violate("field/"+op, fmt.Sprintf("%s: ToBytes(result)=%x want %x; %s", op, got, ref.LE32(want), detail()), x.c)
		return
	}
	if lv, ok := limbValue(out); ok {
		if mod(lv).Cmp(want) != 0 {
			x.r.Violate("field/"+op+"/limbs", fmt.Sprintf("%s: limb value mod p = %x want %x; %s", op, mod(lv), want, detail()), x.c)
		}
		observeOut(x.r, op, out)
	}
}

func (x *ctx) expectBool(op string, got, want bool, detail func() string) {
	x.r.Eval(nil)
	x.r.Hist("op/" + op)
	if got != want {
		x.r.Violate("field/"+op, fmt.Sprintf("%s: got %v want %v; %s", op, got, want, detail()), x.c)
	}
}

func sqrtRatioRef(u, v *big.Int) (bool, *big.Int) { return ref.SqrtRatioM1(mod(u), mod(v)) }

// ops exercises every operation on the operand pair (a, b); dom tells which operations the operands are admissible for.
func (x *ctx) ops(a, b Elem, d dom, rng *rand.Rand) {
	det := func() string { return fmt.Sprintf("a=%s b=%s (%s,%s)", describe(&a.fe), describe(&b.fe), a.src, b.src) }
	var out field.Element
	x.r.Journal("c04 ops %s", det())
	if d.add {
		x.expect("Add", out.Add(&a.fe, &b.fe), new(big.Int).Add(a.val, b.val), det)
		t := a.fe
		x.expect("Add-aliased", t.Add(&t, &b.fe), new(big.Int).Add(a.val, b.val), det)
	}
	if d.sub {
		x.expect("Sub", out.Sub(&a.fe, &b.fe), new(big.Int).Sub(a.val, b.val), det)
		t := b.fe
		x.expect("Sub-aliased", t.Sub(&a.fe, &t), new(big.Int).Sub(a.val, b.val), det)
		x.expect("Neg", out.Neg(&b.fe), new(big.Int).Neg(b.val), det)
		t = b.fe
		x.expect("Neg-aliased", t.Neg(&t), new(big.Int).Neg(b.val), det)
		for ch := 0; ch < 2; ch++ {
			t = b.fe
			t.ConditionalNegate(ch)
			w := new(big.Int).Set(b.val)
			if ch == 1 {
				w.Neg(w)
			}
			x.expect("ConditionalNegate", &t, w, det)
		}
	}
	if d.mul {
		prod := new(big.Int).Mul(a.val, b.val)
		x.expect("Mul", out.Mul(&a.fe, &b.fe), prod, det)
		t := a.fe
		x.expect("Mul-aliased-a", t.Mul(&t, &b.fe), prod, det)
		t = b.fe
		x.expect("Mul-aliased-b", t.Mul(&a.fe, &t), prod, det)
		sq := new(big.Int).Mul(a.val, a.val)
		x.expect("Mul(a,a)", out.Mul(&a.fe, &a.fe), sq, det)
		x.expect("Square", out.Square(&a.fe), sq, det)
		t = a.fe
		x.expect("Square-aliased", t.Square(&t), sq, det)
		x.expect("Square2", out.Square2(&a.fe), new(big.Int).Lsh(sq, 1), det)
		for _, k := range []uint{1, 2, 5, 50} {
			e := new(big.Int).Lsh(big.NewInt(1), k)
			x.expect(fmt.Sprintf("Pow2k(%d)", k), out.Pow2k(&a.fe, k), new(big.Int).Exp(mod(a.val), e, P), det)
		}
		x.expect("Mul121666", out.Mul121666(&a.fe), new(big.Int).Mul(a.val, big.NewInt(121666)), det)
		t = a.fe
		x.expect("Mul121666-aliased", t.Mul121666(&t), new(big.Int).Mul(a.val, big.NewInt(121666)), det)
		t = a.fe
		x.expect("Square2-aliased", t.Square2(&t), new(big.Int).Lsh(sq, 1), det)
		t = a.fe
		x.expect("Pow2k(5)-aliased", t.Pow2k(&t, 5), new(big.Int).Exp(mod(a.val), big.NewInt(32), P), det)
		t = a.fe
		x.expect("Mul-aliased-all", t.Mul(&t, &t), sq, det)
		graftMulVariants(x, &a, &b, det)
	}
	if d.mul && rng.IntN(4) == 0 {
		inv := new(big.Int)
		if mod(a.val).Sign() != 0 {
			inv.ModInverse(mod(a.val), P)
		}
		x.expect("Invert", out.Invert(&a.fe), inv, det)
		t := a.fe
		x.expect("Invert-aliased", t.Invert(&t), inv, det)
		was, root := sqrtRatioRef(a.val, b.val)
		_, flag := out.SqrtRatioI(&a.fe, &b.fe)
		x.expect("SqrtRatioI/root", &out, root, det)
		x.expectBool("SqrtRatioI/flag", flag == 1, was, det)
		// receiver is the numerator, the denominator, both
		t = a.fe
		_, flag = t.SqrtRatioI(&t, &b.fe)
		x.expect("SqrtRatioI/root(receiver=u)", &t, root, det)
		x.expectBool("SqrtRatioI/flag(receiver=u)", flag == 1, was, det)
		t = b.fe
		_, flag = t.SqrtRatioI(&a.fe, &t)
		x.expect("SqrtRatioI/root(receiver=v)", &t, root, det)
		x.expectBool("SqrtRatioI/flag(receiver=v)", flag == 1, was, det)
		wasAA, rootAA := sqrtRatioRef(a.val, a.val)
		t = a.fe
		_, flag = t.SqrtRatioI(&t, &t)
		x.expect("SqrtRatioI/root(receiver=u=v)", &t, rootAA, det)
		x.expectBool("SqrtRatioI/flag(receiver=u=v)", flag == 1, wasAA, det)
		was2, root2 := sqrtRatioRef(big.NewInt(1), a.val)
		t = a.fe
		_, flag2 := t.InvSqrt()
		x.expect("InvSqrt/root", &t, root2, det)
		x.expectBool("InvSqrt/flag", flag2 == 1, was2, det)
	}
	if d.read {
		// encoding is canonical; predicates answer the mathematical question
		x.expect("ToBytes", &a.fe, a.val, det)
		x.expectBool("IsNegative", a.fe.IsNegative() == 1, mod(a.val).Bit(0) == 1, det)
		x.expectBool("IsZero", a.fe.IsZero() == 1, mod(a.val).Sign() == 0, det)
		x.expectBool("Equal", a.fe.Equal(&b.fe) == 1, mod(a.val).Cmp(mod(b.val)) == 0, det)
		x.expectBool("Equal(self)", a.fe.Equal(&a.fe) == 1, true, det)
		for ch := 0; ch < 2; ch++ {
			w := a.val
			if ch == 1 {
				w = b.val
			}
			out.ConditionalSelect(&a.fe, &b.fe, ch)
			x.expect("ConditionalSelect", &out, w, det)
			t := a.fe
			t.ConditionalAssign(&b.fe, ch)
			x.expect("ConditionalAssign", &t, w, det)
			s1, s2 := a.fe, b.fe
			s1.ConditionalSwap(&s2, ch)
			w2 := b.val
			if ch == 1 {
				w2 = a.val
			}
			x.expect("ConditionalSwap/1", &s1, w, det)
			x.expect("ConditionalSwap/2", &s2, w2, det)
		}
		out.Set(&a.fe)
		x.expect("Set", &out, a.val, det)
	}
}

type dom struct{ add, sub, mul, read bool }

var all = dom{true, true, true, true}

func (x *ctx) decode(rng *rand.Rand) {
	// SetBytes: all 2^255 strings accepted, bit 255 ignored; values around p and 2^255
	var cands [][]byte
	for d := int64(-40); d <= 40; d++ {
		v := new(big.Int).Add(P, big.NewInt(d))
		if v.BitLen() <= 255 {
			cands = append(cands, ref.LE32(v))
		}
	}
	for d := int64(0); d < 40; d++ {
		cands = append(cands, ref.LE32(big.NewInt(d)), ref.LE32(new(big.Int).Sub(new(big.Int).Lsh(big.NewInt(1), 255), big.NewInt(1+d))))
	}
	for i := 0; i < 200; i++ {
		cands = append(cands, mon.Bytes(rng, 32))
	}
	for _, b := range cands {
		for top := 0; top < 2; top++ {
			bb := append([]byte{}, b...)
			if top == 1 {
				bb[31] |= 0x80
			}
			var fe field.Element
			_, err := fe.SetBytes(bb)
			v := ref.FromLE(bb)
			v.And(v, ref.Mask255)
			det := func() string { return fmt.Sprintf("in=%x", bb) }
			if err != nil {
				x.r.Violate("field/SetBytes/error", "SetBytes rejected a 32-byte string: "+det(), x.c)
				continue
			}
			x.r.Eval(bb)
			x.expect("SetBytes", &fe, v, det)
		}
	}
	// SetBytesWide: the full 512-bit integer mod p
	var wides [][]byte
	ff := bytes.Repeat([]byte{0xff}, 64)
	wides = append(wides, make([]byte, 64), ff)
	for _, bit := range []int{0, 254, 255, 256, 510, 511} {
		w := make([]byte, 64)
		w[bit/8] |= 1 << uint(bit%8)
		wides = append(wides, w)
		w2 := append([]byte{}, ff...)
		w2[bit/8] &^= 1 << uint(bit%8)
		wides = append(wides, w2)
	}
	lohi := [][]byte{make([]byte, 32), bytes.Repeat([]byte{0xff}, 32), ref.LE32(P), ref.LE32(new(big.Int).Sub(P, big.NewInt(1))), ref.LE32(new(big.Int).Add(P, big.NewInt(1)))}
	for _, lo := range lohi {
		for _, hi := range lohi {
			wides = append(wides, append(append([]byte{}, lo...), hi...))
		}
	}
	for i := 0; i < 300; i++ {
		w := mon.Bytes(rng, 64)
		switch i % 4 {
		case 1:
			w[63] |= 0x80
		case 2:
			w[31] |= 0x80
		case 3:
			w[31] |= 0x80
			w[63] |= 0x80
		}
		wides = append(wides, w)
	}
	for _, w := range wides {
		var fe field.Element
		_, err := fe.SetBytesWide(w)
		det := func() string { return fmt.Sprintf("in=%x", w) }
		if err != nil {
			x.r.Violate("field/SetBytesWide/error", "SetBytesWide rejected a 64-byte string: "+det(), x.c)
			continue
		}
		x.r.Eval(w)
		x.expect("SetBytesWide", &fe, ref.FromLE(w), det)
	}
	// wrong lengths are errors, never success
	for _, l := range []int{0, 1, 31, 33, 63, 64} {
		var fe field.Element
		if _, err := fe.SetBytes(make([]byte, l)); err == nil {
			x.r.Violate("field/SetBytes/length", fmt.Sprintf("SetBytes accepted %d bytes", l), x.c)
		}
	}
	for _, l := range []int{0, 32, 63, 65, 128} {
		var fe field.Element
		if _, err := fe.SetBytesWide(make([]byte, l)); err == nil {
			x.r.Violate("field/SetBytesWide/length", fmt.Sprintf("SetBytesWide accepted %d bytes", l), x.c)
		}
	}
}

// special values: 0, +-1, sqrt(-1), residues / non-residues, i*residue
func specials(rng *rand.Rand) []Elem {
	var out []Elem
	for _, v := range []int64{0, 1, 2, 4, 19, 121665, 121666} {
		out = append(out, fromBig(big.NewInt(v)), fromBig(big.NewInt(-v)))
	}
	out = append(out, fromBig(ref.SqrtM1), fromBig(new(big.Int).Neg(ref.SqrtM1)))
	for i := 0; i < 6; i++ {
		v := new(big.Int).SetBytes(mon.Bytes(rng, 32))
		sq := new(big.Int).Mul(v, v)
		out = append(out, fromBig(v), fromBig(sq), fromBig(new(big.Int).Mul(sq, ref.SqrtM1)), fromBig(new(big.Int).Mul(sq, big.NewInt(2))))
	}
	for i := range out {
		out[i].src = "special"
	}
	return out
}

func (x *ctx) api(rng *rand.Rand) {
	sp := specials(rng)
	for i := 0; i < 40; i++ {
		a, b := sp[rng.IntN(len(sp))], sp[rng.IntN(len(sp))]
		if rng.IntN(2) == 0 {
			a = fromBytes(mon.Bytes(rng, 32))
		}
		x.r.Eval(append(toBytes(&a.fe), toBytes(&b.fe)...))
		x.ops(a, b, all, rng)
		// unreduced representations the API itself produces: repeated additions (limbs grow by one bit per doubling)
		s := a
		for k := 0; k < 2; k++ {
			var t field.Element
			t.Add(&s.fe, &s.fe)
			s = Elem{fe: t, val: new(big.Int).Lsh(s.val, 1), src: fmt.Sprintf("2^%d*a", k+1)}
			x.ops(s, b, dom{add: true, sub: true, mul: k == 0, read: true}, rng)
		}
	}
	// SqrtRatioI on every pair of specials (zeros, residues, non-residues, i*residue)
	for _, u := range sp {
		for _, v := range sp {
			var out field.Element
			_, flag := out.SqrtRatioI(&u.fe, &v.fe)
			was, root := sqrtRatioRef(u.val, v.val)
			det := func() string { return fmt.Sprintf("u=%x v=%x", mod(u.val), mod(v.val)) }
			x.expect("SqrtRatioI/root", &out, root, det)
			x.expectBool("SqrtRatioI/flag", flag == 1, was, det)
			x.r.Hist(fmt.Sprintf("sqrtratio/flag=%v/u0=%v/v0=%v", was, mod(u.val).Sign() == 0, mod(v.val).Sign() == 0))
		}
	}
	// values and pairs that fool checksum-style predicates (package gen: CancelPatterns): non-zero elements whose
	// words cancel, and distinct elements whose difference does
	for _, d := range gen.CancelPatterns(rng, 240) {
		v := fromBytes(d)
		v.src = "cancelling-words"
		a := fromBytes(mon.Bytes(rng, 32))
		ab := make([]byte, 32)
		copy(ab, toBytes(&a.fe))
		bx := fromBytes(gen.XorBytes(ab, d))
		bs := fromBig(new(big.Int).Add(a.val, v.val))
		for _, pr := range [][2]Elem{{v, fromBig(big.NewInt(0))}, {a, bx}, {a, bs}, {bx, bs}} {
			x.ops(pr[0], pr[1], dom{read: true}, rng)
			x.ops(pr[1], pr[0], dom{read: true}, rng)
		}
	}
	// values whose low limbs are saturated just below the point where adding 19 carries out of them
	// (t*2^k + 2^k - 19 + j, k at every limb boundary of both backends): parity / sign and canonical encoding
	for _, k := range []uint{26, 51, 77, 102, 128, 153, 179, 204, 230, 255} {
		for j := int64(-2); j < 21; j++ {
			t := new(big.Int).SetBytes(mon.Bytes(rng, 32))
			if k == 255 {
				t.SetInt64(0)
			}
			v := new(big.Int).Lsh(t, k)
			v.Add(v, new(big.Int).Lsh(big.NewInt(1), k))
			v.Add(v, big.NewInt(j-19))
			v.And(v, new(big.Int).Sub(new(big.Int).Lsh(big.NewInt(1), 255), big.NewInt(1)))
			e := fromBig(v)
			e.src = "saturated-low-limbs"
			x.ops(e, fromBig(new(big.Int).Neg(v)), dom{read: true, add: true}, rng)
		}
	}
	// BatchInvert with zeros inside
	// (lengths on both sides of every power of two up to 256; zeros - as all-zero limbs and as the representation p -
	// at the first, the last and at word-boundary indices)
	zeroReps := []Elem{fromBytes(make([]byte, 32))}
	for _, e := range sp {
		if mod(e.val).Sign() == 0 {
			zeroReps = append(zeroReps, e)
		}
	}
	for _, n := range []int{0, 1, 2, 5, 17, 31, 32, 33, 63, 64, 65, 66, 127, 128, 129, 200, 255, 256, 257} {
		var es []Elem
		var ptrs []*field.Element
		for i := 0; i < n; i++ {
			e := sp[rng.IntN(len(sp))]
			if n > 17 || rng.IntN(2) == 0 {
				e = fromBytes(mon.Bytes(rng, 32))
			}
			es = append(es, e)
		}
		if n > 17 {
			for _, zi := range []int{0, n - 1, 31, 32, 63, 64, 65, 127, 128, rng.IntN(n)} {
				if zi < n && rng.IntN(3) != 0 {
					es[zi] = zeroReps[rng.IntN(len(zeroReps))]
				}
			}
		}
		for i := range es {
			ptrs = append(ptrs, &es[i].fe)
		}
		pan, msg := mon.Try(func() { field.BatchInvert(ptrs) })
		if pan {
			x.r.Violate("field/BatchInvert/panic", msg, x.c)
			continue
		}
		for i := range es {
			inv := new(big.Int)
			if mod(es[i].val).Sign() != 0 {
				inv.ModInverse(mod(es[i].val), P)
			}
			x.expect("BatchInvert", &es[i].fe, inv, func() string { return fmt.Sprintf("n=%d i=%d v=%x", n, i, mod(es[i].val)) })
		}
	}
}

func runCase(r *mon.Run, c Case) {
	if c.Kind == "fluent" {
		fluentCheck(r)
		return
	}
	rng := r.Rng(c.Stream)
	x := &ctx{r: r, c: c}
	switch c.Kind {
	case "decode":
		x.decode(rng)
	case "api":
		x.api(rng)
	case "limbs":
		limbStress(x, rng)
	case "lanes":
		laneStress(x, rng)
	}
}

func main() {
	r := mon.Start("C04", "operands: (i) raw-limb patterns through the field graft with every limb anywhere in the documented headroom (u64: < 2^54; u32: mul-type operands < 2^(26|25)+1.75 bits, additive operands < 2^(29|28)) - all-max, one-max, alternating, at/around the mask, values in [p,2p) and above, PRNG limbs; (ii) decoded values incl. 0, +-1, sqrt(-1), residues, non-residues, [p-40,2^255) and bit-255 variants; (iii) sums produced by the API itself; (iv) on AVX2, lanes up to the measured in-situ envelope. Every operation's result is read back limb-wise and via ToBytes and compared with math/big. non-trivial = operand tuple; distinct = SHA-256 of operand limbs/bytes")
	r.Observe("backend", backendName())
	var c Case
	if r.LoadReplay(&c) {
		runCase(r, c)
		r.Finish()
		return
	}
	var cases []Case
	cases = append(cases, Case{Kind: "decode", Stream: "c04/decode"})
	for i := 0; i < r.Pick(60, 1000); i++ {
		cases = append(cases, Case{Kind: "api", Stream: fmt.Sprintf("c04/api/%d", i)})
	}
	for i := 0; i < r.Pick(1500, 30000); i++ {
		cases = append(cases, Case{Kind: "limbs", Stream: fmt.Sprintf("c04/limbs/%d", i)})
	}
	for i := 0; i < r.Pick(200, 4000); i++ {
		cases = append(cases, Case{Kind: "lanes", Stream: fmt.Sprintf("c04/lanes/%d", i)})
	}
	r.Parallel(len(cases), func(i int) { runCase(r, cases[i]) })
	r.Sample("case", cases[0])
	r.Sample("case", cases[len(cases)/2])
	fluentCheck(r)
	r.Finish()
}

// fluentCheck: every "sets the receiver and returns it" method of this property's types must return its receiver
// (package fluent).
func fluentCheck(r *mon.Run) {
	fluent.Check(r, Case{Kind: "fluent"}, (*field.Element)(nil))
}
