//go:build verif && amd64 && !purego && !force32bit

package main

import (
	"fmt"
	"math/big"
	"math/rand/v2"

	"github.com/oasisprotocol/curve25519-voi/curve"
	"github.com/oasisprotocol/curve25519-voi/internal/field"
	"github.com/oasisprotocol/curve25519-voi/zzverif/mon"
)

// lane j of a vector occupies columns (lo, hi) = laneCols[j]: limb 2i in inner[i][lo], limb 2i+1 in inner[i][hi].
var laneCols = [4][2]int{{0, 2}, {1, 3}, {4, 6}, {5, 7}}

func laneLimbs(l *curve.VerifLanes, j int) [10]uint32 {
	var out [10]uint32
	for i := 0; i < 5; i++ {
		out[2*i] = l[i][laneCols[j][0]]
		out[2*i+1] = l[i][laneCols[j][1]]
	}
	return out
}

func setLane(l *curve.VerifLanes, j int, limbs [10]uint32) {
	for i := 0; i < 5; i++ {
		l[i][laneCols[j][0]] = limbs[2*i]
		l[i][laneCols[j][1]] = limbs[2*i+1]
	}
}

var w2625 = []uint{0, 26, 51, 77, 102, 128, 153, 179, 204, 230}

func laneValue(limbs [10]uint32) *big.Int {
	v := new(big.Int)
	for i, x := range limbs {
		v.Add(v, new(big.Int).Lsh(big.NewInt(int64(x)), w2625[i]))
	}
	return v
}

// genLane draws limbs below 2^(26|25) * factor.
func genLane(rng *rand.Rand, factor float64) [10]uint32 {
	var out [10]uint32
	pat := rng.IntN(6)
	for i := range out {
		base := float64(uint32(1) << 26)
		if i%2 == 1 {
			base = float64(uint32(1) << 25)
		}
		lim := uint32(base*factor) - 1
		switch pat {
		case 0:
			out[i] = lim
		case 1:
			if i%2 == 0 {
				out[i] = lim
			}
		case 2:
			if i%2 == 1 {
				out[i] = lim
			}
		case 3:
			out[i] = uint32(base) - 1 + uint32(rng.IntN(3)) - 1
		default:
			out[i] = uint32(rng.Uint64N(uint64(lim) + 1))
		}
	}
	return out
}

func (x *ctx) laneExpect(op string, got *curve.VerifLanes, want [4]*big.Int, det func() string) {
	for j := 0; j < 4; j++ {
		x.r.Eval(nil)
		x.r.Hist("op/" + op)
		if mod(laneValue(laneLimbs(got, j))).Cmp(mod(want[j])) != 0 {
			x.r.Violate("field/"+op, fmt.Sprintf("%s lane %d: got %x want %x; %s", op, j, mod(laneValue(laneLimbs(got, j))), mod(want[j]), det()), x.c)
		}
		// Split must agree with the raw lanes
	}
	a, b, c, d := curve.VerifSplitLanes(got)
	for j, fe := range []*field.Element{&a, &b, &c, &d} {
		if mod(ref255(fe)).Cmp(mod(want[j])) != 0 {
			x.r.Violate("field/"+op+"/Split", fmt.Sprintf("%s lane %d via Split differs; %s", op, j, det()), x.c)
		}
	}
}

func ref255(fe *field.Element) *big.Int { v, _ := limbValue(fe); return v }

func laneStress(x *ctx, rng *rand.Rand) {
	if !curve.VerifVector() {
		return
	}
	// measured in-situ envelope (DESIGN.md section 2): Mul first operand up to +2.32 bits, second +1.585;
	// other operations only ever see reduced lanes (+1.0 for the cached operand).
	for it := 0; it < 20; it++ {
		var A, B curve.VerifLanes
		var av, bv [4]*big.Int
		fa, fb := 4.99, 3.0 // 2^2.32 = 4.99, 2^1.585 = 3.0
		if it%3 == 0 {
			fa, fb = 1.0, 1.0
		}
		for j := 0; j < 4; j++ {
			la, lb := genLane(rng, fa), genLane(rng, fb)
			setLane(&A, j, la)
			setLane(&B, j, lb)
			av[j], bv[j] = laneValue(la), laneValue(lb)
		}
		det := func() string { return fmt.Sprintf("A=%v B=%v", A, B) }
		x.r.Eval([]byte(fmt.Sprint(A, B)))
		x.r.Journal("c04 lanes %s", det())
		got := curve.VerifVecMul(&A, &B)
		var want [4]*big.Int
		for j := range want {
			want[j] = new(big.Int).Mul(av[j], bv[j])
		}
		x.laneExpect("vecMul", &got, want, det)
		got = curve.VerifVecReduce(&A)
		x.laneExpect("vecReduce", &got, av, det)
		for ch := 0; ch < 2; ch++ {
			got = curve.VerifVecSelect(&A, &B, ch)
			w := av
			if ch == 1 {
				w = bv
			}
			x.laneExpect("vecConditionalSelect", &got, w, det)
		}
		// reduced-lane operations
		var R curve.VerifLanes
		var rv [4]*big.Int
		for j := 0; j < 4; j++ {
			l := genLane(rng, 1.0)
			setLane(&R, j, l)
			rv[j] = laneValue(l)
		}
		detR := func() string { return fmt.Sprintf("R=%v", R) }
		got = curve.VerifVecNeg(&R)
		for j := range want {
			want[j] = new(big.Int).Neg(rv[j])
		}
		x.laneExpect("vecNegate", &got, want, detR)
		got = curve.VerifVecSquareAndNegateD(&R)
		for j := range want {
			want[j] = new(big.Int).Mul(rv[j], rv[j])
		}
		want[3] = new(big.Int).Neg(want[3])
		x.laneExpect("vecSquareAndNegateD", &got, want, detR)
		// packing
		fes := [4]field.Element{}
		for j := range fes {
			b := mon.Bytes(rng, 32)
			fes[j].SetBytes(b)
			want[j] = ref255(&fes[j])
		}
		got = curve.VerifNewLanes(&fes[0], &fes[1], &fes[2], &fes[3])
		x.laneExpect("newFieldElement2625x4", &got, want, detR)
	}
}
