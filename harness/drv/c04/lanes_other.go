//go:build verif && !(amd64 && !purego && !force32bit)

package main

import "math/rand/v2"

func laneStress(x *ctx, rng *rand.Rand) {}
