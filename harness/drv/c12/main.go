// C12: sr25519 is complete, mutation-rejecting, schnorrkel-exact, with canonical encodings.
// Monitor: every key expansion / signing / verification / decoding / batch call is shadowed by
// a reference schnorrkel built on the reference Merlin and ristretto255; with a fixed entropy
// reader the expected signature bytes are computed exactly.
package main

import (
	"bytes"
	"crypto/sha256"
	"crypto/sha512"
	"fmt"
	"io"
	"math/big"
	"math/rand/v2"
	"strings"
	"sync"
	"sync/atomic"

	"golang.org/x/crypto/sha3"

	"github.com/oasisprotocol/curve25519-voi/primitives/sr25519"
	"github.com/oasisprotocol/curve25519-voi/zzverif/entropy"
	"github.com/oasisprotocol/curve25519-voi/zzverif/mon"
	"github.com/oasisprotocol/curve25519-voi/zzverif/ref"
)

type Case struct {
	Kind   string `json:"kind"`
	Stream string `json:"stream"`
	Idx    int    `json:"idx"`
}

type fixed struct{ b []byte }

func (f *fixed) Read(p []byte) (int, error) { n := copy(p, f.b); return n, nil }

// chunked delivers at most n bytes per Read.
type chunked struct {
	r io.Reader
	n int
}

func (c *chunked) Read(p []byte) (int, error) {
	if len(p) > c.n {
		p = p[:c.n]
	}
	return c.r.Read(p)
}

var msgLens = []int{0, 1, 2, 13, 47, 60, 73, 89, 100, 121, 133, 150, 155, 156, 157, 158, 159, 160, 161, 162, 163, 164, 165, 166, 167, 170, 320, 331, 332, 400}

type signer struct {
	kp   *sr25519.KeyPair
	rs   ref.SrSecret
	pkb  []byte
	name string
}

func mkSigner(r *mon.Run, c Case, mskb []byte, ed bool) (signer, bool) {
	msk, err := sr25519.NewMiniSecretKeyFromBytes(mskb)
	if err != nil {
		r.Violate("sr25519/NewMiniSecretKeyFromBytes/error", err.Error(), c)
		return signer{}, false
	}
	var sk *sr25519.SecretKey
	var rs ref.SrSecret
	name := "uniform"
	if ed {
		sk, rs, name = msk.ExpandEd25519(), ref.SrExpandEd25519(mskb), "ed25519"
	} else {
		sk, rs = msk.ExpandUniform(), ref.SrExpandUniform(mskb)
	}
	skb, _ := sk.MarshalBinary()
	r.Eval(nil)
	r.Hist("expand/" + name)
	if len(skb) != 64 || !bytes.Equal(skb[:32], ref.LE32(new(big.Int).Mod(rs.Key, ref.L))) || !bytes.Equal(skb[32:], rs.Nonce) {
		r.Violate("sr25519/Expand-"+name+"/secret-key", fmt.Sprintf("msk=%x: got %x want key %x nonce %x", mskb, skb, ref.LE32(rs.Key), rs.Nonce), c)
		return signer{}, false
	}
	kp := sk.KeyPair()
	pkb, _ := kp.PublicKey().MarshalBinary()
	if !bytes.Equal(pkb, rs.Public()) {
		r.Violate("sr25519/Expand-"+name+"/public-key", fmt.Sprintf("msk=%x: got %x want %x", mskb, pkb, rs.Public()), c)
		return signer{}, false
	}
	pk2, _ := sk.PublicKey().MarshalBinary()
	if !bytes.Equal(pk2, pkb) || !kp.PublicKey().Equal(sk.PublicKey()) || !kp.SecretKey().Equal(sk) {
		r.Violate("sr25519/KeyPair/accessors", "", c)
	}
	mb, _ := msk.MarshalBinary()
	if !bytes.Equal(mb, mskb) {
		r.Violate("sr25519/MiniSecretKey/round-trip", "", c)
	}
	return signer{kp, rs, pkb, name}, true
}

func specialSecretScalars() []*big.Int {
	p2 := func(n uint) *big.Int { return new(big.Int).Lsh(big.NewInt(1), n) }
	return []*big.Int{big.NewInt(0), big.NewInt(1), new(big.Int).Sub(ref.L, big.NewInt(1)), big.NewInt(8), p2(128), p2(252), new(big.Int).Sub(ref.L, big.NewInt(8)), big.NewInt(2)}
}

// mkSignerFromScalar builds a key pair from the 64-byte secret-key encoding scalar || nonce.
func mkSignerFromScalar(r *mon.Run, c Case, k *big.Int, nonce []byte) (signer, bool) {
	enc := append(ref.LE32(k), nonce...)
	sk, err := sr25519.NewSecretKeyFromBytes(enc)
	r.Eval(nil)
	r.Hist("secret-key-from-scalar")
	if err != nil {
		r.Violate("sr25519/NewSecretKeyFromBytes/canonical-rejected", fmt.Sprintf("scalar=%x: %v", k, err), c)
		return signer{}, false
	}
	rs := ref.SrSecret{Key: k, Nonce: nonce}
	kp := sk.KeyPair()
	pkb, _ := kp.PublicKey().MarshalBinary()
	if !bytes.Equal(pkb, rs.Public()) {
		r.Violate("sr25519/SecretKey-from-scalar/public-key", fmt.Sprintf("scalar=%x: got %x want %x", k, pkb, rs.Public()), c)
		return signer{}, false
	}
	// the public key round-trips through its encoding, and the key pair through its own
	if pk2, err := sr25519.NewPublicKeyFromBytes(pkb); err != nil || !pk2.Equal(kp.PublicKey()) {
		r.Violate("sr25519/PublicKey/round-trip", fmt.Sprintf("scalar=%x: public key %x: err=%v", k, pkb, err), c)
	}
	if kb, err := kp.MarshalBinary(); err != nil {
		r.Violate("sr25519/KeyPair/MarshalBinary", err.Error(), c)
	} else if kp2, err := sr25519.NewKeyPairFromBytes(kb); err != nil || !kp2.PublicKey().Equal(kp.PublicKey()) {
		r.Violate("sr25519/KeyPair/round-trip", fmt.Sprintf("scalar=%x: err=%v", k, err), c)
	}
	return signer{kp, rs, pkb, fmt.Sprintf("scalar-%x", k)}, true
}

// transcripts returns a library transcript and its reference twin.
func transcripts(rng *rand.Rand, ctx, msg []byte, kind int) (*sr25519.SigningTranscript, *ref.Transcript, string) {
	// the context and message buffers, and the hash object, stay the caller's: they are overwritten / written to as
	// soon as the constructor has returned; contexts and transcripts stand for what they were built from
	scribble := func(b []byte) {
		for i := range b {
			b[i] ^= 0xff
		}
	}
	cbuf := append(make([]byte, 0, len(ctx)+8), ctx...)
	sc := sr25519.NewSigningContext(cbuf)
	scribble(cbuf)
	switch kind {
	case 1:
		h := sha256.New()
		h.Write(msg)
		digest := h.Sum(nil)
		st := sc.NewTranscriptHash(h)
		h.Write([]byte("written after the transcript was made"))
		return st, ref.SrTranscriptLabelled(ctx, "sign-256", digest), "hash256"
	case 2:
		h := sha512.New()
		h.Write(msg)
		digest := h.Sum(nil)
		st := sc.NewTranscriptHash(h)
		h.Reset()
		return st, ref.SrTranscriptLabelled(ctx, "sign-512", digest), "hash512"
	case 3:
		x, y := sha3.NewShake128(), sha3.NewShake128()
		x.Write(msg)
		y.Write(msg)
		pre := make([]byte, 32)
		y.Read(pre)
		// the XOF is an io.Reader: readers that deliver their output in short reads are as legitimate as one that
		// fills the buffer at once
		switch rng.IntN(4) {
		case 1:
			return sc.NewTranscriptXOF(&chunked{x, 1}), ref.SrTranscriptLabelled(ctx, "sign-XoF", pre), "xof(1-byte reads)"
		case 2:
			return sc.NewTranscriptXOF(&chunked{x, 16}), ref.SrTranscriptLabelled(ctx, "sign-XoF", pre), "xof(16-byte reads)"
		case 3:
			return sc.NewTranscriptXOF(&chunked{x, 31}), ref.SrTranscriptLabelled(ctx, "sign-XoF", pre), "xof(31+1 reads)"
		}
		return sc.NewTranscriptXOF(x), ref.SrTranscriptLabelled(ctx, "sign-XoF", pre), "xof"
	}
	mbuf := append(make([]byte, 0, len(msg)+8), msg...)
	st := sc.NewTranscriptBytes(mbuf)
	scribble(mbuf)
	return st, ref.SrTranscriptBytes(ctx, msg), "bytes"
}

func verifyBytes(pkb, sigb []byte, st *sr25519.SigningTranscript) (ok bool, decodeErr bool) {
	pk, err := sr25519.NewPublicKeyFromBytes(pkb)
	if err != nil {
		return false, true
	}
	sig, err := sr25519.NewSignatureFromBytes(sigb)
	if err != nil {
		return false, true
	}
	return pk.Verify(st, sig), false
}

func signing(r *mon.Run, c Case) {
	rng := r.Rng(c.Stream)
	mskb := mon.Bytes(rng, 32)
	switch c.Idx {
	case 0:
		mskb = make([]byte, 32)
	case 1:
		mskb = bytes.Repeat([]byte{0xff}, 32)
	}
	s, ok := signer{}, false
	if sp := specialSecretScalars(); c.Idx >= 2 && c.Idx < 2+len(sp) {
		// secret keys that no mini-secret expansion produces but that the decoder accepts (canonical scalar + nonce):
		// 0 (the public key is the identity element), 1, L-1, powers of two, the cofactor
		s, ok = mkSignerFromScalar(r, c, sp[c.Idx-2], mon.Bytes(rng, 32))
	} else {
		s, ok = mkSigner(r, c, mskb, c.Idx%2 == 1)
	}
	if !ok {
		return
	}
	ctxLens := []int{0, 1, 9, 200}
	ctx := mon.Bytes(rng, ctxLens[c.Idx%len(ctxLens)])
	if c.Idx%5 == 0 {
		ctx = []byte("substrate")
	}
	for rep := 0; rep < 3; rep++ {
		msg := mon.Bytes(rng, msgLens[(c.Idx*3+rep)%len(msgLens)])
		kind := (c.Idx + rep) % 4
		st, rt, tname := transcripts(rng, ctx, msg, kind)
		ent := mon.Bytes(rng, 32)
		r.Journal("c12 sign %s idx=%d rep=%d", s.name, c.Idx, rep)
		r.Eval([]byte(fmt.Sprintf("%x|%x|%x|%d", mskb, ctx, msg, kind)))
		r.Hist(fmt.Sprintf("sign/%s/%s/ctx%d/msg%d", s.name, tname, len(ctx), len(msg)))
		sig, err := s.kp.Sign(&fixed{ent}, st)
		if err != nil {
			r.Violate("sr25519/Sign/error", err.Error(), c)
			continue
		}
		sigb, _ := sig.MarshalBinary()
		want := s.rs.Sign(rt, ent)
		if !bytes.Equal(sigb, want) {
			r.Violate("sr25519/Sign/schnorrkel-mismatch", fmt.Sprintf("%s/%s ctx=%d msg=%d: got %x want %x", s.name, tname, len(ctx), len(msg), sigb, want), c)
			// keep going: completeness is still checked on the library's own signature
		}
		if !ref.SrVerify(s.pkb, rt, want) {
			mon.Fatalf("ORACLE: reference rejects its own signature")
		}
		if !s.kp.PublicKey().Verify(st, sig) {
			r.Violate("sr25519/Verify/honest-rejected", fmt.Sprintf("%s/%s", s.name, tname), c)
		}
		if got, derr := verifyBytes(s.pkb, sigb, st); derr || !got {
			r.Violate("sr25519/Verify/honest-rejected-after-round-trip", "", c)
		}
		// objects derived from the key (a key pair made for one signature, its secret and public key objects) are
		// dropped and collected - finalizers included - while the objects they were derived from stay in use
		if rep == 0 {
			func() {
				tmp := s.kp.SecretKey().KeyPair()
				tsig, _ := tmp.Sign(&fixed{ent}, st)
				tb, _ := tsig.MarshalBinary()
				if !bytes.Equal(tb, want) {
					r.Violate("sr25519/Sign/derived-key-pair", "a key pair derived from the secret key signs differently", c)
				}
				_ = tmp.PublicKey()
			}()
			mon.GCNow()
			r.Hist("gc/after-dropping-derived-objects")
			again, err := s.kp.Sign(&fixed{ent}, st)
			ab, _ := again.MarshalBinary()
			skb, _ := s.kp.SecretKey().MarshalBinary()
			pkb2, _ := s.kp.SecretKey().PublicKey().MarshalBinary()
			r.EvalN(3)
			if err != nil || !bytes.Equal(ab, want) || !bytes.Equal(pkb2, s.pkb) || !s.kp.PublicKey().Verify(st, again) {
				r.Violate("sr25519/key-changed-after-derived-objects-were-collected", fmt.Sprintf("after a derived key pair was dropped and collected: signature matches=%v, public key matches=%v (secret key now %x..)", bytes.Equal(ab, want), bytes.Equal(pkb2, s.pkb), skb[:8]), c)
			}
		}
		// receivers decoded into repeatedly behave like fresh ones, whatever was done with them in between
		if other, ok2 := mkSigner(r, c, mon.Bytes(rng, 32), false); ok2 {
			var pk sr25519.PublicKey
			var so sr25519.Signature
			osig, _ := other.kp.Sign(&fixed{ent}, st)
			osb, _ := osig.MarshalBinary()
			type step struct {
				pkb, sb []byte
				want    bool
			}
			steps := []step{{other.pkb, osb, true}, {s.pkb, sigb, true}, {other.pkb, sigb, false}, {s.pkb, osb, false}, {s.pkb, sigb, true}, {other.pkb, osb, true}}
			for si, sp := range steps {
				if err := pk.UnmarshalBinary(sp.pkb); err != nil {
					r.Violate("sr25519/PublicKey.UnmarshalBinary/reused-receiver", err.Error(), c)
					break
				}
				if err := so.UnmarshalBinary(sp.sb); err != nil {
					r.Violate("sr25519/Signature.UnmarshalBinary/reused-receiver", err.Error(), c)
					break
				}
				got := pk.Verify(st, &so)
				bv := sr25519.NewBatchVerifier()
				bv.Add(&pk, st, &so)
				bv.Add(s.kp.PublicKey(), st, sig)
				gotB, _ := bv.Verify(&fixed{ent})
				r.EvalN(2)
				r.Hist("reuse/receiver-step")
				if got != sp.want || gotB != sp.want {
					r.Violate("sr25519/reused-receiver", fmt.Sprintf("step %d: Verify=%v batch=%v want %v (a PublicKey/Signature decoded into again, after verifying with its previous value)", si, got, gotB, sp.want), c)
				}
				if pb, _ := pk.MarshalBinary(); !bytes.Equal(pb, sp.pkb) {
					r.Violate("sr25519/reused-receiver/MarshalBinary", "", c)
				}
			}
		}
		// the transcript is not consumed: signing twice with the same entropy gives the same bytes; nil entropy still verifies
		sig2, _ := s.kp.Sign(&fixed{ent}, st)
		sb2, _ := sig2.MarshalBinary()
		if !bytes.Equal(sb2, sigb) {
			r.Violate("sr25519/Sign/transcript-consumed", "second signature over the same transcript differs", c)
		}
		sig3, err := s.kp.Sign(nil, st)
		if err != nil || !s.kp.PublicKey().Verify(st, sig3) {
			r.Violate("sr25519/Sign/system-entropy", fmt.Sprintf("err=%v", err), c)
		} else if sb3, _ := sig3.MarshalBinary(); bytes.Equal(sb3, sigb) {
			r.Violate("sr25519/Sign/entropy-ignored", "system entropy gave the fixed-entropy signature", c)
		}
		r.EvalN(5)
		// mutations
		expectReject := func(what string, pkb, sb []byte, st *sr25519.SigningTranscript, rt *ref.Transcript) {
			got, _ := verifyBytes(pkb, sb, st)
			r.Eval(nil)
			r.Hist("mutation/" + what)
			exp := false
			if rt != nil {
				exp = ref.SrVerify(pkb, rt, sb)
			}
			if got != exp {
				r.Violate("sr25519/Verify/mutation-"+what, fmt.Sprintf("got %v want %v; pk=%x sig=%x", got, exp, pkb, sb), c)
			}
		}
		bitsToFlip := []int{511, 510, 509, 508, 504, 255, 248, 0}
		for i := 0; i < r.Pick(12, 64); i++ {
			bitsToFlip = append(bitsToFlip, rng.IntN(512))
		}
		for _, b := range bitsToFlip {
			s2 := append([]byte{}, sigb...)
			s2[b/8] ^= 1 << uint(b%8)
			expectReject("sig-bit", s.pkb, s2, st, nil)
		}
		// keys given as a raw scalar include the zero scalar, whose public key is the identity element: R = [s]B then
		// verifies on EVERY transcript (schnorrkel does the same; such a key is no product of a key expansion, which is
		// what the property's rejection clause quantifies over). For those signers the reference decides; for expanded
		// keys the expectation stays "rejected"
		special := strings.HasPrefix(s.name, "scalar-")
		pick := func(rt *ref.Transcript) *ref.Transcript {
			if special {
				return rt
			}
			return nil
		}
		st2, rt2, _ := transcripts(rng, append(append([]byte{}, ctx...), 'x'), msg, kind)
		expectReject("context", s.pkb, sigb, st2, pick(rt2))
		st3, rt3, _ := transcripts(rng, ctx, append(append([]byte{}, msg...), 0), kind)
		expectReject("message", s.pkb, sigb, st3, pick(rt3))
		st4, rt4, _ := transcripts(rng, ctx, msg, (kind+1)%4)
		expectReject("transcript-kind", s.pkb, sigb, st4, pick(rt4))
		other, ok2 := mkSigner(r, c, mon.Bytes(rng, 32), false)
		if ok2 {
			expectReject("other-key", other.pkb, sigb, st, nil)
		}
		// s + L (when it still fits in 255 bits) and R replaced by other encodings: decided by the reference
		sb := append([]byte{}, sigb[32:]...)
		sb[31] &= 127
		v := new(big.Int).Add(ref.FromLE(sb), ref.L)
		if v.BitLen() <= 255 {
			s3 := append(append([]byte{}, sigb[:32]...), ref.LE32(v)...)
			s3[63] |= 128
			if _, err := sr25519.NewSignatureFromBytes(s3); err == nil {
				r.Violate("sr25519/Signature.UnmarshalBinary/s+L-accepted", fmt.Sprintf("sig=%x", s3), c)
			}
		}
		unmarked := append([]byte{}, sigb...)
		unmarked[63] &= 127
		if _, err := sr25519.NewSignatureFromBytes(unmarked); err == nil {
			r.Violate("sr25519/Signature.UnmarshalBinary/unmarked-accepted", "", c)
		}
		for _, rb := range [][]byte{make([]byte, 32), bytes.Repeat([]byte{0xff}, 32), ref.LE32(new(big.Int).Sub(ref.P, ref.FromLE(sigb[:32]))), flipTop(sigb[:32])} {
			s4 := append(append([]byte{}, rb...), sigb[32:]...)
			expectReject("R-replaced", s.pkb, s4, st, rt)
		}
		r.Sample("signature/"+s.name+"/"+tname, map[string]any{"msk": mon.Hex(mskb), "ctx": mon.Hex(ctx), "msg_len": len(msg), "entropy": mon.Hex(ent), "sig": mon.Hex(sigb)})
	}
}

func flipTop(b []byte) []byte { c := append([]byte{}, b...); c[31] ^= 0x80; return c }

// decoders: exactly one encoding per accepted object; marshal(unmarshal(x)) == x.
func decoders(r *mon.Run, c Case) {
	rng := r.Rng(c.Stream)
	s, ok := mkSigner(r, c, mon.Bytes(rng, 32), c.Idx%2 == 1)
	if !ok {
		return
	}
	st, _, _ := transcripts(rng, []byte("ctx"), []byte("msg"), 0)
	sig, _ := s.kp.Sign(&fixed{mon.Bytes(rng, 32)}, st)
	sigb, _ := sig.MarshalBinary()
	skb, _ := s.kp.SecretKey().MarshalBinary()
	kpb, _ := s.kp.MarshalBinary()
	r.Eval([]byte(c.Stream))
	L := ref.L
	scalars := []*big.Int{big.NewInt(0), big.NewInt(1), new(big.Int).Sub(L, big.NewInt(1)), new(big.Int).Set(L), new(big.Int).Add(L, big.NewInt(1)), new(big.Int).Lsh(L, 1), new(big.Int).Sub(new(big.Int).Lsh(big.NewInt(1), 255), big.NewInt(1)), new(big.Int).Lsh(big.NewInt(1), 252), new(big.Int).Sub(new(big.Int).Lsh(big.NewInt(1), 253), big.NewInt(1))}
	// signatures: marker bit, scalar < L on the low 255 bits, any 32 bytes as R
	for _, v := range scalars {
		for _, marked := range []bool{true, false} {
			b := append(append([]byte{}, sigb[:32]...), ref.LE32(v)...)
			if marked {
				b[63] |= 128
			}
			want := marked && v.Cmp(L) < 0
			sg, err := sr25519.NewSignatureFromBytes(b)
			r.Eval(nil)
			r.Hist(fmt.Sprintf("decode/signature/accept=%v", want))
			if (err == nil) != want {
				r.Violate(fmt.Sprintf("sr25519/Signature.UnmarshalBinary/accept/want=%v", want), fmt.Sprintf("sig=%x err=%v", b, err), c)
			} else if err == nil {
				if mb, _ := sg.MarshalBinary(); !bytes.Equal(mb, b) {
					r.Violate("sr25519/Signature/round-trip", fmt.Sprintf("%x -> %x", b, mb), c)
				}
			} else {
				// failed decode leaves the neutral signature
				var sg2 sr25519.Signature
				sg2.UnmarshalBinary(sigb)
				sg2.UnmarshalBinary(b)
				if mb, _ := sg2.MarshalBinary(); !bytes.Equal(mb[:63], make([]byte, 63)) {
					r.Violate("sr25519/Signature.UnmarshalBinary/receiver-after-failure", fmt.Sprintf("%x", mb), c)
				}
			}
		}
	}
	// public keys: exactly the canonical ristretto255 encodings
	var pks [][]byte
	pks = append(pks, s.pkb, flipTop(s.pkb), ref.LE32(new(big.Int).Sub(ref.P, ref.FromLE(s.pkb))), make([]byte, 32), bytes.Repeat([]byte{0xff}, 32))
	if v := new(big.Int).Add(ref.FromLE(s.pkb), ref.P); v.BitLen() <= 255 {
		pks = append(pks, ref.LE32(v))
	}
	for i := 0; i < 30; i++ {
		pks = append(pks, mon.Bytes(rng, 32))
	}
	for _, b := range pks {
		_, want := ref.RistrettoDecode(b)
		pk, err := sr25519.NewPublicKeyFromBytes(b)
		r.Eval(nil)
		r.Hist(fmt.Sprintf("decode/public-key/accept=%v", want))
		if (err == nil) != want {
			r.Violate(fmt.Sprintf("sr25519/PublicKey.UnmarshalBinary/accept/want=%v", want), fmt.Sprintf("pk=%x err=%v", b, err), c)
		} else if err == nil {
			if mb, _ := pk.MarshalBinary(); !bytes.Equal(mb, b) {
				r.Violate("sr25519/PublicKey/round-trip", fmt.Sprintf("%x -> %x", b, mb), c)
			}
		} else {
			var pk2 sr25519.PublicKey
			pk2.UnmarshalBinary(s.pkb)
			pk2.UnmarshalBinary(b)
			if mb, _ := pk2.MarshalBinary(); !bytes.Equal(mb, make([]byte, 32)) {
				r.Violate("sr25519/PublicKey.UnmarshalBinary/receiver-after-failure", fmt.Sprintf("%x", mb), c)
			}
			if pk2.Verify(st, sig) {
				r.Violate("sr25519/PublicKey/verify-after-failed-decode", "", c)
			}
		}
	}
	// secret keys: scalar canonical (< L, bit 255 clear), nonce free
	for _, v := range scalars {
		for _, top := range []bool{false, true} {
			b := append(ref.LE32(v), skb[32:]...)
			if top {
				b[31] |= 0x80
			}
			want := v.Cmp(L) < 0 && !top
			sk, err := sr25519.NewSecretKeyFromBytes(b)
			r.Eval(nil)
			r.Hist(fmt.Sprintf("decode/secret-key/accept=%v", want))
			if (err == nil) != want {
				r.Violate(fmt.Sprintf("sr25519/SecretKey.UnmarshalBinary/accept/want=%v", want), fmt.Sprintf("key scalar=%x err=%v", b[:32], err), c)
			} else if err == nil {
				if mb, _ := sk.MarshalBinary(); !bytes.Equal(mb, b) {
					r.Violate("sr25519/SecretKey/round-trip", "", c)
				}
			}
		}
	}
	// key pairs: both halves canonical and consistent
	otherS, ok2 := mkSigner(r, c, mon.Bytes(rng, 32), false)
	type kpCase struct {
		name string
		b    []byte
		want bool
	}
	kps := []kpCase{{"honest", kpb, true}}
	if ok2 {
		kps = append(kps, kpCase{"mismatched-public-key", append(append([]byte{}, skb...), otherS.pkb...), false})
	}
	kps = append(kps, kpCase{"undecodable-public-key", append(append([]byte{}, skb...), bytes.Repeat([]byte{0xff}, 32)...), false})
	kps = append(kps, kpCase{"non-canonical-scalar", append(append(ref.LE32(new(big.Int).Add(L, big.NewInt(5))), skb[32:]...), s.pkb...), false})
	kps = append(kps, kpCase{"public-key-bit255", append(append([]byte{}, skb...), flipTop(s.pkb)...), false})
	for _, k := range kps {
		kp, err := sr25519.NewKeyPairFromBytes(k.b)
		r.Eval(nil)
		r.Hist("decode/key-pair/" + k.name)
		if (err == nil) != k.want {
			r.Violate("sr25519/KeyPair.UnmarshalBinary/"+k.name, fmt.Sprintf("err=%v", err), c)
		} else if err == nil {
			if mb, _ := kp.MarshalBinary(); !bytes.Equal(mb, k.b) {
				r.Violate("sr25519/KeyPair/round-trip", "", c)
			}
		} else {
			var kp2 sr25519.KeyPair
			kp2.UnmarshalBinary(kpb)
			kp2.UnmarshalBinary(k.b)
			if kp2.SecretKey() != nil || kp2.PublicKey() != nil {
				r.Violate("sr25519/KeyPair.UnmarshalBinary/receiver-after-failure", k.name+": keys left on the receiver", c)
			}
			if mb, _ := kp2.MarshalBinary(); !bytes.Equal(mb, make([]byte, 96)) {
				r.Violate("sr25519/KeyPair.UnmarshalBinary/receiver-after-failure-bytes", k.name, c)
			}
		}
	}
	// wrong lengths for every decoder
	for l := 0; l <= 100; l++ {
		b := make([]byte, l)
		copy(b, kpb)
		if l != 64 {
			if _, err := sr25519.NewSignatureFromBytes(b); err == nil {
				r.Violate("sr25519/Signature.UnmarshalBinary/length", fmt.Sprint(l), c)
			}
			if _, err := sr25519.NewSecretKeyFromBytes(b); err == nil {
				r.Violate("sr25519/SecretKey.UnmarshalBinary/length", fmt.Sprint(l), c)
			}
			if _, err := sr25519.NewSecretKeyFromEd25519Bytes(b); err == nil {
				r.Violate("sr25519/NewSecretKeyFromEd25519Bytes/length", fmt.Sprint(l), c)
			}
		}
		if l != 32 {
			if _, err := sr25519.NewPublicKeyFromBytes(b); err == nil {
				r.Violate("sr25519/PublicKey.UnmarshalBinary/length", fmt.Sprint(l), c)
			}
			if _, err := sr25519.NewMiniSecretKeyFromBytes(b); err == nil {
				r.Violate("sr25519/MiniSecretKey.UnmarshalBinary/length", fmt.Sprint(l), c)
			}
		}
		if l != 96 {
			if _, err := sr25519.NewKeyPairFromBytes(b); err == nil {
				r.Violate("sr25519/KeyPair.UnmarshalBinary/length", fmt.Sprint(l), c)
			}
		}
		r.Eval(nil)
	}
	// Ed25519-style expanded keys: clamp rules, key = scalar / 8
	for i := 0; i < 16; i++ {
		h := sha512.Sum512(mon.Bytes(rng, 32))
		h[0] &= 248
		h[31] &= 63
		h[31] |= 64
		good := append([]byte{}, h[:]...)
		sk, err := sr25519.NewSecretKeyFromEd25519Bytes(good)
		r.Eval(nil)
		if err != nil {
			r.Violate("sr25519/NewSecretKeyFromEd25519Bytes/valid-rejected", err.Error(), c)
		} else {
			mb, _ := sk.MarshalBinary()
			want := new(big.Int).Rsh(ref.FromLE(good[:32]), 3)
			if !bytes.Equal(mb[:32], ref.LE32(want)) || !bytes.Equal(mb[32:], good[32:]) {
				r.Violate("sr25519/NewSecretKeyFromEd25519Bytes/value", "", c)
			}
		}
		for _, bad := range [][2]int{{0, 1}, {0, 4}, {31, 0x80}, {31, 0x40}} {
			b := append([]byte{}, good...)
			b[bad[0]] ^= byte(bad[1])
			if _, err := sr25519.NewSecretKeyFromEd25519Bytes(b); err == nil {
				r.Violate("sr25519/NewSecretKeyFromEd25519Bytes/unclamped-accepted", fmt.Sprintf("byte %d ^ %x", bad[0], bad[1]), c)
			}
		}
	}
}

// batch: per-entry bits equal single verification, overall = conjunction, batch-only = non-empty and all valid.
func batch(r *mon.Run, c Case) {
	rng := r.Rng(c.Stream)
	sizes := []int{1, 2, 3, 5, 8, 63, 64, 94, 95, 96}
	size := sizes[c.Idx%len(sizes)]
	if r.Quick && size > 8 && c.Idx%2 == 1 {
		size = 4
	}
	bv := sr25519.NewBatchVerifier()
	if c.Idx%3 == 0 {
		bv = sr25519.NewBatchVerifierWithCapacity(size)
	}
	// another valid key and signature, to be decoded into the caller's objects after they were added
	omsk, _ := sr25519.NewMiniSecretKeyFromBytes(mon.Bytes(rng, 32))
	okp := omsk.ExpandUniform().KeyPair()
	otherPkb, _ := okp.PublicKey().MarshalBinary()
	osig, _ := okp.Sign(&fixed{mon.Bytes(rng, 32)}, sr25519.NewSigningContext([]byte("other")).NewTranscriptBytes([]byte("other")))
	otherSigb, _ := osig.MarshalBinary()
	signers := make([]signer, 0, 4)
	for i := 0; i < 4; i++ {
		if s, ok := mkSigner(r, c, mon.Bytes(rng, 32), i%2 == 1); ok {
			signers = append(signers, s)
		}
	}
	if len(signers) == 0 {
		return
	}
	var want []bool
	type added struct {
		pk  *sr25519.PublicKey
		st  *sr25519.SigningTranscript
		sig *sr25519.Signature
	}
	var earlier []added
	round := func(n int, badRate int) {
		for i := 0; i < n; i++ {
			// now and then an EARLIER valid entry comes back: as an exact copy (valid) or with only its scalar altered
			// (same key, same transcript, same R; invalid) - entries are judged one by one, not by what they share
			if len(earlier) > 0 && rng.IntN(8) == 0 {
				e := earlier[rng.IntN(len(earlier))]
				sig := e.sig
				kind := "repeat/exact-copy"
				if badRate > 0 && rng.IntN(2) == 0 {
					sb, _ := e.sig.MarshalBinary()
					sb[32+rng.IntN(31)] ^= 1 << uint(rng.IntN(8))
					if fs, err := sr25519.NewSignatureFromBytes(sb); err == nil {
						sig, kind = fs, "repeat/same-R-other-s"
					}
				}
				single := e.pk.Verify(e.st, sig)
				r.Hist(fmt.Sprintf("batch-entry/%s/single=%v", kind, single))
				want = append(want, single)
				bv.Add(e.pk, e.st, sig)
				continue
			}
			s := signers[rng.IntN(len(signers))]
			st, _, _ := transcripts(rng, []byte("batch"), mon.Bytes(rng, msgLens[rng.IntN(len(msgLens))]), rng.IntN(4))
			sig, _ := s.kp.Sign(&fixed{mon.Bytes(rng, 32)}, st)
			pk := s.kp.PublicKey()
			earlier = append(earlier, added{pk, st, sig})
			kind := "valid"
			if badRate > 0 && rng.IntN(badRate) == 0 {
				sigb, _ := sig.MarshalBinary()
				switch rng.IntN(6) {
				case 0: // altered scalar (still canonical with overwhelming probability)
					sigb[32+rng.IntN(31)] ^= 1
					kind = "altered-s"
				case 1: // undecodable R
					copy(sigb[:32], bytes.Repeat([]byte{0xff}, 32))
					kind = "undecodable-R"
				case 2: // wrong key
					pk = signers[(rng.IntN(len(signers)))].kp.PublicKey()
					if pk.Equal(s.kp.PublicKey()) {
						kind = "valid"
					} else {
						kind = "wrong-key"
					}
				case 3:
					sig = &sr25519.Signature{}
					kind = "uninitialised-signature"
				case 4:
					pk = &sr25519.PublicKey{}
					kind = "uninitialised-public-key"
				default: // altered R (decodable or not)
					sigb[rng.IntN(31)] ^= 4
					kind = "altered-R"
				}
				if kind != "uninitialised-signature" && kind != "wrong-key" && kind != "uninitialised-public-key" && kind != "valid" {
					if sg, err := sr25519.NewSignatureFromBytes(sigb); err == nil {
						sig = sg
					} else {
						sig = &sr25519.Signature{}
						kind = "uninitialised-signature"
					}
				}
			}
			single := pk.Verify(st, sig)
			r.Hist(fmt.Sprintf("batch-entry/%s/single=%v", kind, single))
			want = append(want, single)
			// the entry stands for the values of the key and signature objects at the time of Add: the caller decodes
			// something else into its own objects right afterwards
			pkb, e1 := pk.MarshalBinary()
			sgb, e2 := sig.MarshalBinary()
			var pkc sr25519.PublicKey
			var sgc sr25519.Signature
			if e1 == nil && e2 == nil && pkc.UnmarshalBinary(pkb) == nil && sgc.UnmarshalBinary(sgb) == nil {
				bv.Add(&pkc, st, &sgc)
				pkc.UnmarshalBinary(otherPkb)
				sgc.UnmarshalBinary(otherSigb)
				r.Hist("batch-entry/objects-overwritten-after-Add")
			} else {
				bv.Add(pk, st, sig)
			}
		}
		allWant := len(want) > 0
		for _, w := range want {
			allWant = allWant && w
		}
		var all bool
		var bits []bool
		var only bool
		pan, msg := mon.Try(func() {
			only = bv.VerifyBatchOnly(nil)
			all, bits = bv.Verify(nil)
		})
		r.Eval([]byte(fmt.Sprintf("%s/%d", c.Stream, n)))
		n = len(want)
		r.Hist(fmt.Sprintf("batch/size%d/all=%v", n, allWant))
		if pan {
			r.Violate("sr25519/BatchVerifier/panic", msg, c)
			return
		}
		if only != allWant {
			r.Violate(fmt.Sprintf("sr25519/VerifyBatchOnly/want=%v", allWant), fmt.Sprintf("size=%d got %v; single results %v", n, only, want), c)
		}
		if all != allWant {
			r.Violate(fmt.Sprintf("sr25519/BatchVerifier.Verify/overall/want=%v", allWant), fmt.Sprintf("size=%d got %v", n, all), c)
		}
		if len(bits) != len(want) {
			r.Violate("sr25519/BatchVerifier.Verify/length", fmt.Sprintf("%d bits for %d entries", len(bits), len(want)), c)
			return
		}
		for i := range want {
			if bits[i] != want[i] {
				r.Violate(fmt.Sprintf("sr25519/BatchVerifier.Verify/bit/want=%v", want[i]), fmt.Sprintf("size=%d entry %d: batch %v single %v", n, i, bits[i], want[i]), c)
			}
		}
	}
	reset := func() { bv.Reset(); want = nil }
	round(size, 0) // all valid
	round(size, 3) // entries accumulate without Reset: mixed batch of twice the size
	reset()
	round(size, 3)
	reset()
	round(1+rng.IntN(size), 2) // reuse after Reset with a smaller batch
	reset()
	round(0, 0) // empty batch: false
}

// entropyCase: the entropy-consuming APIs of this property behind differently behaving readers (package entropy).
func entropyCase(r *mon.Run, c Case) {
	entropy.Check(r, "C12", r.Rng(c.Stream), func(sig, what string) { r.Violate(sig, what, c) })
}

// sharedContext: a SigningContext is made once per protocol and used by every goroutine of a program. Transcripts
// derived from ONE context concurrently, each from its own message (bytes, hash and XOF sources), must be the
// transcripts a single goroutine derives: signatures equal the schnorrkel values and verify.
func sharedContext(r *mon.Run, c Case) {
	rng := r.Rng(c.Stream)
	ctx := mon.Bytes(rng, 9)
	sctx := sr25519.NewSigningContext(ctx)
	s, ok := mkSigner(r, c, mon.Bytes(rng, 32), false)
	if !ok {
		return
	}
	const G, per = 8, 24
	type job struct {
		msg  []byte
		kind int
		ent  []byte
		want []byte
	}
	jobs := make([][]job, G)
	for g := range jobs {
		for i := 0; i < per; i++ {
			j := job{msg: mon.Bytes(rng, 1+rng.IntN(90)), kind: i % 4, ent: mon.Bytes(rng, 32)}
			_, rt, _ := transcripts(rng, ctx, j.msg, kindNoChunk(j.kind))
			j.want = s.rs.Sign(rt, j.ent)
			jobs[g] = append(jobs[g], j)
		}
	}
	var wg sync.WaitGroup
	var wrong, rejected int64
	for g := 0; g < G; g++ {
		wg.Add(1)
		go func(g int) {
			defer wg.Done()
			for _, j := range jobs[g] {
				var st *sr25519.SigningTranscript
				switch j.kind {
				case 1:
					h := sha256.New()
					h.Write(j.msg)
					st = sctx.NewTranscriptHash(h)
				case 2:
					h := sha512.New()
					h.Write(j.msg)
					st = sctx.NewTranscriptHash(h)
				case 3:
					x := sha3.NewShake128()
					x.Write(j.msg)
					st = sctx.NewTranscriptXOF(x)
				default:
					st = sctx.NewTranscriptBytes(j.msg)
				}
				sig, err := s.kp.Sign(&fixed{j.ent}, st)
				if err != nil {
					atomic.AddInt64(&wrong, 1)
					continue
				}
				b, _ := sig.MarshalBinary()
				if !bytes.Equal(b, j.want) {
					atomic.AddInt64(&wrong, 1)
				}
				if !s.kp.PublicKey().Verify(st, sig) {
					atomic.AddInt64(&rejected, 1)
				}
			}
		}(g)
	}
	wg.Wait()
	r.EvalN(G * per)
	r.HistN("shared-context/concurrent-transcripts", G*per)
	if wrong > 0 || rejected > 0 {
		r.Violate("sr25519/shared-signing-context-under-concurrency", fmt.Sprintf("%d of %d signatures over transcripts derived concurrently from one SigningContext differ from the schnorrkel value, %d do not verify on their own transcript", wrong, G*per, rejected), c)
	}
}

// kindNoChunk maps a transcript kind to itself (the reference twin is independent of how the XOF is read).
func kindNoChunk(k int) int { return k }

func runCase(r *mon.Run, c Case) {
	if c.Kind == "entropy" {
		entropyCase(r, c)
		return
	}
	if c.Kind == "shared-context" {
		sharedContext(r, c)
		return
	}
	switch c.Kind {
	case "signing":
		signing(r, c)
	case "decoders":
		decoders(r, c)
	case "batch":
		batch(r, c)
	}
}

func main() {
	r := mon.Start("C12", "mini-secrets {0^32, ff^32, PRNG} x {ExpandUniform, ExpandEd25519} x contexts {0,1,9,200 bytes, 'substrate'} x transcripts {bytes of length 0..400 incl. every (ctx+msg) residue that ends an operation on the 166-byte rate, SHA-256/SHA-512 prehash, SHAKE XOF} x fixed entropy: secret/public key bytes and exact signature bytes vs the reference schnorrkel; honest verification (object and byte round trip), same-entropy repeatability, system entropy; mutations (signature bits incl. marker and scalar top bits, context, message, transcript kind, key, s+L, unmarked, R replaced) decided by the reference; the four decoders on catalogues (scalars 0,1,L-1,L,L+1,2L,2^252,2^253-1,2^255-1 x marker/top bit; ristretto255 acceptance; key-pair consistency; lengths 0..100; Ed25519 clamp rules) with round trips and neutral receivers; batch histories (sizes 1..96, capacity, Reset, reuse, empty) with invalid, undecodable and uninitialised entries vs single verification; non-trivial = one signing tuple / decoder catalogue / batch history; distinct = SHA-256 of it")
	var c Case
	if r.LoadReplay(&c) {
		runCase(r, c)
		r.Finish()
		return
	}
	var cases []Case
	for i := 0; i < r.Pick(240, 6000); i++ {
		cases = append(cases, Case{Kind: "signing", Stream: fmt.Sprintf("c12/signing/%d", i), Idx: i})
	}
	for i := 0; i < r.Pick(16, 300); i++ {
		cases = append(cases, Case{Kind: "decoders", Stream: fmt.Sprintf("c12/decoders/%d", i), Idx: i})
	}
	for i := 0; i < r.Pick(60, 1500); i++ {
		cases = append(cases, Case{Kind: "batch", Stream: fmt.Sprintf("c12/batch/%d", i), Idx: i})
	}
	r.Parallel(len(cases), func(i int) { runCase(r, cases[i]) })
	for i := 0; i < r.Pick(4, 40); i++ {
		sharedContext(r, Case{Kind: "shared-context", Stream: fmt.Sprintf("c12/shared-context/%d", i)})
	}
	for i := 0; i < r.Pick(6, 60); i++ {
		entropyCase(r, Case{Kind: "entropy", Stream: fmt.Sprintf("c12/entropy/%d", i)})
	}
	r.Finish()
}
