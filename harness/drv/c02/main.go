// C02: Ed25519 key generation and signing are RFC 8032-exact and always verifiable.
// Monitor: every key derivation / signing call is shadowed by two independent oracles
// (crypto/ed25519 and a big-integer RFC 8032 signer); every produced signature is pushed
// through all presets (plain, expanded, batch) and through mutation monitors.
package main

import (
	"bytes"
	"crypto"
	stded "crypto/ed25519"
	"crypto/sha512"
	"errors"
	"fmt"
	_ "golang.org/x/crypto/blake2b"
	_ "golang.org/x/crypto/sha3"
	"io"
	"math/big"

	"github.com/oasisprotocol/curve25519-voi/primitives/ed25519"
	"github.com/oasisprotocol/curve25519-voi/zzverif/disturb"
	"github.com/oasisprotocol/curve25519-voi/zzverif/entropy"
	"github.com/oasisprotocol/curve25519-voi/zzverif/mon"
	"github.com/oasisprotocol/curve25519-voi/zzverif/ref"
)

type Case struct {
	Kind    string `json:"kind,omitempty"` // "" = signing case, "entropy" = reader-behaviour case
	Seed    string `json:"seed"`
	Msg     string `json:"msg"`
	Ctx     string `json:"ctx"`
	Variant int    `json:"variant"` // 0 pure 1 ctx 2 ph
	SelfV   bool   `json:"selfverify"`
	Preset  int    `json:"preset"` // index into presets, -1 = nil
	Flips   int    `json:"flips"`  // 0 = sampled, 1 = all 512 bits
	Idx     int    `json:"idx"`
}

type pat struct {
	b    byte
	step int
}

func (p *pat) Read(x []byte) (int, error) {
	// optionally one byte at a time
	n := len(x)
	if p.step > 0 && n > p.step {
		n = p.step
	}
	for i := 0; i < n; i++ {
		x[i] = p.b
	}
	return n, nil
}

type failing struct{ n int }

func (f *failing) Read(x []byte) (int, error) {
	if f.n <= 0 {
		return 0, errors.New("entropy failure")
	}
	k := f.n
	if k > len(x) {
		k = len(x)
	}
	f.n -= k
	return k, nil
}

var presets = []*ed25519.VerifyOptions{ed25519.VerifyOptionsDefault, ed25519.VerifyOptionsStdLib, ed25519.VerifyOptionsFIPS_186_5, ed25519.VerifyOptionsZIP_215}
var presetNames = []string{"Default", "StdLib", "FIPS_186_5", "ZIP_215"}

var (
	otherPriv = ed25519.NewKeyFromSeed(bytes.Repeat([]byte{0x61}, 32))
	otherPub  = otherPriv.Public().(ed25519.PublicKey)
	otherMsg  = []byte("an unrelated honest triple")
	otherSig  = ed25519.Sign(otherPriv, otherMsg)
)

func verifyAll(r *mon.Run, c Case, what string, pub ed25519.PublicKey, m, sig []byte, base *ed25519.Options, want bool) {
	exp, err := ed25519.NewExpandedPublicKey(pub)
	for pi := -1; pi < len(presets); pi++ {
		o := *base
		o.AddedRandomness, o.SelfVerify = false, false
		name := "nil"
		if pi >= 0 {
			o.Verify = presets[pi]
			name = presetNames[pi]
		} else {
			o.Verify = nil
		}
		var got, got2 bool
		pan, _ := mon.Try(func() { got = ed25519.VerifyWithOptions(pub, m, sig, &o) })
		r.Eval(nil)
		if pan || got != want {
			r.Violate(fmt.Sprintf("%s/verify-%s/want=%v", what, name, want), fmt.Sprintf("VerifyWithOptions preset=%s got=%v panic=%v want=%v", name, got, pan, want), c)
		}
		if err == nil {
			pan2, _ := mon.Try(func() { got2 = ed25519.VerifyExpandedWithOptions(exp, m, sig, &o) })
			r.Eval(nil)
			if pan2 || got2 != want {
				r.Violate(fmt.Sprintf("%s/verify-expanded-%s/want=%v", what, name, want), fmt.Sprintf("VerifyExpandedWithOptions preset=%s got=%v want=%v", name, got2, want), c)
			}
		} else if want {
			r.Violate(what+"/expand-honest-key", "NewExpandedPublicKey failed on an honest key: "+err.Error(), c)
		}
		// batch of two (the entry + an unrelated honest one); StdLib (cofactorless) is documented as incompatible with batch-only
		bv := ed25519.NewBatchVerifier()
		// the caller's key buffer is recycled between the Adds: first an unrelated honest triple goes through it
		var kbuf [32]byte
		copy(kbuf[:], otherPub)
		bv.Add(kbuf[:], otherMsg, otherSig)
		copy(kbuf[:], pub)
		bv.AddWithOptions(kbuf[:], m, sig, &o)
		copy(kbuf[:], otherPub)
		if err == nil {
			bv.AddExpandedWithOptions(exp, m, sig, &o)
		}
		// the same triples once more without key expansion, few signers many entries: (other, this) x 3
		if pi <= 0 {
			bn := ed25519.NewBatchVerifier()
			bn.ForceNoPublicKeyExpansion()
			for k := 0; k < 3; k++ {
				bn.Add(otherPub, otherMsg, otherSig)
				bn.AddWithOptions(pub, m, sig, &o)
			}
			var nOnly, nAll bool
			var nBits []bool
			panN, _ := mon.Try(func() {
				nOnly = bn.VerifyBatchOnly(nil)
				nAll, nBits = bn.Verify(nil)
			})
			r.Eval(nil)
			cofl := o.Verify != nil && o.Verify.CofactorlessVerify
			if panN || nAll != want || nOnly != (want && !cofl) || len(nBits) != 6 || !nBits[0] || nBits[1] != want {
				r.Violate(fmt.Sprintf("%s/batch-without-expansion-%s/want=%v", what, name, want), fmt.Sprintf("(other, this) x 3 without key expansion: VerifyBatchOnly=%v Verify=%v %v panic=%v", nOnly, nAll, nBits, panN), c)
			}
		}
		var all bool
		var bits []bool
		pan3, _ := mon.Try(func() { all, bits = bv.Verify(nil) })
		r.Eval(nil)
		if pan3 {
			r.Violate(what+"/batch-panic", "BatchVerifier.Verify panicked", c)
		} else {
			if len(bits) > 0 && !bits[0] {
				r.Violate(what+"/batch/unrelated-honest-entry-rejected", "the unrelated honest entry added first (through the same key buffer) is reported invalid", c)
			}
			if len(bits) > 0 {
				bits = bits[1:]
			}
			for i, b := range bits {
				if b != want {
					r.Violate(fmt.Sprintf("%s/batch-%s/bit%d/want=%v", what, name, i, want), fmt.Sprintf("batch bit %d = %v want %v (preset %s)", i, b, want, name), c)
				}
			}
			if all != want {
				r.Violate(fmt.Sprintf("%s/batch-%s/all/want=%v", what, name, want), fmt.Sprintf("batch overall=%v want %v", all, want), c)
			}
			// batch-only verification of the same (reused) verifier: true iff all valid and no cofactorless entry
			cofactorless := o.Verify != nil && o.Verify.CofactorlessVerify
			for rep := 0; rep < 2; rep++ {
				var only bool
				if pan4, _ := mon.Try(func() { only = bv.VerifyBatchOnly(nil) }); pan4 || only != (want && !cofactorless) {
					r.Violate(fmt.Sprintf("%s/batch-only-%s/want=%v", what, name, want && !cofactorless), fmt.Sprintf("VerifyBatchOnly call %d = %v", rep+1, only), c)
					break
				}
			}
		}
	}
}

// entropyCase: the entropy-consuming APIs of this property behind differently behaving readers (package entropy).
func entropyCase(r *mon.Run, c Case) {
	entropy.Check(r, "C02", r.Rng(fmt.Sprintf("c02/entropy/%d", c.Idx)), func(sig, what string) { r.Violate(sig, what, c) })
}

// mixedFaultBatches: batches that hold entries with DIFFERENT kinds of fault at once, in every order: entries the
// verifier refuses when they are added (truncated or overlong signature, S >= L, undecodable key, wrong-length key)
// next to well-formed entries that merely do not verify (a flipped scalar bit, another message, another signer's key)
// and honest ones. Every order of four entries drawn from the nine kinds; each reported bit must equal the single
// verification of that entry, the flag their conjunction, batch-only verification likewise.
func mixedFaultBatches(r *mon.Run, c Case) {
	rng := r.Rng(fmt.Sprintf("c02/mixed/%d", c.Idx))
	priv := ed25519.NewKeyFromSeed(mon.Bytes(rng, 32))
	pub := priv.Public().(ed25519.PublicKey)
	exp, _ := ed25519.NewExpandedPublicKey(pub)
	msg := mon.Bytes(rng, 1+rng.IntN(60))
	sig := ed25519.Sign(priv, msg)
	flipS := append([]byte{}, sig...)
	flipS[32+rng.IntN(31)] ^= 1 << uint(rng.IntN(8))
	sGeL := append([]byte{}, sig...)
	copy(sGeL[32:], ref.LE32(new(big.Int).Add(ref.FromLE(sig[32:]), ref.L)))
	undec := make([]byte, 32)
	undec[0] = 2
	type ent struct {
		name string
		pk   []byte
		msg  []byte
		sig  []byte
	}
	kinds := []ent{
		{"honest", pub, msg, sig},
		{"honest(other signer)", otherPub, otherMsg, otherSig},
		{"flipped-scalar-bit", pub, msg, flipS},
		{"other-message", pub, append(append([]byte{}, msg...), 1), sig},
		{"other-signers-key", otherPub, msg, sig},
		{"truncated-signature", pub, msg, sig[:63]},
		{"overlong-signature", pub, msg, append(append([]byte{}, sig...), 0)},
		{"S>=L", pub, msg, sGeL},
		{"undecodable-key", undec, msg, sig},
		{"wrong-length-key", pub[:31], msg, sig},
	}
	want := make([]bool, len(kinds))
	for i, k := range kinds {
		k := k
		mon.Try(func() { want[i] = ed25519.Verify(k.pk, k.msg, k.sig) }) // a documented panic (key length) counts as "not valid"
	}
	if !want[0] || !want[1] || want[2] || want[7] {
		mon.Fatalf("ORACLE: mixed-fault entry kinds are not what they are named")
	}
	n := len(kinds)
	total := n * n * n * n
	step := 1
	if r.Quick {
		step = 3 // every third order in the quick tier, offset by the case index
	}
	for code := c.Idx % step; code < total; code += step {
		idx := []int{code % n, code / n % n, code / n / n % n, code / n / n / n}
		mode := (code / step) % 3 // 0: plain adds, 1: without key expansion, 2: expanded adds where the key allows
		bv := ed25519.NewBatchVerifier()
		if mode == 1 {
			bv.ForceNoPublicKeyExpansion()
		}
		all := true
		var wbits []bool
		var names []string
		prefixBad := ""
		pan, pmsg := mon.Try(func() {
			for _, i := range idx {
				k := kinds[i]
				if mode == 2 && bytes.Equal(k.pk, pub) {
					bv.AddExpanded(exp, k.msg, k.sig)
				} else {
					bv.Add(k.pk, k.msg, k.sig)
				}
				all = all && want[i]
				wbits = append(wbits, want[i])
				names = append(names, k.name)
				// one order in two is verified incrementally: every prefix of the batch is verified (both ways) before
				// the next entry is added - a verifier that remembers an earlier verdict must forget it on every kind of add
				if (code/step)%2 == 0 {
					pa, pb := bv.Verify(nil)
					po := bv.VerifyBatchOnly(nil)
					bad := pa != all || po != all || len(pb) != len(wbits)
					for j := 0; !bad && j < len(pb); j++ {
						bad = pb[j] != wbits[j]
					}
					if bad && prefixBad == "" {
						prefixBad = fmt.Sprintf("after %d adds %v: Verify=%v %v, VerifyBatchOnly=%v; single verification says %v", len(wbits), names, pa, pb, po, wbits)
					}
				}
			}
		})
		if prefixBad != "" {
			r.Violate("batch/mixed-faults/prefix-verified-between-adds", prefixBad+fmt.Sprintf(" (mode=%d)", mode), c)
			prefixBad = ""
		}
		var gotAll, gotOnly bool
		var bits []bool
		if !pan {
			pan, pmsg = mon.Try(func() {
				gotAll, bits = bv.Verify(nil)
				gotOnly = bv.VerifyBatchOnly(nil)
			})
		}
		r.Eval(nil)
		r.Hist(fmt.Sprintf("mixed-fault-batch/mode%d", mode))
		det := fmt.Sprintf("entries %v mode=%d: Verify=%v %v, VerifyBatchOnly=%v; single verification says %v", names, mode, gotAll, bits, gotOnly, wbits)
		switch {
		case pan:
			r.Violate("batch/mixed-faults/panic", pmsg+"; "+det, c)
		case len(bits) != 4 || gotAll != all || gotOnly != all:
			r.Violate("batch/mixed-faults/flag", det, c)
		default:
			for j := range bits {
				if bits[j] != wbits[j] {
					r.Violate(fmt.Sprintf("batch/mixed-faults/bit/want=%v", wbits[j]), fmt.Sprintf("entry %d (%s): ", j, names[j])+det, c)
					break
				}
			}
		}
	}
}

func runCase(r *mon.Run, c Case) {
	if c.Kind == "entropy" {
		entropyCase(r, c)
		return
	}
	if c.Kind == "mixed-batch" {
		mixedFaultBatches(r, c)
		return
	}
	seed, msg, ctx := mon.UnHex(c.Seed), mon.UnHex(c.Msg), string(mon.UnHex(c.Ctx))
	rng := r.Rng(fmt.Sprintf("c02/case/%d", c.Idx))
	r.Journal("c02 case %+v", c)
	var priv ed25519.PrivateKey
	if pan, m := mon.Try(func() { priv = ed25519.NewKeyFromSeed(seed) }); pan {
		r.Violate("NewKeyFromSeed/panic", m, c)
		return
	}
	spriv := stded.NewKeyFromSeed(seed)
	rk := ref.NewKey(seed)
	if !bytes.Equal(spriv[32:], rk.Pub) {
		mon.Fatalf("ORACLE-CONFLICT keygen seed=%x", seed)
	}
	r.Eval([]byte("k" + c.Seed))
	if !bytes.Equal(priv, spriv) {
		r.Violate("NewKeyFromSeed/rfc8032-mismatch", fmt.Sprintf("private key %x != crypto/ed25519 %x", []byte(priv), []byte(spriv)), c)
	}
	// GenerateKey with the seed as the entropy stream
	pub2, priv2, err := ed25519.GenerateKey(bytes.NewReader(seed))
	if err != nil || !bytes.Equal(priv2, spriv) || !bytes.Equal(pub2, spriv[32:]) {
		r.Violate("GenerateKey/rfc8032-mismatch", fmt.Sprintf("err=%v", err), c)
	}
	if _, _, err := ed25519.GenerateKey(&failing{int(rng.IntN(32))}); err == nil {
		r.Violate("GenerateKey/entropy-failure-ignored", "short entropy produced a key", c)
	}
	pub := ed25519.PublicKey(priv[32:])
	if !bytes.Equal(priv.Public().(ed25519.PublicKey), pub) || !bytes.Equal(priv.Seed(), seed) {
		r.Violate("PrivateKey/accessors", "Public()/Seed() mismatch", c)
	}
	// what the accessors return belongs to the caller: overwriting it must not reach the key
	for name, get := range map[string]func() []byte{
		"Public()": func() []byte { return priv.Public().(ed25519.PublicKey) },
		"Seed()":   func() []byte { return priv.Seed() },
	} {
		b := get()
		for i := range b {
			b[i] ^= 0x5a
		}
		r.Eval(nil)
		if !bytes.Equal(priv, spriv) {
			r.Violate("PrivateKey/"+name+"/returned-slice-aliases-the-key", "overwriting the returned bytes changed the private key", c)
			priv = ed25519.PrivateKey(append([]byte{}, spriv...))
		}
	}

	opts := &ed25519.Options{SelfVerify: c.SelfV}
	sopts := &stded.Options{}
	if c.Preset >= 0 {
		opts.Verify = presets[c.Preset]
	}
	m := msg
	var dom []byte
	switch c.Variant {
	case 1:
		opts.Context, sopts.Context = ctx, ctx
		dom = ref.Dom2(0, []byte(ctx))
	case 2:
		h := sha512.Sum512(msg)
		m = h[:]
		opts.Hash, sopts.Hash = crypto.SHA512, crypto.SHA512
		opts.Context, sopts.Context = ctx, ctx
		dom = ref.Dom2(1, []byte(ctx))
	}
	var sig []byte
	// one case in two signs right after an operation that failed on the same goroutine (package disturb)
	if c.Idx%2 == 0 {
		r.Hist("disturbed-before-sign/" + disturb.Ed25519(c.Idx/2))
	}
	pan, pm := mon.Try(func() { sig, err = priv.Sign(nil, m, opts) })
	ssig, serr := spriv.Sign(nil, m, sopts)
	rsig := rk.Sign(m, dom)
	if serr != nil || !bytes.Equal(ssig, rsig) {
		mon.Fatalf("ORACLE-CONFLICT sign: std err=%v std=%x ref=%x", serr, ssig, rsig)
	}
	r.Eval([]byte(fmt.Sprintf("s%s|%s|%s|%d", c.Seed, c.Msg, c.Ctx, c.Variant)))
	r.Hist(fmt.Sprintf("sign/v%d/msglen%d/ctxlen%d", c.Variant, len(msg), len(ctx)))
	if pan || err != nil {
		r.Violate("Sign/error-on-valid-input", fmt.Sprintf("panic=%v(%s) err=%v", pan, pm, err), c)
		return
	}
	if !bytes.Equal(sig, rsig) {
		r.Violate("Sign/rfc8032-mismatch", fmt.Sprintf("signature %x != RFC 8032 %x", sig, rsig), c)
	}
	if c.Variant == 0 {
		var s2 []byte
		if pan, _ := mon.Try(func() { s2 = ed25519.Sign(priv, m) }); pan || !bytes.Equal(s2, rsig) {
			r.Violate("Sign(func)/rfc8032-mismatch", "package-level Sign differs", c)
		}
	}
	// canonical R, S < L
	if len(sig) == 64 {
		if !ref.Decode(sig[:32]).Canonical || ref.FromLE(sig[32:]).Cmp(ref.L) >= 0 {
			r.Violate("Sign/non-canonical-output", fmt.Sprintf("sig=%x", sig), c)
		}
	}
	verifyAll(r, c, "honest", pub, m, sig, opts, true)

	// one option struct kept by the caller and rewritten between calls (variant toggled with the context unchanged,
	// context changed with the variant unchanged, a by-value copy with one field changed): every signature is the RFC
	// 8032 signature for the options as they are at the time of the call, and verifies only under those
	if c.Idx%3 == 0 {
		h64 := sha512.Sum512(msg)
		ctxA, ctxB := "reused-options-context", "another context"
		ro := &ed25519.Options{}
		type st struct {
			name string
			set  func()
			m    []byte
			dom  func() []byte
		}
		steps := []st{
			{"ctx(A)", func() { ro.Hash, ro.Context = 0, ctxA }, msg, func() []byte { return ref.Dom2(0, []byte(ctxA)) }},
			{"ph(A) after ctx(A)", func() { ro.Hash = crypto.SHA512 }, h64[:], func() []byte { return ref.Dom2(1, []byte(ctxA)) }},
			{"ctx(A) after ph(A)", func() { ro.Hash = 0 }, msg, func() []byte { return ref.Dom2(0, []byte(ctxA)) }},
			{"ctx(B) after ctx(A)", func() { ro.Context = ctxB }, msg, func() []byte { return ref.Dom2(0, []byte(ctxB)) }},
			{"ph(B) after ctx(B)", func() { ro.Hash = crypto.SHA512 }, h64[:], func() []byte { return ref.Dom2(1, []byte(ctxB)) }},
			{"ph(no context) after ph(B)", func() { ro.Context = "" }, h64[:], func() []byte { return ref.Dom2(1, nil) }},
			{"pure after ph", func() { ro.Hash = 0 }, msg, func() []byte { return nil }},
			{"ctx(A) again", func() { ro.Context = ctxA }, msg, func() []byte { return ref.Dom2(0, []byte(ctxA)) }},
		}
		for si, sp := range steps {
			sp.set()
			for _, byValue := range []bool{false, true} {
				use := ro
				if byValue {
					cp := *ro
					use = &cp
				}
				var sg []byte
				var e error
				pan, pmsg := mon.Try(func() { sg, e = priv.Sign(nil, sp.m, use) })
				want := rk.Sign(sp.m, sp.dom())
				r.Eval(nil)
				r.Hist("reused-options/" + sp.name)
				if pan || e != nil || !bytes.Equal(sg, want) {
					r.Violate("Sign/reused-option-struct", fmt.Sprintf("step %d (%s, by-value copy=%v): panic=%v %s err=%v got %x want %x", si, sp.name, byValue, pan, pmsg, e, sg, want), c)
					continue
				}
				var ok bool
				pan, _ = mon.Try(func() { ok = ed25519.VerifyWithOptions(pub, sp.m, want, use) })
				if pan || !ok {
					r.Violate("VerifyWithOptions/reused-option-struct", fmt.Sprintf("step %d (%s, by-value copy=%v): the RFC 8032 signature for the current options is rejected", si, sp.name, byValue), c)
				}
				if x, err := ed25519.NewExpandedPublicKey(pub); err == nil {
					pan, _ = mon.Try(func() { ok = ed25519.VerifyExpandedWithOptions(x, sp.m, want, use) })
					if pan || !ok {
						r.Violate("VerifyExpandedWithOptions/reused-option-struct", fmt.Sprintf("step %d (%s)", si, sp.name), c)
					}
				}
				// and the previous step's signature does not verify under the current options
				if si > 0 {
					prev := steps[si-1]
					ro2 := *use
					if pw := rk.Sign(prev.m, prev.dom()); !bytes.Equal(pw, want) || !bytes.Equal(prev.m, sp.m) {
						pan, _ = mon.Try(func() { ok = ed25519.VerifyWithOptions(pub, sp.m, pw, &ro2) })
						if !pan && ok {
							r.Violate("VerifyWithOptions/reused-option-struct/previous-signature-accepted", fmt.Sprintf("step %d (%s): the signature made under the previous options (%s) verifies under the current ones", si, sp.name, prev.name), c)
						}
					}
				}
			}
		}
		// pre-hash identifiers: only SHA-512 selects Ed25519ph; every other identifier (registered or not, 64-byte
		// digests included) is refused by Sign and does not verify
		for _, hid := range []crypto.Hash{crypto.MD5, crypto.SHA1, crypto.SHA224, crypto.SHA256, crypto.SHA384, crypto.SHA512_224, crypto.SHA512_256, crypto.SHA3_256, crypto.SHA3_384, crypto.SHA3_512, crypto.BLAKE2b_256, crypto.BLAKE2b_512, crypto.Hash(20), crypto.Hash(21), crypto.Hash(64), crypto.Hash(255), crypto.Hash(1 << 20)} {
			for _, ml := range []int{64, 32, len(msg)} {
				mm := make([]byte, ml)
				ho := &ed25519.Options{Hash: hid, Context: []string{"", "c"}[ml%2]}
				var sg []byte
				var e error
				pan, _ := mon.Try(func() { sg, e = priv.Sign(nil, mm, ho) })
				r.Eval(nil)
				r.Hist("prehash-identifier/other-than-SHA512")
				if !pan && (e == nil || sg != nil) {
					r.Violate("Sign/foreign-prehash-identifier-accepted", fmt.Sprintf("Hash=%d message length %d: Sign returned a signature (err=%v)", uint(hid), ml, e), c)
				}
				phSig := rk.Sign(h64[:], ref.Dom2(1, []byte(ho.Context)))
				var ok bool
				pan, _ = mon.Try(func() { ok = ed25519.VerifyWithOptions(pub, h64[:], phSig, ho) })
				if !pan && ok {
					r.Violate("VerifyWithOptions/foreign-prehash-identifier-accepted", fmt.Sprintf("Hash=%d: an Ed25519ph(SHA-512) signature verifies", uint(hid)), c)
				}
				bv := ed25519.NewBatchVerifier()
				pan, _ = mon.Try(func() {
					bv.AddWithOptions(pub, h64[:], phSig, ho)
					ok, _ = bv.Verify(nil)
				})
				if !pan && ok {
					r.Violate("BatchVerifier/foreign-prehash-identifier-accepted", fmt.Sprintf("Hash=%d", uint(hid)), c)
				}
			}
		}
	}

	// mutations: must all be rejected
	mutate := func(what string, pub ed25519.PublicKey, m, s []byte, o *ed25519.Options) {
		verifyAll(r, c, what, pub, m, s, o, false)
	}
	nbits := 512
	var bitsToFlip []int
	if c.Flips == 1 {
		for i := 0; i < nbits; i++ {
			bitsToFlip = append(bitsToFlip, i)
		}
	} else {
		for i := 0; i < 8; i++ {
			bitsToFlip = append(bitsToFlip, 31*8+i, 63*8+i)
		}
		for i := 0; i < 10; i++ {
			bitsToFlip = append(bitsToFlip, rng.IntN(512))
		}
	}
	for _, b := range bitsToFlip {
		s2 := append([]byte{}, sig...)
		s2[b/8] ^= 1 << uint(b%8)
		// a flipped R may only be accepted if it encodes the same point (impossible for canonical R except sign of x=0)
		mutate("sigbit", pub, m, s2, opts)
	}
	if len(m) > 0 {
		m2 := append([]byte{}, m...)
		m2[rng.IntN(len(m2))] ^= 1 << uint(rng.IntN(8))
		mutate("msgbit", pub, m2, sig, opts)
	}
	if c.Variant != 2 {
		mutate("msgappend", pub, append(append([]byte{}, m...), 0), sig, opts)
	}
	{
		// a different honest key
		other := ed25519.NewKeyFromSeed(mon.Bytes(rng, 32))
		mutate("otherkey", ed25519.PublicKey(other[32:]), m, sig, opts)
	}
	if c.Variant != 0 {
		o2 := *opts
		if len(ctx) < 255 {
			o2.Context = ctx + "x"
			mutate("ctxappend", pub, m, sig, &o2)
		}
		if len(ctx) > 0 {
			b := []byte(ctx)
			b[rng.IntN(len(b))] ^= 1
			o2.Context = string(b)
			mutate("ctxbit", pub, m, sig, &o2)
		}
	}
	if c.Variant == 1 {
		o2 := *opts
		o2.Context = ""
		mutate("ctx-dropped", pub, m, sig, &o2)
	}
	if c.Variant == 0 {
		o2 := *opts
		o2.Context = "c"
		mutate("ctx-added", pub, m, sig, &o2)
	}
	if c.Variant == 2 {
		// same bytes verified as Ed25519ctx (different dom2 flag)
		o2 := *opts
		o2.Hash = crypto.Hash(0)
		if o2.Context != "" {
			mutate("ph-as-ctx", pub, m, sig, &o2)
		}
	}

	// added randomness
	ro := *opts
	ro.AddedRandomness = true
	var s1, s2, s1b, s1c []byte
	var e1, e2, e1b, e1c error
	pan, pm = mon.Try(func() {
		s1, e1 = priv.Sign(&pat{b: 1}, m, &ro)
		s2, e2 = priv.Sign(&pat{b: 2}, m, &ro)
		s1b, e1b = priv.Sign(&pat{b: 1}, m, &ro)
		s1c, e1c = priv.Sign(&pat{b: 1, step: 1}, m, &ro) // one byte at a time
	})
	r.EvalN(4)
	switch {
	case pan || e1 != nil || e2 != nil || e1b != nil || e1c != nil:
		r.Violate("Sign/added-randomness/error", fmt.Sprintf("panic=%v(%s) %v %v %v %v", pan, pm, e1, e2, e1b, e1c), c)
	case bytes.Equal(s1[:32], sig[:32]):
		r.Violate("Sign/added-randomness/reuses-deterministic-nonce", "R equals the deterministic R", c)
	case bytes.Equal(s1[:32], s2[:32]):
		r.Violate("Sign/added-randomness/independent-of-entropy", "two entropy streams gave the same R", c)
	case !bytes.Equal(s1, s1b) || !bytes.Equal(s1, s1c):
		r.Violate("Sign/added-randomness/not-a-function-of-entropy", "same entropy gave different signatures", c)
	default:
		// the exact value: r = H(dom2 || Z || prefix || pad || M) with 1024-byte block alignment
		z := bytes.Repeat([]byte{1}, 32)
		pad := make([]byte, 1024-(len(dom)+32+32))
		h := sha512.New()
		h.Write(dom)
		h.Write(z)
		h.Write(rk.Prefix)
		h.Write(pad)
		h.Write(m)
		rr := new(big.Int).Mod(ref.FromLE(h.Sum(nil)), ref.L)
		want := rk.SignWith(rr, ref.Encode(ref.B.Mul(rr)), rk.Pub, m, dom)
		if !bytes.Equal(want, s1) {
			r.Violate("Sign/added-randomness/value", fmt.Sprintf("got %x want %x", s1, want), c)
		}
		verifyAll(r, c, "added-randomness", pub, m, s1, opts, true)
	}
	for _, k := range []int{0, 1, 31, rng.IntN(32)} {
		s3, e3 := priv.Sign(&failing{k}, m, &ro)
		r.Eval(nil)
		if e3 == nil || s3 != nil {
			r.Violate("Sign/entropy-failure-yields-signature", fmt.Sprintf("reader failing after %d bytes: err=%v sig=%x", k, e3, s3), c)
		}
	}

	// invalid option combinations / lengths: error and never a signature
	type inv struct {
		name string
		priv ed25519.PrivateKey
		m    []byte
		o    crypto.SignerOpts
	}
	invs := []inv{
		{"ctx256", priv, msg, &ed25519.Options{Context: string(make([]byte, 256))}},
		{"ctx1000-ph", priv, m64(), &ed25519.Options{Hash: crypto.SHA512, Context: string(make([]byte, 1000))}},
		{"hash-sha256", priv, make([]byte, 32), &ed25519.Options{Hash: crypto.SHA256}},
		{"hash-sha256-signeropts", priv, make([]byte, 32), crypto.SHA256},
		{"ph-len63", priv, make([]byte, 63), &ed25519.Options{Hash: crypto.SHA512}},
		{"ph-len65", priv, make([]byte, 65), &ed25519.Options{Hash: crypto.SHA512}},
		{"ph-len0", priv, nil, crypto.SHA512},
		{"incompatible-verify", priv, msg, &ed25519.Options{Verify: &ed25519.VerifyOptions{AllowNonCanonicalR: true, CofactorlessVerify: true}}},
		{"priv63", priv[:63], msg, &ed25519.Options{}},
		{"priv0", nil, msg, &ed25519.Options{}},
		{"priv65", append(append(ed25519.PrivateKey{}, priv...), 0), msg, &ed25519.Options{}},
		{"priv32", priv[:32], msg, crypto.Hash(0)},
	}
	for _, iv := range invs {
		var s []byte
		var e error
		pan, pm := mon.Try(func() { s, e = iv.priv.Sign(nil, iv.m, iv.o) })
		r.Eval(nil)
		r.Hist("invalid/" + iv.name)
		if pan || e == nil || s != nil {
			r.Violate("Sign/invalid-"+iv.name, fmt.Sprintf("panic=%v(%s) err=%v sig=%x", pan, pm, e, s), c)
		}
	}
	r.Sample(fmt.Sprintf("variant%d", c.Variant), map[string]any{"case": c, "signature": mon.Hex(sig)})
}

func m64() []byte { return make([]byte, 64) }

var _ io.Reader = (*pat)(nil)

func main() {
	r := mon.Start("C02", "seeds {0^32, ff^32, RFC 8032 test seeds, PRNG} x message lengths at SHA-512 block boundaries x contexts 0..255 x {pure,ctx,ph} x SelfVerify x Verify preset; each signature compared with crypto/ed25519 and the big-integer RFC 8032 signer, verified under all presets (plain/expanded/batch), then mutated (signature bits, message, key, context, variant) and with added randomness / failing entropy / invalid options; non-trivial = a signing case; distinct = SHA-256 of (seed,msg,ctx,variant)")
	var c Case
	if r.LoadReplay(&c) {
		runCase(r, c)
		r.Finish()
		return
	}
	rng := r.Rng("c02")
	msgLens := []int{0, 1, 63, 64, 65, 111, 112, 127, 128, 129, 1024, 65536}
	ctxLens := []int{1, 2, 31, 32, 33, 127, 254, 255}
	rfcSeeds := []string{
		"9d61b19deffd5a60ba844af492ec2cc44449c5697b326919703bac031cae7f60",
		"4ccd089b28ff96da9db6c346ec114e0f5b8a319f35aba624da8cf6ed4fb8a6fb",
		"c5aa8df43f9f837bedb7442f31dcb7b166d38535076f094b85ce3a2e0b4458f7",
		"f5e5767cf153319517630f226876b86c8160cc583bc013744c6bf255f5cc0ee5",
		"833fe62409237b9d62ec77587520911e9a759cec1d19755b7da901b96dca3d42",
		"0305334e381af78f141cb666f6199f57bc3495335a256a95bd2a55bf546663f6",
	}
	n := r.Pick(240, 1500)
	var cases []Case
	for i := 0; i < n; i++ {
		seed := mon.Bytes(rng, 32)
		switch {
		case i == 0:
			seed = make([]byte, 32)
		case i == 1:
			seed = bytes.Repeat([]byte{0xff}, 32)
		case i-2 < len(rfcSeeds) && i >= 2:
			seed = mon.UnHex(rfcSeeds[i-2])
		}
		ml := msgLens[i%len(msgLens)]
		if ml == 65536 && r.Quick && i > 12 {
			ml = 200
		}
		variant := i % 3
		cl := 0
		if variant == 1 {
			cl = ctxLens[(i/3)%len(ctxLens)]
		} else if variant == 2 {
			cl = []int{0, 1, 255, 17}[(i/3)%4]
		}
		flips := 0
		if !r.Quick && i%10 == 0 {
			flips = 1
		}
		if r.Quick && i == 3 {
			flips = 1
		}
		cases = append(cases, Case{Seed: mon.Hex(seed), Msg: mon.Hex(mon.Bytes(rng, ml)), Ctx: mon.Hex(mon.Bytes(rng, cl)), Variant: variant, SelfV: i%2 == 0, Preset: i%5 - 1, Flips: flips, Idx: i})
	}
	r.Parallel(len(cases), func(i int) { runCase(r, cases[i]) })
	for i := 0; i < r.Pick(6, 60); i++ {
		entropyCase(r, Case{Kind: "entropy", Idx: i})
		if i < 3 {
			mixedFaultBatches(r, Case{Kind: "mixed-batch", Idx: i})
		}
	}
	r.Finish()
}
