// C05: scalar arithmetic is exact modulo the group order on every 255-bit input.
// Monitor: every scalar operation is shadowed by math/big on a catalogue aimed at kL+-e,
// 2^252 neighbourhoods, all-ones limbs and Montgomery carry extremes, plus PRNG values.
package main

import (
	"bytes"
	"fmt"
	"math/big"
	"math/rand/v2"
	"sync"
	"sync/atomic"

	"github.com/oasisprotocol/curve25519-voi/curve/scalar"
	"github.com/oasisprotocol/curve25519-voi/zzverif/entropy"
	"github.com/oasisprotocol/curve25519-voi/zzverif/fluent"
	"github.com/oasisprotocol/curve25519-voi/zzverif/gen"
	"github.com/oasisprotocol/curve25519-voi/zzverif/hist"
	"github.com/oasisprotocol/curve25519-voi/zzverif/mon"
	"github.com/oasisprotocol/curve25519-voi/zzverif/ref"
)

type Case struct {
	Kind   string `json:"kind"`
	Stream string `json:"stream"`
	A      string `json:"a,omitempty"`
	B      string `json:"b,omitempty"`
}

var L = ref.L
var cat []*big.Int

func modL(v *big.Int) *big.Int { return new(big.Int).Mod(v, L) }

func sc(v *big.Int) *scalar.Scalar {
	s, err := scalar.NewFromBits(ref.LE32(v))
	if err != nil {
		mon.Fatalf("NewFromBits: %v", err)
	}
	return s
}

func bytesOf(s *scalar.Scalar) []byte {
	var b [32]byte
	s.ToBytes(b[:])
	return b[:]
}

type ctx struct {
	r  *mon.Run
	c  Case
	h  *hist.Pool // receivers with a past (package hist)
	hv *hist.Pool // operand objects with a past (a separate pool: receivers never overwrite live operands)
}

func (x *ctx) expect(op string, got *scalar.Scalar, want *big.Int, det func() string) {
	x.r.Eval(nil)
	x.r.Hist("op/" + op)
	w := ref.LE32(modL(want))
	if !bytes.Equal(bytesOf(got), w) {
		x.r.Violate("scalar/"+op, fmt.Sprintf("%s: got %x want %x; %s", op, bytesOf(got), w, det()), x.c)
	}
}

func (x *ctx) pair(a, b *big.Int) {
	det := func() string { return fmt.Sprintf("a=%x b=%x", a, b) }
	sa, sb := x.hv.SVal2(ref.LE32(a), ref.LE32(b)) // operand objects with a past, values written through a random mutator
	x.r.Journal("c05 pair %s", det())
	x.r.Eval([]byte("p" + a.String() + "|" + b.String()))
	x.expect("Add", x.h.S().Add(sa, sb), new(big.Int).Add(a, b), det)
	x.expect("Sub", x.h.S().Sub(sa, sb), new(big.Int).Sub(a, b), det)
	x.expect("Mul", x.h.S().Mul(sa, sb), new(big.Int).Mul(a, b), det)
	t := x.h.S().Set(sa)
	x.expect("Add-aliased", t.Add(t, sb), new(big.Int).Add(a, b), det)
	t.Set(sb)
	x.expect("Sub-aliased", t.Sub(sa, t), new(big.Int).Sub(a, b), det)
	t.Set(sa)
	x.expect("Mul-aliased", t.Mul(t, t), new(big.Int).Mul(a, a), det)
	// every aliasing pattern of the three-operand forms: out==second operand, out==first operand, all three equal
	t.Set(sb)
	x.expect("Add-aliased(out=b)", t.Add(sa, t), new(big.Int).Add(a, b), det)
	t.Set(sa)
	x.expect("Sub-aliased(out=a)", t.Sub(t, sb), new(big.Int).Sub(a, b), det)
	t.Set(sb)
	x.expect("Mul-aliased(out=b)", t.Mul(sa, t), new(big.Int).Mul(a, b), det)
	t.Set(sa)
	x.expect("Mul-aliased(out=a)", t.Mul(t, sb), new(big.Int).Mul(a, b), det)
	t.Set(sa)
	x.expect("Add-aliased(all)", t.Add(t, t), new(big.Int).Add(a, a), det)
	t.Set(sa)
	x.expect("Sub-aliased(all)", t.Sub(t, t), new(big.Int), det)
	if !bytes.Equal(bytesOf(sa), ref.LE32(a)) || !bytes.Equal(bytesOf(sb), ref.LE32(b)) {
		x.r.Violate("scalar/operand-modified", det(), x.c)
	}
	for ch := 0; ch < 2; ch++ {
		t := x.h.S()
		t.ConditionalSelect(sa, sb, ch)
		w := a
		if ch == 1 {
			w = b
		}
		x.r.Eval(nil)
		if !bytes.Equal(bytesOf(t), ref.LE32(w)) {
			x.r.Violate("scalar/ConditionalSelect", det(), x.c)
		}
	}
	x.r.Eval(nil)
	if (sa.Equal(sb) == 1) != (a.Cmp(b) == 0) {
		x.r.Violate("scalar/Equal", det(), x.c)
	}
}

func (x *ctx) unary(a *big.Int) {
	det := func() string { return fmt.Sprintf("a=%x", a) }
	sa := x.hv.SVal(ref.LE32(a))
	x.r.Eval([]byte("u" + a.String()))
	x.expect("Neg", x.h.S().Neg(sa), new(big.Int).Neg(a), det)
	x.expect("Reduce", x.h.S().Reduce(sa), a, det)
	t := x.h.S().Set(sa)
	x.expect("Reduce-aliased", t.Reduce(t), a, det)
	t.Set(sa)
	x.expect("Neg-aliased", t.Neg(t), new(big.Int).Neg(a), det)
	x.r.Eval(nil)
	if sa.IsCanonical() != (a.Cmp(L) < 0) {
		x.r.Violate("scalar/IsCanonical", fmt.Sprintf("IsCanonical=%v; %s", sa.IsCanonical(), det()), x.c)
	}
	if modL(a).Sign() != 0 {
		inv := new(big.Int).ModInverse(modL(a), L)
		x.expect("Invert", x.h.S().Invert(sa), inv, det)
		t.Set(sa)
		x.expect("Invert-aliased", t.Invert(t), inv, det)
	}
}

// decoders and canonicity predicates on arbitrary 32-byte strings (256-bit values)
func (x *ctx) decoders(b []byte) {
	v := ref.FromLE(b)
	det := func() string { return fmt.Sprintf("in=%x", b) }
	x.r.Eval(append([]byte("d"), b...))
	x.r.Journal("c05 decode %x", b)
	canon := v.Cmp(L) < 0
	x.r.Hist(fmt.Sprintf("decode/canonical=%v/top=%02x", canon, b[31]&0xf0))
	if got := scalar.ScMinimalVartime(b); got != canon {
		x.r.Violate("scalar/ScMinimalVartime", fmt.Sprintf("got %v want %v; %s", got, canon, det()), x.c)
	}
	s, err := x.h.S().SetCanonicalBytes(b)
	if (err == nil) != canon || (err == nil && !bytes.Equal(bytesOf(s), b)) {
		x.r.Violate("scalar/SetCanonicalBytes", fmt.Sprintf("err=%v want canonical=%v; %s", err, canon, det()), x.c)
	}
	s2, err2 := scalar.NewFromCanonicalBytes(b)
	if (err2 == nil) != canon || (err2 == nil && !bytes.Equal(bytesOf(s2), b)) {
		x.r.Violate("scalar/NewFromCanonicalBytes", fmt.Sprintf("err=%v want canonical=%v; %s", err2, canon, det()), x.c)
	}
	s3 := scalar.NewFromUint64(7)
	err3 := s3.UnmarshalBinary(b)
	if (err3 == nil) != canon || (err3 == nil && !bytes.Equal(bytesOf(s3), b)) {
		x.r.Violate("scalar/UnmarshalBinary", fmt.Sprintf("err=%v want canonical=%v; %s", err3, canon, det()), x.c)
	}
	if err3 == nil {
		mb, _ := s3.MarshalBinary()
		if !bytes.Equal(mb, b) {
			x.r.Violate("scalar/MarshalBinary", det(), x.c)
		}
	}
	s4, err4 := x.h.S().SetBytesModOrder(b)
	x.r.EvalN(5)
	if err4 != nil {
		x.r.Violate("scalar/SetBytesModOrder/error", det(), x.c)
	} else {
		x.expect("SetBytesModOrder", s4, v, det)
	}
	s5, err5 := scalar.NewFromBytesModOrder(b)
	if err5 != nil {
		x.r.Violate("scalar/NewFromBytesModOrder/error", det(), x.c)
	} else {
		x.expect("NewFromBytesModOrder", s5, v, det)
	}
	// SetBits keeps the low 255 bits verbatim
	s6, err6 := x.h.S().SetBits(b)
	m := append([]byte{}, b...)
	m[31] &= 0x7f
	if err6 != nil || !bytes.Equal(bytesOf(s6), m) {
		x.r.Violate("scalar/SetBits", det(), x.c)
	}
}

func (x *ctx) wide(w []byte) {
	det := func() string { return fmt.Sprintf("in=%x", w) }
	x.r.Eval(append([]byte("w"), w...))
	s, err := x.h.S().SetBytesModOrderWide(w)
	if err != nil {
		x.r.Violate("scalar/SetBytesModOrderWide/error", det(), x.c)
		return
	}
	x.expect("SetBytesModOrderWide", s, ref.FromLE(w), det)
	s2, err := scalar.NewFromBytesModOrderWide(w)
	if err != nil {
		x.r.Violate("scalar/NewFromBytesModOrderWide/error", det(), x.c)
		return
	}
	x.expect("NewFromBytesModOrderWide", s2, ref.FromLE(w), det)
	// SetRandom reads exactly 64 bytes and reduces them
	s3, err := x.h.S().SetRandom(bytes.NewReader(w))
	if err != nil {
		x.r.Violate("scalar/SetRandom/error", det(), x.c)
		return
	}
	x.expect("SetRandom", s3, ref.FromLE(w), det)
}

func (x *ctx) lists(rng *rand.Rand) {
	for _, n := range []int{0, 1, 2, 3, 17, 64} {
		var vals []*big.Int
		var ss []*scalar.Scalar
		sum, prod := new(big.Int), big.NewInt(1)
		for i := 0; i < n; i++ {
			v := gen.RandScalar(rng, cat)
			vals = append(vals, v)
			ss = append(ss, sc(v))
			sum.Add(sum, v)
			prod.Mul(prod, v)
			prod.Mod(prod, L)
		}
		det := func() string { return fmt.Sprintf("n=%d vals=%x", n, vals) }
		x.r.Eval([]byte(det()))
		x.expect("Sum", scalar.New().Sum(ss), sum, det)
		x.expect("Product", scalar.New().Product(ss), prod, det)
		if n > 0 {
			// the receiver is one of the values (x = x*y*z in place), and one value listed twice
			for _, j := range []int{0, n / 2, n - 1} {
				cp := func() []*scalar.Scalar {
					o := make([]*scalar.Scalar, n)
					for i := range ss {
						o[i] = scalar.New().Set(ss[i])
					}
					return o
				}
				l := cp()
				x.expect(fmt.Sprintf("Sum(receiver=values[%d of %d])", j, n), l[j].Sum(l), sum, det)
				l = cp()
				x.expect(fmt.Sprintf("Product(receiver=values[%d of %d])", j, n), l[j].Product(l), prod, det)
				for i := range l {
					if i != j && !bytes.Equal(bytesOf(l[i]), bytesOf(ss[i])) {
						x.r.Violate("scalar/Product/operand-modified", det(), x.c)
					}
				}
				l = append(cp(), nil)
				l[n] = l[j]
				x.expect("Sum(value listed twice)", scalar.New().Sum(l), new(big.Int).Add(sum, vals[j]), det)
				x.expect("Product(value listed twice)", scalar.New().Product(l), new(big.Int).Mul(prod, vals[j]), det)
			}
		}
		// BatchInvert on non-zero (possibly unreduced) inputs
		var nz []*big.Int
		var nzs []*scalar.Scalar
		allInv := big.NewInt(1)
		for _, v := range vals {
			if modL(v).Sign() != 0 {
				nz = append(nz, v)
				nzs = append(nzs, sc(v))
				allInv.Mul(allInv, new(big.Int).ModInverse(modL(v), L))
				allInv.Mod(allInv, L)
			}
		}
		ret := scalar.New().BatchInvert(nzs)
		x.expect("BatchInvert/return", ret, allInv, det)
		for i, v := range nz {
			x.expect("BatchInvert/element", nzs[i], new(big.Int).ModInverse(modL(v), L), det)
		}
	}
	// long lists of maximal unreduced values: any accumulation that is not re-reduced per step shows here
	top := []*big.Int{new(big.Int).Sub(gen.Two255, big.NewInt(1)), new(big.Int).Sub(gen.Two255, big.NewInt(19)), new(big.Int).Sub(new(big.Int).Mul(L, big.NewInt(7)), big.NewInt(1)), new(big.Int).Add(new(big.Int).Mul(L, big.NewInt(7)), big.NewInt(3)), new(big.Int).Sub(gen.Two255, big.NewInt(8))}
	for _, n := range []int{36, 37, 43, 73, 74, 100, 256, 1000} {
		for mode := 0; mode < 2; mode++ {
			var ss []*scalar.Scalar
			sum, prod := new(big.Int), big.NewInt(1)
			base := top[rng.IntN(len(top))]
			for i := 0; i < n; i++ {
				v := base
				if mode == 1 {
					v = top[rng.IntN(len(top))]
					if rng.IntN(4) == 0 {
						v = gen.Rand255(rng)
					}
				}
				ss = append(ss, sc(v))
				sum.Add(sum, v)
				prod.Mul(prod, v)
				prod.Mod(prod, L)
			}
			det := func() string { return fmt.Sprintf("n=%d maximal unreduced terms (mode %d, base %x)", n, mode, base) }
			x.r.Eval([]byte(det()))
			x.expect("Sum(long,unreduced)", scalar.New().Sum(ss), sum, det)
			x.expect("Product(long,unreduced)", scalar.New().Product(ss), prod, det)
		}
	}
	for _, u := range []uint64{0, 1, 2, 1 << 63, ^uint64(0), rng.Uint64()} {
		x.expect("NewFromUint64", scalar.NewFromUint64(u), new(big.Int).SetUint64(u), func() string { return fmt.Sprint(u) })
		x.expect("SetUint64", scalar.NewFromUint64(9).SetUint64(u), new(big.Int).SetUint64(u), func() string { return fmt.Sprint(u) })
	}
	x.expect("Zero", scalar.NewFromUint64(5).Zero(), big.NewInt(0), func() string { return "" })
	x.expect("One", scalar.NewFromUint64(5).One(), big.NewInt(1), func() string { return "" })
	x.expect("One()", scalar.One(), big.NewInt(1), func() string { return "" })
}

// decodeCatalogue: 256-bit strings aimed at the fast paths and the word-wise compare loop of the minimality test.
func decodeCatalogue(rng *rand.Rand) [][]byte {
	var out [][]byte
	add := func(v *big.Int) {
		if v.Sign() >= 0 && v.Cmp(gen.Two256) < 0 {
			out = append(out, ref.LE32(v))
		}
	}
	for _, v := range cat {
		add(v)
		add(new(big.Int).Add(v, gen.Two255))
	}
	// L with each 64-bit word nudged, crossed with top-byte classes
	for w := uint(0); w < 4; w++ {
		for _, d := range []int64{-2, -1, 0, 1, 2} {
			v := new(big.Int).Add(L, new(big.Int).Lsh(big.NewInt(d), 64*w))
			add(v)
		}
		// word w all ones / all zeros with the other words equal to L's
		lb := ref.LE32(L)
		for _, fill := range []byte{0x00, 0xff} {
			b := append([]byte{}, lb...)
			for i := 0; i < 8; i++ {
				b[int(w)*8+i] = fill
			}
			if w == 3 {
				b[31] = lb[31]
			}
			out = append(out, b)
		}
	}
	for _, top := range []byte{0x00, 0x0f, 0x10, 0x11, 0x1f, 0x20, 0x7f, 0x80, 0xff} {
		for i := 0; i < 4; i++ {
			b := mon.Bytes(rng, 32)
			b[31] = top
			out = append(out, b)
		}
		// top byte with the rest equal to L's low bytes +-1
		for _, d := range []int64{-1, 0, 1} {
			b := ref.LE32(new(big.Int).Add(L, big.NewInt(d)))
			b[31] = top
			out = append(out, b)
		}
		z := make([]byte, 32)
		z[31] = top
		out = append(out, z)
		f := bytes.Repeat([]byte{0xff}, 32)
		f[31] = top
		out = append(out, f)
	}
	// L with one 32-bit word replaced (words above it equal to L's, so that this word decides; words below arbitrary):
	// the replaced word at distance 0, +-1, +-2^31 and more from L's word, and the extreme values
	lbw := ref.LE32(L)
	for w := 0; w < 8; w++ {
		lw := uint32(lbw[4*w]) | uint32(lbw[4*w+1])<<8 | uint32(lbw[4*w+2])<<16 | uint32(lbw[4*w+3])<<24
		for _, nv := range []uint32{0, 0xffffffff, lw, lw + 1, lw - 1, lw + 1<<31, lw - 1<<31, lw + 1<<31 + 1, lw + 1<<31 - 1, lw ^ 0x80000000, 0x7fffffff, 0x80000000, rng.Uint32(), rng.Uint32()} {
			for rep := 0; rep < 2; rep++ {
				b := append([]byte{}, lbw...)
				copy(b[:4*w], mon.Bytes(rng, 4*w))
				if rep == 1 {
					for i := 0; i < 4*w; i++ {
						b[i] = 0xff
					}
				}
				b[4*w], b[4*w+1], b[4*w+2], b[4*w+3] = byte(nv), byte(nv>>8), byte(nv>>16), byte(nv>>24)
				if w == 7 {
					b[31] &= 0x1f // stay in the range the word-wise comparison is used for
				}
				out = append(out, b)
			}
		}
	}
	// values just above 2^252 with a single low word differing from L's (succeed/fail inside the loop)
	for i := 0; i < 64; i++ {
		b := ref.LE32(L)
		pos := rng.IntN(16)
		b[pos] = byte(rng.IntN(256))
		out = append(out, b)
		b2 := ref.LE32(L)
		pos2 := 16 + rng.IntN(15)
		b2[pos2] = byte(rng.IntN(256))
		out = append(out, b2)
	}
	return out
}

func wideCatalogue(rng *rand.Rand) [][]byte {
	var out [][]byte
	le64 := func(v *big.Int) []byte {
		b := v.FillBytes(make([]byte, 64))
		for i, j := 0, 63; i < j; i, j = i+1, j-1 {
			b[i], b[j] = b[j], b[i]
		}
		return b
	}
	two512 := new(big.Int).Lsh(big.NewInt(1), 512)
	add := func(v *big.Int) {
		if v.Sign() >= 0 && v.Cmp(two512) < 0 {
			out = append(out, le64(v))
		}
	}
	add(big.NewInt(0))
	add(new(big.Int).Sub(two512, big.NewInt(1)))
	add(new(big.Int).Sub(gen.Two256, big.NewInt(1)))
	add(new(big.Int).Lsh(new(big.Int).Sub(gen.Two256, big.NewInt(1)), 256))
	add(new(big.Int).Mul(L, L))
	for k := int64(1); k < 8; k++ {
		for e := int64(-2); e <= 2; e++ {
			add(new(big.Int).Add(new(big.Int).Lsh(new(big.Int).Mul(L, big.NewInt(k)), 256), big.NewInt(e)))
			add(new(big.Int).Add(new(big.Int).Mul(new(big.Int).Mul(L, L), big.NewInt(k)), big.NewInt(e)))
		}
	}
	for _, bit := range []uint{251, 252, 253, 255, 256, 259, 260, 311, 312, 503, 504, 511} {
		add(new(big.Int).Lsh(big.NewInt(1), bit))
		add(new(big.Int).Sub(new(big.Int).Lsh(big.NewInt(1), bit), big.NewInt(1)))
	}
	for i := 0; i < 200; i++ {
		out = append(out, mon.Bytes(rng, 64))
	}
	// low part saturated (all ones up to bit k-1, k around the Montgomery radix of both backends: 2^260, 2^261) with
	// an arbitrary high part; and the mirror image (low part zero): the two halves of a fused reduction are at the
	// edge of their input bound (about 2^-10 of these, 2^-20 of uniform strings)
	for i := 0; i < 6000; i++ {
		k := uint(250 + rng.IntN(16))
		v := new(big.Int).SetBytes(mon.Bytes(rng, 64))
		low := new(big.Int).Sub(new(big.Int).Lsh(big.NewInt(1), k), big.NewInt(1))
		v.Rsh(v, k).Lsh(v, k)
		switch i % 4 {
		case 0, 1:
			v.Or(v, low)
		case 2:
			v.Or(v, new(big.Int).Sub(low, big.NewInt(int64(rng.IntN(1<<20)))))
		}
		add(v)
	}
	return out
}

// entropyCase: the entropy-consuming APIs of this property behind differently behaving readers (package entropy).
func entropyCase(r *mon.Run, c Case) {
	entropy.Check(r, "C05", r.Rng(c.Stream), func(sig, what string) { r.Violate(sig, what, c) })
}

// concurrentScalars: every scalar operation is a pure function of its operands. Eight goroutines run the list
// operations (the ones that need scratch space) on their own large batches at the same time; each result is checked
// against math/big. Scratch that is shared between calls (a pool handed back too early, a package-level buffer)
// shows as a wrong inverse.
func concurrentScalars(r *mon.Run, c Case) {
	const G, rounds, n = 8, 3, 3000
	var wg sync.WaitGroup
	var wrong int64
	var first atomic.Value
	for g := 0; g < G; g++ {
		wg.Add(1)
		go func(g int) {
			defer wg.Done()
			rng := r.Rng(fmt.Sprintf("%s/g%d", c.Stream, g))
			for round := 0; round < rounds; round++ {
				vals := make([]*big.Int, n)
				ss := make([]*scalar.Scalar, n)
				for i := range vals {
					v := gen.RandModL(rng)
					if v.Sign() == 0 {
						v.SetInt64(1)
					}
					vals[i], ss[i] = v, sc(v)
				}
				scalar.New().BatchInvert(ss)
				sum := scalar.New().Sum(ss[:100])
				for i := 0; i < n; i += 7 {
					want := new(big.Int).ModInverse(vals[i], L)
					if !bytes.Equal(bytesOf(ss[i]), ref.LE32(want)) {
						if atomic.AddInt64(&wrong, 1) == 1 {
							first.Store(fmt.Sprintf("goroutine %d round %d: BatchInvert element %d of %d is not the inverse of its input", g, round, i, n))
						}
					}
				}
				_ = sum
			}
		}(g)
	}
	wg.Wait()
	r.EvalN(G * rounds)
	r.HistN("concurrent/BatchInvert-batches", G*rounds)
	if wrong > 0 {
		r.Violate("scalar/BatchInvert/result-depends-on-concurrent-calls", fmt.Sprintf("%d wrong elements; first: %v", wrong, first.Load()), c)
	}
}

func runCase(r *mon.Run, c Case) {
	if c.Kind == "fluent" {
		fluentCheck(r)
		return
	}
	if c.Kind == "entropy" {
		entropyCase(r, c)
		return
	}
	if c.Kind == "concurrent" {
		concurrentScalars(r, c)
		return
	}
	x := &ctx{r: r, c: c, h: hist.New(r.Rng(c.Stream + "/receivers")), hv: hist.New(r.Rng(c.Stream + "/operands"))}
	defer func() { r.HistN("objects-with-a-past", x.h.Uses+x.hv.Uses) }()
	rng := r.Rng(c.Stream)
	switch c.Kind {
	case "pair":
		a, _ := new(big.Int).SetString(c.A, 16)
		b, _ := new(big.Int).SetString(c.B, 16)
		x.pair(a, b)
	case "catpairs":
		// all ordered pairs of a slice of the catalogue
		var idx int
		fmt.Sscanf(c.Stream, "c05/catpairs/%d", &idx)
		for j := range cat {
			x.pair(cat[idx], cat[j])
		}
		x.unary(cat[idx])
	case "carrypairs":
		// pairs whose product has all-ones low limbs (a*b = -1 mod 2^(w*k)) or all-zero low limbs, for both limb
		// widths: the Montgomery reduction's per-limb quotient and carry chain are at their extremes
		for i := 0; i < 200; i++ {
			w := []uint{52, 29, 64}[i%3]
			k := uint(1 + rng.IntN(5))
			m := new(big.Int).Lsh(big.NewInt(1), w*k)
			a := gen.Rand255(rng)
			a.SetBit(a, 0, 1)
			inv := new(big.Int).ModInverse(new(big.Int).Mod(a, m), m)
			low := new(big.Int).Sub(m, inv) // a*low = -1 mod m
			if i%5 == 0 {
				low = new(big.Int).Mod(new(big.Int).Mul(inv, L), m) // a*low = L mod m
			}
			hi := gen.Rand255(rng)
			b := new(big.Int).Or(new(big.Int).Lsh(new(big.Int).Rsh(hi, w*k), w*k), low)
			b.And(b, new(big.Int).Sub(gen.Two255, big.NewInt(1)))
			x.pair(a, b)
			x.pair(b, a)
			x.unary(b)
		}
	case "montpairs":
		// pairs whose HIDDEN intermediates are special: a multiplication is two (or more) Montgomery reductions, and
		// the value between them, a*b*R^j mod L for the radix R of either limb backend (2^260, 2^261) and small j, is
		// made to land on the values where a reduction's final conditional subtraction decides (L-e, 2^252+-e, kL+-e, 0,
		// small): b is solved from a*b = m*R^j (mod L). The operands and the product look ordinary.
		var ms []*big.Int
		p2 := func(n uint) *big.Int { return new(big.Int).Lsh(big.NewInt(1), n) }
		for e := int64(0); e <= 130; e++ {
			if e > 9 && e != 63 && e != 64 && e != 65 && e != 127 && e != 128 && e != 129 {
				continue
			}
			ev := big.NewInt(e)
			ms = append(ms, new(big.Int).Sub(L, ev), new(big.Int).Add(p2(252), ev), new(big.Int).Sub(p2(252), ev), ev)
		}
		ms = append(ms, new(big.Int).Sub(L, new(big.Int).Sub(L, p2(252))), new(big.Int).Rsh(new(big.Int).Add(L, p2(252)), 1)) // 2^252 and the middle of [2^252, L)
		for i := 0; i < 20; i++ {
			// PRNG points of the band [2^252, L)
			w := new(big.Int).Sub(L, p2(252))
			ms = append(ms, new(big.Int).Add(p2(252), new(big.Int).Mod(gen.Rand255(rng), w)))
		}
		for _, rbits := range []uint{260, 261, 256, 252} {
			R := modL(p2(rbits))
			Rinv := new(big.Int).ModInverse(R, L)
			for _, j := range []int{1, 2, -1, -2, 3} {
				f := big.NewInt(1)
				for t := 0; t < j; t++ {
					f = modL(new(big.Int).Mul(f, R))
				}
				for t := 0; t > j; t-- {
					f = modL(new(big.Int).Mul(f, Rinv))
				}
				for mi, m := range ms {
					var a *big.Int
					switch mi % 4 {
					case 0:
						a = p2(uint(1 + rng.IntN(254)))
					case 1:
						a = big.NewInt(int64(1 + rng.IntN(1000)))
					default:
						a = modL(gen.Rand255(rng))
					}
					if modL(a).Sign() == 0 {
						a = big.NewInt(3)
					}
					b := modL(new(big.Int).Mul(modL(new(big.Int).Mul(m, f)), new(big.Int).ModInverse(modL(a), L)))
					x.pair(a, b)
					x.pair(b, a)
					// a non-canonical representative of b (b + L < 2^255 always holds for b < L <  2^253)
					x.pair(a, new(big.Int).Add(b, L))
				}
			}
		}
	case "randpairs":
		for i := 0; i < 200; i++ {
			a, b := gen.RandScalar(rng, cat), gen.RandScalar(rng, cat)
			x.pair(a, b)
			x.unary(a)
		}
		// distinct values whose difference cancels under word-wise XOR / sum accumulators (Equal), and values that
		// look like zero to them
		mask := new(big.Int).Sub(gen.Two255, big.NewInt(1))
		for _, d := range gen.CancelPatterns(rng, 60) {
			a := gen.Rand255(rng)
			dv := ref.FromLE(d)
			x.pair(a, new(big.Int).Xor(a, dv))
			x.pair(a, new(big.Int).And(new(big.Int).Add(a, dv), mask))
			x.pair(dv, big.NewInt(0))
			x.unary(dv)
		}
	case "decode":
		for _, b := range decodeCatalogue(rng) {
			x.decoders(b)
		}
		for i := 0; i < 500; i++ {
			x.decoders(mon.Bytes(rng, 32))
		}
	case "wide":
		for _, w := range wideCatalogue(rng) {
			x.wide(w)
		}
	case "lists":
		for i := 0; i < 5; i++ {
			x.lists(rng)
		}
	}
}

func main() {
	r := mon.Start("C05", "operands from the catalogue {small, kL+e (k<=15,|e|<=3), 2^k+-e at limb seams, 2^255-19, 2^255-1, byte/nibble fills, all-half digit strings, L/2, sqrt L} (all ordered pairs) + reduced and unreduced PRNG values; decoders/predicates on 256-bit strings aimed at the top-nibble fast paths and each 64-bit word of L +-1; wide reduction on 512-bit extremes (2^512-1, kL*2^256+-e, L*L); Sum/Product/BatchInvert lists of length 0..64; non-trivial = operand tuple; distinct = SHA-256 of the operands")
	cat = gen.ScalarCatalogue()
	var c Case
	if r.LoadReplay(&c) {
		runCase(r, c)
		r.Finish()
		return
	}
	var cases []Case
	step := r.Pick(1, 1)
	for i := 0; i < len(cat); i += step {
		cases = append(cases, Case{Kind: "catpairs", Stream: fmt.Sprintf("c05/catpairs/%d", i)})
	}
	for i := 0; i < r.Pick(150, 6000); i++ {
		cases = append(cases, Case{Kind: "randpairs", Stream: fmt.Sprintf("c05/randpairs/%d", i)})
	}
	for i := 0; i < r.Pick(40, 1500); i++ {
		cases = append(cases, Case{Kind: "carrypairs", Stream: fmt.Sprintf("c05/carrypairs/%d", i)})
		if i < 3 {
			cases = append(cases, Case{Kind: "montpairs", Stream: fmt.Sprintf("c05/montpairs/%d", i)})
		}
	}
	for i := 0; i < r.Pick(12, 300); i++ {
		cases = append(cases, Case{Kind: "decode", Stream: fmt.Sprintf("c05/decode/%d", i)})
	}
	for i := 0; i < r.Pick(6, 200); i++ {
		cases = append(cases, Case{Kind: "wide", Stream: fmt.Sprintf("c05/wide/%d", i)})
	}
	for i := 0; i < r.Pick(20, 600); i++ {
		cases = append(cases, Case{Kind: "lists", Stream: fmt.Sprintf("c05/lists/%d", i)})
	}
	r.Observe("catalogue_size", len(cat))
	r.Parallel(len(cases), func(i int) { runCase(r, cases[i]) })
	r.Sample("case", cases[0])
	r.Sample("catalogue-value", fmt.Sprintf("%x", cat[len(cat)/2]))
	r.Sample("case", cases[len(cases)-1])
	for i := 0; i < r.Pick(3, 30); i++ {
		concurrentScalars(r, Case{Kind: "concurrent", Stream: fmt.Sprintf("c05/concurrent/%d", i)})
	}
	for i := 0; i < r.Pick(6, 60); i++ {
		entropyCase(r, Case{Kind: "entropy", Stream: fmt.Sprintf("c05/entropy/%d", i)})
	}
	fluentCheck(r)
	r.Finish()
}

// fluentCheck: every "sets the receiver and returns it" method of this property's types must return its receiver
// (package fluent).
func fluentCheck(r *mon.Run) {
	fluent.Check(r, Case{Kind: "fluent"}, (*scalar.Scalar)(nil))
}
