// C10: Edwards point decoding, encoding and subgroup predicates are exact.
// Monitor: every decode / unmarshal / encode / predicate / conversion call is shadowed by the
// big-integer curve reference; predicates are driven on points in many projective scalings.
package main

import (
	"bytes"
	"fmt"
	"math/big"
	"math/rand/v2"
	"os"

	"github.com/oasisprotocol/curve25519-voi/curve"
	"github.com/oasisprotocol/curve25519-voi/curve/scalar"
	"github.com/oasisprotocol/curve25519-voi/zzverif/fluent"
	"github.com/oasisprotocol/curve25519-voi/zzverif/gen"
	"github.com/oasisprotocol/curve25519-voi/zzverif/gx"
	"github.com/oasisprotocol/curve25519-voi/zzverif/hist"
	"github.com/oasisprotocol/curve25519-voi/zzverif/mon"
	"github.com/oasisprotocol/curve25519-voi/zzverif/ref"
)

type Case struct {
	Kind   string `json:"kind"`
	Stream string `json:"stream,omitempty"`
	In     string `json:"in,omitempty"`
	Lo     int    `json:"lo,omitempty"`
	Hi     int    `json:"hi,omitempty"`
}

type ctx struct {
	r *mon.Run
	c Case
	h *hist.Pool // decoder receivers with a past (package hist)
}

var bB = ref.Encode(ref.B)

func loadedB() *curve.EdwardsPoint { return curve.NewEdwardsPoint().Set(curve.ED25519_BASEPOINT_POINT) }

func enc(p *curve.EdwardsPoint) []byte {
	var c curve.CompressedEdwardsY
	c.SetEdwardsPoint(p)
	return c[:]
}

var identityEnc = func() []byte { b := make([]byte, 32); b[0] = 1; return b }()

// decodeString checks every decoding entry point on one 32-byte string.
func (x *ctx) decodeString(b []byte) {
	r := x.r
	d := ref.Decode(b)
	det := func() string { return fmt.Sprintf("in=%x", b) }
	r.Journal("c10 decode %x", b)
	r.Eval(b)
	r.Hist(fmt.Sprintf("decode/ok=%v/canonical=%v/smallorder=%v", d.OK, d.Canonical, d.SmallOrder))
	var cy curve.CompressedEdwardsY
	if _, err := cy.SetBytes(b); err != nil {
		r.Violate("edwards/CompressedEdwardsY.SetBytes/32-bytes", det(), x.c)
		return
	}
	if got := cy.IsCanonicalVartime(); got != d.Canonical {
		r.Violate(fmt.Sprintf("edwards/IsCanonicalVartime/want=%v", d.Canonical), fmt.Sprintf("got %v; %s", got, det()), x.c)
	}
	p := x.h.EVal(curve.ED25519_BASEPOINT_POINT) // a receiver with a past, currently holding B
	_, err := p.SetCompressedY(&cy)
	if (err == nil) != d.OK {
		r.Violate(fmt.Sprintf("edwards/SetCompressedY/accept/want=%v", d.OK), fmt.Sprintf("err=%v; %s", err, det()), x.c)
		return
	}
	q := x.h.EVal(curve.ED25519_BASEPOINT_POINT)
	err2 := q.UnmarshalBinary(b)
	if (err2 == nil) != d.OK {
		r.Violate(fmt.Sprintf("edwards/UnmarshalBinary/accept/want=%v", d.OK), fmt.Sprintf("err=%v; %s", err2, det()), x.c)
	}
	var cq curve.CompressedEdwardsY
	copy(cq[:], bB)
	err3 := cq.UnmarshalBinary(b)
	if (err3 == nil) != d.OK {
		r.Violate(fmt.Sprintf("edwards/CompressedEdwardsY.UnmarshalBinary/accept/want=%v", d.OK), fmt.Sprintf("err=%v; %s", err3, det()), x.c)
	}
	r.EvalN(3)
	if !d.OK {
		// failure leaves the unmarshalling receivers as the identity
		if !bytes.Equal(enc(q), identityEnc) || !q.IsIdentity() {
			r.Violate("edwards/UnmarshalBinary/receiver-after-failure", fmt.Sprintf("receiver encodes to %x; %s", enc(q), det()), x.c)
		}
		if !bytes.Equal(cq[:], identityEnc) {
			r.Violate("edwards/CompressedEdwardsY.UnmarshalBinary/receiver-after-failure", fmt.Sprintf("receiver %x; %s", cq[:], det()), x.c)
		}
		return
	}
	want := ref.Encode(d.Pt)
	for name, pt := range map[string]*curve.EdwardsPoint{"SetCompressedY": p, "UnmarshalBinary": q} {
		if got := enc(pt); !bytes.Equal(got, want) {
			r.Violate("edwards/"+name+"/point", fmt.Sprintf("decoded point encodes to %x, reference %x; %s", got, want, det()), x.c)
		}
	}
	mb, _ := p.MarshalBinary()
	if !bytes.Equal(mb, want) {
		r.Violate("edwards/MarshalBinary", fmt.Sprintf("got %x want %x; %s", mb, want, det()), x.c)
	}
	if !bytes.Equal(cq[:], b) {
		r.Violate("edwards/CompressedEdwardsY.UnmarshalBinary/bytes", fmt.Sprintf("receiver %x; %s", cq[:], det()), x.c)
	}
	// encode-after-decode is the identity on canonical encodings, and always canonical
	if d.Canonical && !bytes.Equal(mb, b) {
		r.Violate("edwards/encode-after-decode", fmt.Sprintf("got %x; %s", mb, det()), x.c)
	}
	var cm curve.CompressedEdwardsY
	copy(cm[:], mb)
	if !cm.IsCanonicalVartime() || !ref.Decode(mb).Canonical {
		r.Violate("edwards/encoding-not-canonical", fmt.Sprintf("encoding %x; %s", mb, det()), x.c)
	}
	if (b[3]^b[17])&7 == 0 { // one string in eight (the reference's scalar multiplications dominate the cost)
		x.usable("SetCompressedY", p, d.Pt, det)
		x.usable("UnmarshalBinary", q, d.Pt, det)
	} else if msg := gx.Coherent(p); msg != "" {
		r.Violate("edwards/SetCompressedY/result-incoherent", msg+"; "+det(), x.c)
	}
	x.owned("EdwardsPoint.MarshalBinary", func() []byte { o, _ := p.MarshalBinary(); return o }, det)
	x.owned("CompressedEdwardsY.MarshalBinary", func() []byte { o, _ := cq.MarshalBinary(); return o }, det)
	// marshal and unmarshal through one and the same object
	if o, _ := cq.MarshalBinary(); cq.UnmarshalBinary(o) != nil || !bytes.Equal(cq[:], b) {
		r.Violate("edwards/CompressedEdwardsY/unmarshal-own-marshalling", fmt.Sprintf("object holds %x; %s", cq[:], det()), x.c)
	}
	if o, _ := q.MarshalBinary(); q.UnmarshalBinary(o) != nil || !bytes.Equal(enc(q), want) {
		r.Violate("edwards/EdwardsPoint/unmarshal-own-marshalling", fmt.Sprintf("object encodes to %x; %s", enc(q), det()), x.c)
	}
	x.predicates(p, d.Pt, nil, det)
}

// usable: a point object that a decoder or conversion produced must be a complete point - not merely one that encodes
// correctly. It is used as an operand of the group law (which reads all four extended coordinates) and of the order
// tests, and the in-package observer checks the coordinate invariants directly.
func (x *ctx) usable(how string, p *curve.EdwardsPoint, want ref.Pt, det func() string) {
	r := x.r
	r.EvalN(4)
	r.Hist("usable/" + how)
	B := curve.ED25519_BASEPOINT_POINT
	if got, w := enc(curve.NewEdwardsPoint().Add(p, B)), ref.Encode(want.Add(ref.B)); !bytes.Equal(got, w) {
		r.Violate("edwards/"+how+"/result-unusable/Add", fmt.Sprintf("P+B = %x, want %x; %s", got, w, det()), x.c)
	}
	if got, w := enc(curve.NewEdwardsPoint().Sub(B, p)), ref.Encode(ref.B.Add(want.Neg())); !bytes.Equal(got, w) {
		r.Violate("edwards/"+how+"/result-unusable/Sub", fmt.Sprintf("B-P = %x, want %x; %s", got, w, det()), x.c)
	}
	if got, w := enc(curve.NewEdwardsPoint().Mul(p, three)), ref.Encode(want.Mul(big.NewInt(3))); !bytes.Equal(got, w) {
		r.Violate("edwards/"+how+"/result-unusable/Mul", fmt.Sprintf("[3]P = %x, want %x; %s", got, w, det()), x.c)
	}
	if got, w := p.IsTorsionFree(), want.Mul(ref.L).IsIdentity(); got != w {
		r.Violate("edwards/"+how+"/result-unusable/IsTorsionFree", fmt.Sprintf("got %v want %v; %s", got, w, det()), x.c)
	}
	if msg := gx.Coherent(p); msg != "" {
		r.Violate("edwards/"+how+"/result-incoherent", msg+"; "+det(), x.c)
	}
}

var three = scalar.NewFromUint64(3)

// owned: a byte slice handed out by the library belongs to the caller; overwriting it must not reach the object.
func (x *ctx) owned(what string, produce func() []byte, det func() string) {
	b := produce()
	orig := append([]byte{}, b...)
	for i := range b {
		b[i] ^= 0xa5
	}
	x.r.Eval(nil)
	if again := produce(); !bytes.Equal(again, orig) {
		x.r.Violate("edwards/"+what+"/returned-slice-aliases-the-object", fmt.Sprintf("after the caller overwrote the returned bytes the object encodes to %x, before %x; %s", again, orig, det()), x.c)
	}
}

// predicates checks the mathematical predicates on lp (a library point equal to want) in several projective scalings.
func (x *ctx) predicates(lp *curve.EdwardsPoint, want ref.Pt, rng *rand.Rand, det func() string) {
	r := x.r
	small := want.Mul(big.NewInt(8)).IsIdentity()
	tfree := want.Mul(ref.L).IsIdentity()
	id := want.IsIdentity()
	kinds := []int{0}
	if rng != nil && gx.Available {
		kinds = []int{0, 1, 2, 3, 4, 4, 4, 4}
	}
	for _, k := range kinds {
		p := gx.RescaleKind(lp, rng, k)
		r.EvalN(5)
		r.Hist(fmt.Sprintf("predicates/scaling%d/id=%v/small=%v/tfree=%v", k, id, small, tfree))
		if got := p.IsIdentity(); got != id {
			r.Violate(fmt.Sprintf("edwards/IsIdentity/want=%v", id), fmt.Sprintf("got %v scaling=%d; %s", got, k, det()), x.c)
		}
		if got := p.IsSmallOrder(); got != small {
			r.Violate(fmt.Sprintf("edwards/IsSmallOrder/want=%v", small), fmt.Sprintf("got %v scaling=%d; %s", got, k, det()), x.c)
		}
		if got := p.IsTorsionFree(); got != tfree {
			r.Violate(fmt.Sprintf("edwards/IsTorsionFree/want=%v", tfree), fmt.Sprintf("got %v scaling=%d; %s", got, k, det()), x.c)
		}
		if got := enc(p); !bytes.Equal(got, ref.Encode(want)) {
			r.Violate("edwards/SetEdwardsPoint(encode)/representation-dependent", fmt.Sprintf("got %x want %x scaling=%d; %s", got, ref.Encode(want), k, det()), x.c)
		}
		if p.Equal(lp) != 1 || lp.Equal(p) != 1 {
			r.Violate("edwards/Equal/same-point-other-representation", fmt.Sprintf("scaling=%d; %s", k, det()), x.c)
		}
		// Montgomery image
		var m curve.MontgomeryPoint
		m.SetEdwards(p)
		wu := montU(want)
		if !bytes.Equal(m[:], wu) {
			r.Violate("montgomery/SetEdwards", fmt.Sprintf("got %x want %x scaling=%d; %s", m[:], wu, k, det()), x.c)
		}
		// round trip SetMontgomery(SetEdwards(P), sign(P)) == P for P != O (and u != -1 never occurs for curve points)
		if !id {
			back, err := curve.NewEdwardsPoint().SetMontgomery(&m, uint8(want.X.Bit(0)))
			if err != nil || !bytes.Equal(enc(back), ref.Encode(want)) {
				r.Violate("montgomery/round-trip", fmt.Sprintf("err=%v scaling=%d; %s", err, k, det()), x.c)
			} else if k == 0 {
				x.usable("SetMontgomery(round trip)", back, want, det)
			}
		}
		// every call above only READS p (predicates, encoding, comparison, conversion): the object - all four extended
		// coordinates of it, in whatever scaling it was - must still be the same point when it is used as an operand next
		if k%2 == 1 || k == 4 || !gx.Available {
			pb, _ := p.MarshalBinary()
			_ = pb
			var c curve.CompressedEdwardsY
			c.SetEdwardsPoint(p)
			x.usable(fmt.Sprintf("read-only calls (scaling %d)", k), p, want, det)
		}
	}
}

func montU(p ref.Pt) []byte {
	one := big.NewInt(1)
	den := new(big.Int).Sub(one, p.Y)
	den.Mod(den, ref.P)
	if den.Sign() == 0 {
		return make([]byte, 32)
	}
	u := new(big.Int).Add(one, p.Y)
	u.Mul(u, new(big.Int).ModInverse(den, ref.P))
	return ref.LE32(u.Mod(u, ref.P))
}

// two32 = 2^32 where int has 64 bits (0 on 32-bit targets; computed at run time so that it compiles there)
var two32 = func() int { one := 1; return one << 32 }()

// hugeLengths: lengths that differ from 32 only above bit 31 (2^32 + 32, 2^32: a valid encoding followed by untouched
// virtual memory). A length check done in 32 bits takes them for valid. Runs alone, after the parallel phase, on
// 64-bit targets.
func hugeLengths(r *mon.Run) {
	if two32 == 0 || os.Getenv("VERIF_NO_HUGE") != "" || (r.Config() != "avx2" && r.Config() != "purego" && r.Replay == "") {
		return // the length checks are shared code: two configurations are enough, and 4 GiB of address space each is not free
	}
	c := Case{Kind: "huge-lengths"}
	huge := make([]byte, two32+64)
	copy(huge, bB)
	for _, l := range []int{two32 + 32, two32} {
		b := huge[:l]
		det := func() string { return fmt.Sprintf("len=2^32+%d (valid encoding followed by zeros)", l-two32) }
		r.Eval([]byte(det()))
		r.Hist("lengths-above-2^32")
		p := curve.NewEdwardsPoint().Set(curve.ED25519_BASEPOINT_POINT)
		var err error
		if pan, msg := mon.Try(func() { err = p.UnmarshalBinary(b) }); pan || err == nil || !p.IsIdentity() {
			r.Violate("edwards/EdwardsPoint.UnmarshalBinary/wrong-length-accepted", fmt.Sprintf("panic=%v %s err=%v receiver identity=%v; %s", pan, msg, err, p.IsIdentity(), det()), c)
		}
		var cy curve.CompressedEdwardsY
		copy(cy[:], bB)
		if pan, _ := mon.Try(func() { err = cy.UnmarshalBinary(b) }); pan || err == nil || !bytes.Equal(cy[:], identityEnc) {
			r.Violate("edwards/CompressedEdwardsY.UnmarshalBinary/wrong-length-accepted", det(), c)
		}
		var c2 curve.CompressedEdwardsY
		if res, err := c2.SetBytes(b); err == nil || res != nil {
			r.Violate("edwards/CompressedEdwardsY.SetBytes/wrong-length-accepted", det(), c)
		}
		if res, err := curve.NewCompressedEdwardsYFromBytes(b); err == nil || res != nil {
			r.Violate("edwards/NewCompressedEdwardsYFromBytes/wrong-length-accepted", det(), c)
		}
		var m curve.MontgomeryPoint
		if res, err := m.SetBytes(b); err == nil || res != nil {
			r.Violate("montgomery/SetBytes/wrong-length-accepted", det(), c)
		}
	}
}

func (x *ctx) lengths(rng *rand.Rand) {
	r := x.r
	ls := []int{}
	for l := 0; l <= 70; l++ {
		ls = append(ls, l)
	}
	ls = append(ls, 255, 256, 288, 1<<16+32)
	for _, l := range ls {
		if l == 32 {
			continue
		}
		for _, fill := range []int{0, 1, 2} {
			var b []byte
			{
				switch fill {
				case 0:
					b = make([]byte, l)
				case 1:
					b = bytes.Repeat([]byte{0xff}, l)
				default: // valid prefix + junk
					b = make([]byte, l)
					copy(b, bB)
					if l > 32 {
						copy(b[32:], mon.Bytes(rng, l-32))
					}
				}
			}
			det := func() string { return fmt.Sprintf("len=%d fill=%d", l, fill) }
			r.Eval([]byte(det()))
			r.Hist("lengths")
			p := x.h.EVal(curve.ED25519_BASEPOINT_POINT)
			var err error
			if pan, msg := mon.Try(func() { err = p.UnmarshalBinary(b) }); pan {
				r.Violate("edwards/UnmarshalBinary/panic", msg+"; "+det(), x.c)
				continue
			}
			if err == nil {
				r.Violate("edwards/EdwardsPoint.UnmarshalBinary/wrong-length-accepted", "nil error; "+det(), x.c)
			}
			if !p.IsIdentity() {
				r.Violate("edwards/EdwardsPoint.UnmarshalBinary/receiver-after-length-error", det(), x.c)
			}
			var c curve.CompressedEdwardsY
			copy(c[:], bB)
			if pan, msg := mon.Try(func() { err = c.UnmarshalBinary(b) }); pan {
				r.Violate("edwards/CompressedEdwardsY.UnmarshalBinary/panic", msg+"; "+det(), x.c)
				continue
			}
			if err == nil {
				r.Violate("edwards/CompressedEdwardsY.UnmarshalBinary/wrong-length-accepted", "nil error; "+det(), x.c)
			}
			if !bytes.Equal(c[:], identityEnc) {
				r.Violate("edwards/CompressedEdwardsY.UnmarshalBinary/receiver-after-length-error", det(), x.c)
			}
			var c2 curve.CompressedEdwardsY
			if res, err := c2.SetBytes(b); err == nil || res != nil {
				r.Violate("edwards/CompressedEdwardsY.SetBytes/wrong-length-accepted", det(), x.c)
			}
			if res, err := curve.NewCompressedEdwardsYFromBytes(b); err == nil || res != nil {
				r.Violate("edwards/NewCompressedEdwardsYFromBytes/wrong-length-accepted", det(), x.c)
			}
			var m curve.MontgomeryPoint
			if res, err := m.SetBytes(b); err == nil || res != nil {
				r.Violate("montgomery/SetBytes/wrong-length-accepted", det(), x.c)
			}
		}
	}
}

func (x *ctx) points(rng *rand.Rand) {
	pool := gen.PointPool(rng, 10)
	for i, P := range pool {
		det := func() string { return fmt.Sprintf("P=%x(%s)", P.Enc, P.Name) }
		x.r.Eval(append([]byte("pt"), P.Enc...))
		x.predicates(P.Lib, P.Ref, rng, det)
		// Equal on pairs: P vs P+T_j and vs others
		for j, Q := range pool {
			if (i+j)%3 != 0 {
				continue
			}
			lq := gx.Rescale(Q.Lib, rng)
			lp := gx.Rescale(P.Lib, rng)
			x.r.Eval(nil)
			if got := lp.Equal(lq) == 1; got != P.Ref.Equal(Q.Ref) {
				x.r.Violate(fmt.Sprintf("edwards/Equal/want=%v", P.Ref.Equal(Q.Ref)), fmt.Sprintf("got %v; %s Q=%x", got, det(), Q.Enc), x.c)
			}
		}
		for j := 1; j < 8; j++ {
			q := gen.LibPoint(ref.Encode(P.Ref.Add(gen.Tors[j])))
			x.r.Eval(nil)
			if gx.Rescale(P.Lib, rng).Equal(gx.Rescale(q, rng)) == 1 {
				x.r.Violate("edwards/Equal/P-vs-P+T", fmt.Sprintf("P equals P+T_%d; %s", j, det()), x.c)
			}
		}
		// compressed equality is byte equality
		var c1, c2 curve.CompressedEdwardsY
		c1.SetEdwardsPoint(P.Lib)
		c2.SetEdwardsPoint(gx.Rescale(P.Lib, rng))
		if c1.Equal(&c2) != 1 {
			x.r.Violate("edwards/CompressedEdwardsY.Equal", det(), x.c)
		}
	}
}

// montgomery: SetMontgomery(u, sign) for structured and random u.
func (x *ctx) montgomery(rng *rand.Rand) {
	r := x.r
	var us [][]byte
	add := func(v *big.Int) {
		v = new(big.Int).Mod(v, new(big.Int).Lsh(big.NewInt(1), 255))
		us = append(us, ref.LE32(v))
		us = append(us, ref.LE32(new(big.Int).SetBit(new(big.Int).Set(v), 255, 1)))
	}
	for _, v := range []int64{0, 1, 2, 3, 9, 486662} {
		add(big.NewInt(v))
		add(new(big.Int).Sub(ref.P, big.NewInt(v)))
		add(new(big.Int).Add(ref.P, big.NewInt(v)))
	}
	for e := int64(-3); e < 19; e++ {
		add(new(big.Int).Add(ref.P, big.NewInt(e)))
	}
	for _, t := range gen.Tors {
		us = append(us, montU(t))
	}
	for i := 0; i < 60; i++ {
		us = append(us, mon.Bytes(rng, 32))
	}
	// u that differ from -1 (the one u SetMontgomery must refuse) and from each other only by word patterns that cancel
	// under checksum-style comparisons
	pm1 := ref.LE32(new(big.Int).Sub(ref.P, big.NewInt(1)))
	for _, d := range gen.CancelPatterns(rng, 80) {
		us = append(us, gen.XorBytes(pm1, d), gen.XorBytes(us[rng.IntN(len(us))], d))
	}
	for _, ub := range us {
		for sign := uint8(0); sign < 2; sign++ {
			u := ref.FromLE(ub)
			u.And(u, ref.Mask255)
			u.Mod(u, ref.P)
			det := func() string { return fmt.Sprintf("u=%x sign=%d", ub, sign) }
			r.Eval(append([]byte{sign}, ub...))
			var m curve.MontgomeryPoint
			copy(m[:], ub)
			var p *curve.EdwardsPoint
			var err error
			if pan, msg := mon.Try(func() { p, err = x.h.E().SetMontgomery(&m, sign) }); pan {
				r.Violate("montgomery/SetMontgomery/panic", msg+"; "+det(), x.c)
				continue
			}
			// reference
			var want *ref.Pt
			up1 := new(big.Int).Add(u, big.NewInt(1))
			up1.Mod(up1, ref.P)
			if up1.Sign() != 0 {
				y := new(big.Int).Sub(u, big.NewInt(1))
				y.Mul(y, new(big.Int).ModInverse(up1, ref.P))
				y.Mod(y, ref.P)
				yb := ref.LE32(y)
				yb[31] |= sign << 7
				if d := ref.Decode(yb); d.OK {
					want = &d.Pt
				}
			}
			r.Hist(fmt.Sprintf("montgomery/on-curve=%v/u=-1:%v", want != nil, up1.Sign() == 0))
			if (err == nil) != (want != nil) {
				r.Violate(fmt.Sprintf("montgomery/SetMontgomery/accept/want=%v", want != nil), fmt.Sprintf("err=%v; %s", err, det()), x.c)
				continue
			}
			if want != nil && !bytes.Equal(enc(p), ref.Encode(*want)) {
				r.Violate("montgomery/SetMontgomery/point", fmt.Sprintf("got %x want %x; %s", enc(p), ref.Encode(*want), det()), x.c)
			}
			if want == nil && p != nil {
				r.Violate("montgomery/SetMontgomery/result-on-failure", det(), x.c)
			}
			if want != nil && err == nil {
				x.usable(fmt.Sprintf("SetMontgomery(sign=%d)", sign), p, *want, det)
			}
			// MontgomeryPoint.Equal compares values mod p ignoring bit 255
			var m2 curve.MontgomeryPoint
			copy(m2[:], ref.LE32(u))
			if m.Equal(&m2) != 1 {
				r.Violate("montgomery/Equal", det(), x.c)
			}
			for _, d := range gen.CancelPatterns(rng, 3) {
				var m3 curve.MontgomeryPoint
				copy(m3[:], gen.XorBytes(ub, d))
				u3 := ref.FromLE(m3[:])
				u3.And(u3, ref.Mask255)
				u3.Mod(u3, ref.P)
				var c1, c3 curve.CompressedEdwardsY
				copy(c1[:], ub)
				copy(c3[:], m3[:])
				r.EvalN(2)
				if (m.Equal(&m3) == 1) != (u.Cmp(u3) == 0) {
					r.Violate("montgomery/Equal/cancelling-difference", fmt.Sprintf("Equal(%x, %x) = %d; %s", ub, m3[:], m.Equal(&m3), det()), x.c)
				}
				if (c1.Equal(&c3) == 1) != bytes.Equal(c1[:], c3[:]) {
					r.Violate("edwards/CompressedEdwardsY.Equal/cancelling-difference", fmt.Sprintf("Equal(%x, %x) = %d", c1[:], c3[:], c1.Equal(&c3)), x.c)
				}
			}
		}
	}
}

func yString(y *big.Int, sign uint) []byte {
	v := new(big.Int).Set(y)
	v.SetBit(v, 255, sign)
	return ref.LE32(v)
}

func runCase(r *mon.Run, c Case) {
	if c.Kind == "fluent" {
		fluentCheck(r)
		return
	}
	x := &ctx{r: r, c: c, h: hist.New(r.Rng(c.Stream + "/receivers"))}
	defer func() { r.HistN("receivers-with-a-past", x.h.Uses) }()
	rng := r.Rng(c.Stream)
	switch c.Kind {
	case "string":
		x.decodeString(mon.UnHex(c.In))
	case "yrange":
		// y in [Lo,Hi) and y in [2^255-Hi, 2^255-Lo), both sign bits
		for y := c.Lo; y < c.Hi; y++ {
			for sign := uint(0); sign < 2; sign++ {
				x.decodeString(yString(big.NewInt(int64(y)), sign))
				x.decodeString(yString(new(big.Int).Sub(gen.Two255, big.NewInt(int64(y+1))), sign))
			}
		}
	case "special":
		for _, b := range gen.SpecialEncodings() {
			x.decodeString(b)
		}
		// byte-position boundaries of the canonical test: p-1-d*256^j, 2^255-1-d*256^j
		for j := uint(0); j < 32; j++ {
			for _, d := range []int64{1, 18, 19, 20, 255} {
				off := new(big.Int).Lsh(big.NewInt(d), 8*j)
				for _, base := range []*big.Int{new(big.Int).Sub(ref.P, big.NewInt(1)), new(big.Int).Sub(gen.Two255, big.NewInt(1)), ref.P} {
					v := new(big.Int).Sub(base, off)
					if v.Sign() >= 0 {
						for sign := uint(0); sign < 2; sign++ {
							x.decodeString(yString(v, sign))
						}
					}
				}
			}
		}
	case "random":
		for i := 0; i < 300; i++ {
			x.decodeString(mon.Bytes(rng, 32))
		}
	case "structured-x":
		// points whose x-coordinate (not only whose encoding) has structure: low limbs saturated just below the carry
		// of +19, words that cancel, p-1-j, tiny values. x is chosen, y solved for from the curve equation; the string
		// (y, sign of x) is decoded and the result used as a point (the sign of x is only visible to a reference for x)
		var xs []*big.Int
		for _, k := range []uint{26, 51, 77, 102, 128, 153, 179, 204, 230} {
			for j := int64(0); j < 19; j++ {
				for rep := 0; rep < 1; rep++ {
					t := new(big.Int).SetBytes(mon.Bytes(rng, 32))
					v := new(big.Int).Lsh(t, k)
					v.Add(v, new(big.Int).Lsh(big.NewInt(1), k))
					v.Add(v, big.NewInt(j-19))
					xs = append(xs, v.Mod(v, ref.P))
				}
			}
		}
		for _, d := range gen.CancelPatterns(rng, 40) {
			xs = append(xs, new(big.Int).Mod(ref.FromLE(d), ref.P))
		}
		for j := int64(1); j < 40; j++ {
			xs = append(xs, big.NewInt(j), new(big.Int).Sub(ref.P, big.NewInt(j)))
		}
		found := 0
		for _, xv := range xs {
			// y^2 = (1 + x^2) / (1 - d x^2)
			xx := new(big.Int).Mul(xv, xv)
			xx.Mod(xx, ref.P)
			num := new(big.Int).Add(big.NewInt(1), xx)
			den := new(big.Int).Sub(big.NewInt(1), new(big.Int).Mul(ref.D, xx))
			den.Mod(den, ref.P)
			ok, y := ref.SqrtRatioM1(new(big.Int).Mod(num, ref.P), den)
			if !ok {
				continue
			}
			for _, yv := range []*big.Int{y, new(big.Int).Sub(ref.P, y)} {
				yv = new(big.Int).Mod(yv, ref.P)
				b := yString(yv, xv.Bit(0))
				d := ref.Decode(b)
				if !d.OK || d.Pt.X.Cmp(xv) != 0 {
					mon.Fatalf("structured-x construction: reference decodes %x to another x", b)
				}
				found++
				x.decodeString(b)
				det := func() string { return fmt.Sprintf("in=%x (x=%x)", b, xv) }
				var cy curve.CompressedEdwardsY
				copy(cy[:], b)
				if p, err := curve.NewEdwardsPoint().SetCompressedY(&cy); err == nil {
					x.usable("SetCompressedY(structured x)", p, d.Pt, det)
					// the negative of the point encodes with the other sign bit
					nb := append([]byte{}, b...)
					nb[31] ^= 0x80
					if got := enc(curve.NewEdwardsPoint().Neg(p)); xv.Sign() != 0 && !bytes.Equal(got, nb) {
						r.Violate("edwards/encode/sign-of-x", fmt.Sprintf("-P encodes to %x, want %x; %s", got, nb, det()), x.c)
					}
				}
			}
		}
		r.HistN("structured-x/points", int64(found))
		if found < 50 {
			r.Inconclusive("structured-x: too few constructible points")
		}
	case "lengths":
		x.lengths(rng)
	case "huge-lengths":
		hugeLengths(r)
	case "points":
		x.points(rng)
	case "montgomery":
		x.montgomery(rng)
	}
}

func main() {
	r := mon.Start("C10", "strings: y in [0,N) and [2^255-N,2^255) x both sign bits (N = 1024 quick, 65536 thorough: exhaustive over that window), every non-canonical/torsion encoding, p-1-d*256^j / 2^255-1-d*256^j byte-position boundaries, PRNG strings; lengths 0..70 with receivers pre-loaded with B; predicates (IsIdentity/IsSmallOrder/IsTorsionFree/Equal/encode/SetEdwards) on {O, T_j, [k]B, [k]B+T_j, decoded} each in up to 8 projective scalings (graft); SetMontgomery on structured u (0,+-1,p+e, bit-255 forms, torsion images, twist) x both signs; non-trivial = a 32-byte string or a point/scaling tuple; distinct = SHA-256 of the input")
	r.Observe("graft", gx.Available)
	var c Case
	if r.LoadReplay(&c) {
		runCase(r, c)
		r.Finish()
		return
	}
	var cases []Case
	n := r.Pick(1024, 65536)
	for lo := 0; lo < n; lo += 32 {
		cases = append(cases, Case{Kind: "yrange", Lo: lo, Hi: lo + 32})
	}
	cases = append(cases, Case{Kind: "special"}, Case{Kind: "lengths", Stream: "c10/lengths"})
	for i := 0; i < r.Pick(2, 20); i++ {
		cases = append(cases, Case{Kind: "structured-x", Stream: fmt.Sprintf("c10/structured-x/%d", i)})
	}
	for i := 0; i < r.Pick(30, 600); i++ {
		cases = append(cases, Case{Kind: "random", Stream: fmt.Sprintf("c10/random/%d", i)})
	}
	for i := 0; i < r.Pick(12, 200); i++ {
		cases = append(cases, Case{Kind: "points", Stream: fmt.Sprintf("c10/points/%d", i)})
	}
	for i := 0; i < r.Pick(8, 200); i++ {
		cases = append(cases, Case{Kind: "montgomery", Stream: fmt.Sprintf("c10/montgomery/%d", i)})
	}
	r.Parallel(len(cases), func(i int) { runCase(r, cases[i]) })
	r.Sample("case", cases[0])
	r.Sample("case", cases[len(cases)-1])
	r.Sample("string", mon.Hex(gen.SpecialEncodings()[3]))
	hugeLengths(r)
	fluentCheck(r)
	r.Finish()
}

// fluentCheck: every "sets the receiver and returns it" method of this property's types must return its receiver
// (package fluent).
func fluentCheck(r *mon.Run) {
	fluent.Check(r, Case{Kind: "fluent"}, (*curve.CompressedEdwardsY)(nil), (*curve.MontgomeryPoint)(nil), (*curve.EdwardsPoint)(nil))
}
