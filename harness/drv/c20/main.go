// C20: precomputed constants and tables equal their definitions in every backend.
// Monitor: invariant check of live data at a quiescent point, exhaustive over the finite
// space: every constant and table entry, as it sits in memory after init, is read limb-wise
// through the grafts and compared with an independent big-integer computation.
package main

import (
	"github.com/oasisprotocol/curve25519-voi/zzverif/mon"
	"os"
	"strconv"
)

func main() {
	if v := os.Getenv("VERIF_C20_FIRST"); v != "" {
		idx, _ := strconv.Atoi(v)
		firstChild(idx)
		return
	}
	r := mon.Start("C20", "exhaustive enumeration of the embedded constants and tables of this build: 32x8 packed fixed-base entries (and the live copy), two 64-entry odd-multiple tables, B*2^128, on AVX2 the three start-up generated vector tables, base points, EIGHT_TORSION by value, group order and Montgomery-form scalar constants, lattice constants, curve/Ristretto/Elligator/field constants; every value decoded from raw limbs and compared with a big-integer definition; non-trivial = one constant or table entry; distinct = its name")
	if r.Replay != "" {
		// a constant mismatch is replayed by re-running the whole (cheap) enumeration
	}
	run(r)
	firstUse(r)
	// use every accessor that hands out a point and scribble over what it returned: the constants must be unaffected
	// (an accessor that returns the shared object instead of a copy lets callers rewrite a constant)
	abuse()
	suffix = "/after-accessor-use"
	run(r)
	// every exported constant as an input operand of every family of operations, then the enumeration again
	useAsOperands()
	if damagedBy != "" {
		r.Violate("constant/modified-by-use-as-operand", "an exported constant object changed when it was passed as an input operand: "+damagedBy, Entry{"use-as-operand: " + damagedBy})
		suffix = "/after-use-as-operands"
		apiLevel(r)
		r.Finish()
		return
	}
	suffix = "/after-use-as-operands"
	run(r)
	// every constant-consulting routine on its mathematically exceptional inputs, then the enumeration again
	nExc := exceptionalCases()
	r.Observe("exceptional-case-operations", nExc)
	if exceptionalDamagedBy != "" {
		r.Violate("constant/modified-by-exceptional-case", "a shared constant changed while the library handled an exceptional input: "+exceptionalDamagedBy, Entry{"exceptional case: " + exceptionalDamagedBy})
	}
	suffix = "/after-exceptional-cases"
	run(r)
	// the tables while other goroutines use them, then the enumeration a last time
	inUse(r)
	suffix = "/after-concurrent-use"
	run(r)
	r.Finish()
}
