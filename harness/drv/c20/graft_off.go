//go:build !verif

package main

import "github.com/oasisprotocol/curve25519-voi/zzverif/mon"

func run(r *mon.Run) {
	r.HookMissing("constant grafts (curve, scalar, lattice, elligator, field)")
	apiLevel(r)
}

func tableSnapshot() interface{}        { return nil }
func tableDiff(snap interface{}) string { return "" }
