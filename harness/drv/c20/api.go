package main

import (
	"bytes"
	"fmt"
	"math/big"

	"github.com/oasisprotocol/curve25519-voi/curve"
	"github.com/oasisprotocol/curve25519-voi/curve/scalar"
	"github.com/oasisprotocol/curve25519-voi/primitives/x25519"
	"github.com/oasisprotocol/curve25519-voi/zzverif/gen"
	"github.com/oasisprotocol/curve25519-voi/zzverif/mon"
	"github.com/oasisprotocol/curve25519-voi/zzverif/ref"
)

type Entry struct {
	Name string `json:"name"`
}

var suffix = ""

func item(r *mon.Run, name string, ok bool, detail string) {
	name += suffix
	r.Eval([]byte(name))
	if !ok {
		r.Violate("constant/"+name, detail, Entry{name})
	}
}

// abuse calls the accessors of the precomputed objects and overwrites whatever they return.
func abuse() {
	p := curve.ED25519_BASEPOINT_TABLE.Basepoint()
	p.Neg(p)
	p.Add(p, p)
	p.Identity()
	rp := curve.RISTRETTO_BASEPOINT_TABLE.Basepoint()
	rp.Neg(rp)
	rp.Identity()
	t := curve.NewEdwardsBasepointTable(curve.ED25519_BASEPOINT_POINT).Basepoint()
	t.Identity()
	x := curve.NewExpandedEdwardsPoint(curve.ED25519_BASEPOINT_POINT).Point()
	x.Neg(x)
	rx := curve.NewExpandedRistrettoPoint(curve.RISTRETTO_BASEPOINT_POINT).Point()
	rx.Neg(rx)
	one := scalar.One()
	one.Add(one, one)
	// results computed from the constants must not alias them either
	q := curve.NewEdwardsPoint().MulBasepoint(curve.ED25519_BASEPOINT_TABLE, scalar.One())
	q.Neg(q)
	s := curve.NewEdwardsPoint().Sum([]*curve.EdwardsPoint{curve.ED25519_BASEPOINT_POINT})
	s.Neg(s)
	u := curve.NewEdwardsPoint().Set(curve.EIGHT_TORSION[1])
	u.Add(u, u)
}

func encPt(p *curve.EdwardsPoint) []byte { b, _ := p.MarshalBinary(); return b }

// apiLevel: constants reachable through the exported API.
func apiLevel(r *mon.Run) {
	item(r, "ED25519_BASEPOINT_COMPRESSED", bytes.Equal(curve.ED25519_BASEPOINT_COMPRESSED[:], ref.Encode(ref.B)), "")
	item(r, "ED25519_BASEPOINT_POINT", bytes.Equal(encPt(curve.ED25519_BASEPOINT_POINT), ref.Encode(ref.B)), "")
	nine := make([]byte, 32)
	nine[0] = 9
	item(r, "X25519_BASEPOINT", bytes.Equal(curve.X25519_BASEPOINT[:], nine), "")
	item(r, "x25519.Basepoint", bytes.Equal(x25519.Basepoint, nine), "")
	item(r, "RISTRETTO_BASEPOINT_COMPRESSED", bytes.Equal(curve.RISTRETTO_BASEPOINT_COMPRESSED[:], ref.RistrettoEncode(ref.B)), "")
	rb, _ := curve.RISTRETTO_BASEPOINT_POINT.MarshalBinary()
	item(r, "RISTRETTO_BASEPOINT_POINT", bytes.Equal(rb, ref.RistrettoEncode(ref.B)), "")
	item(r, "ED25519_BASEPOINT_TABLE.Basepoint", bytes.Equal(encPt(curve.ED25519_BASEPOINT_TABLE.Basepoint()), ref.Encode(ref.B)), "")
	rtb, _ := curve.RISTRETTO_BASEPOINT_TABLE.Basepoint().MarshalBinary()
	item(r, "RISTRETTO_BASEPOINT_TABLE.Basepoint", bytes.Equal(rtb, ref.RistrettoEncode(ref.B)), "")
	var ob [32]byte
	scalar.BASEPOINT_ORDER.ToBytes(ob[:])
	item(r, "BASEPOINT_ORDER", bytes.Equal(ob[:], ref.LE32(ref.L)), fmt.Sprintf("%x", ob))
	// EIGHT_TORSION by value: entry i = [i] entry 1, entry 1 has order 8, and the set is the reference's E[8]
	t1 := ref.Decode(encPt(curve.EIGHT_TORSION[1]))
	ok1 := t1.OK && t1.Pt.Mul(big.NewInt(8)).IsIdentity() && !t1.Pt.Mul(big.NewInt(4)).IsIdentity()
	item(r, "EIGHT_TORSION[1]/order8", ok1, "")
	inSet := func(b []byte) bool {
		for _, t := range gen.Tors {
			if bytes.Equal(ref.Encode(t), b) {
				return true
			}
		}
		return false
	}
	for i, tp := range curve.EIGHT_TORSION {
		e := encPt(tp)
		want := ref.Encode(t1.Pt.Mul(big.NewInt(int64(i))))
		item(r, fmt.Sprintf("EIGHT_TORSION[%d]", i), ok1 && bytes.Equal(e, want) && inSet(e), fmt.Sprintf("got %x want %x", e, want))
	}
}

var _ = mon.Hex
