//go:build verif && !(amd64 && !purego && !force32bit)

package main

import (
	"github.com/oasisprotocol/curve25519-voi/zzverif/mon"
	"github.com/oasisprotocol/curve25519-voi/zzverif/ref"
)

func vectorTables(r *mon.Run, bshl ref.Pt) {}

func vecSnapshot() interface{}     { return nil }
func vecDiff(s interface{}) string { return "" }
