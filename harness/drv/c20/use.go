package main

import (
	"bytes"
	"fmt"
	"sync"
	"sync/atomic"

	"github.com/oasisprotocol/curve25519-voi/curve"
	"github.com/oasisprotocol/curve25519-voi/curve/scalar"
	"github.com/oasisprotocol/curve25519-voi/primitives/ed25519"
	"github.com/oasisprotocol/curve25519-voi/zzverif/mon"
)

// useAsOperands passes every exported constant object as an INPUT operand to every family of operations (never as a
// receiver, and never to the one operation documented to rewrite its inputs, BatchInvert). Constants are read-only to
// the library: the enumeration that follows must find them unchanged.
var damagedBy string

// cheapConstants serialises the exported constant objects through accessors that involve no table or lattice code.
func cheapConstants() []byte {
	var out []byte
	var ob [32]byte
	scalar.BASEPOINT_ORDER.ToBytes(ob[:])
	out = append(out, ob[:]...)
	out = append(out, curve.ED25519_BASEPOINT_COMPRESSED[:]...)
	out = append(out, curve.RISTRETTO_BASEPOINT_COMPRESSED[:]...)
	out = append(out, curve.X25519_BASEPOINT[:]...)
	out = append(out, encPt(curve.ED25519_BASEPOINT_POINT)...)
	rb, _ := curve.RISTRETTO_BASEPOINT_POINT.MarshalBinary()
	out = append(out, rb...)
	for _, t := range curve.EIGHT_TORSION {
		out = append(out, encPt(t)...)
	}
	return out
}

func useAsOperands() {
	// each operation on its own (a documented panic of one must not hide the rest), followed by a cheap look at the
	// exported constants: the first operation after which one of them differs is named, and the phase stops there
	// (the library is not usable with a damaged group order; later calls might not even return)
	before := cheapConstants()
	try := func(name string, f func()) {
		if damagedBy != "" {
			return
		}
		mon.Try(f)
		if !bytes.Equal(cheapConstants(), before) {
			damagedBy = name
		}
	}
	mon.Try(func() {
		ord := scalar.BASEPOINT_ORDER
		one := scalar.One()
		pts := []*curve.EdwardsPoint{curve.ED25519_BASEPOINT_POINT}
		pts = append(pts, curve.EIGHT_TORSION[:]...)
		// scalar operations and recodings with the group order as operand
		try("scalar.New().Add(ord, ord)", func() { scalar.New().Add(ord, ord) })
		try("scalar.New().Sub(ord, one)", func() { scalar.New().Sub(ord, one) })
		try("scalar.New().Mul(ord, ord)", func() { scalar.New().Mul(ord, ord) })
		try("scalar.New().Neg(ord)", func() { scalar.New().Neg(ord) })
		try("scalar.New().Reduce(ord)", func() { scalar.New().Reduce(ord) })
		try("scalar.New().Sum([]*scalar.Scalar{ord, ord, one})", func() { scalar.New().Sum([]*scalar.Scalar{ord, ord, one}) })
		try("scalar.New().Product([]*scalar.Scalar{ord, one})", func() { scalar.New().Product([]*scalar.Scalar{ord, one}) })
		try("scalar.New().ConditionalSelect(ord, one, 1)", func() { scalar.New().ConditionalSelect(ord, one, 1) })
		try("ord.Equal(one)", func() { ord.Equal(one) })
		try("ord.IsCanonical()", func() { ord.IsCanonical() })
		try("ord.Bits()", func() { ord.Bits() })
		try("ord.NonAdjacentForm(5)", func() { ord.NonAdjacentForm(5) })
		try("ord.NonAdjacentForm(8)", func() { ord.NonAdjacentForm(8) })
		try("ord.ToRadix16()", func() { ord.ToRadix16() })
		for w := uint(4); w <= 8; w++ {
			try("ord.ToRadix2w(w)", func() { ord.ToRadix2w(w) })
		}
		try("ord.MarshalBinary()", func() { ord.MarshalBinary() })
		// every multiplication routine, at sizes on both sides of each algorithm switch
		for _, n := range []int{1, 2, 8, 189, 190, 191, 200, 400} {
			ss := make([]*scalar.Scalar, n)
			ps := make([]*curve.EdwardsPoint, n)
			rps := make([]*curve.RistrettoPoint, n)
			xs := make([]*curve.ExpandedEdwardsPoint, n)
			for i := range ss {
				ss[i] = ord
				if i%3 == 1 {
					ss[i] = one
				}
				ps[i] = pts[i%len(pts)]
				rps[i] = curve.RISTRETTO_BASEPOINT_POINT
				xs[i] = curve.NewExpandedEdwardsPoint(ps[i])
			}
			try("curve.NewEdwardsPoint().MultiscalarMulVartime(ss, ps)", func() { curve.NewEdwardsPoint().MultiscalarMulVartime(ss, ps) })
			try("curve.NewRistrettoPoint().MultiscalarMulVartime(ss, rps)", func() { curve.NewRistrettoPoint().MultiscalarMulVartime(ss, rps) })
			try("curve.NewEdwardsPoint().ExpandedMultiscalarMulVartime(ss, xs, ss[:1], ps[:1])", func() { curve.NewEdwardsPoint().ExpandedMultiscalarMulVartime(ss, xs, ss[:1], ps[:1]) })
			if n <= 200 {
				try("curve.NewEdwardsPoint().MultiscalarMul(ss, ps)", func() { curve.NewEdwardsPoint().MultiscalarMul(ss, ps) })
				try("curve.NewRistrettoPoint().MultiscalarMul(ss, rps)", func() { curve.NewRistrettoPoint().MultiscalarMul(ss, rps) })
			}
			try("curve.NewEdwardsPoint().Sum(ps)", func() { curve.NewEdwardsPoint().Sum(ps) })
			try("curve.NewRistrettoPoint().Sum(rps)", func() { curve.NewRistrettoPoint().Sum(rps) })
		}
		for _, p := range pts {
			try("curve.NewEdwardsPoint().Mul(p, ord)", func() { curve.NewEdwardsPoint().Mul(p, ord) })
			try("curve.NewEdwardsPoint().Add(p, p)", func() { curve.NewEdwardsPoint().Add(p, p) })
			try("curve.NewEdwardsPoint().Sub(p, curve.ED25519_BASEPOINT_POINT)", func() { curve.NewEdwardsPoint().Sub(p, curve.ED25519_BASEPOINT_POINT) })
			try("curve.NewEdwardsPoint().Neg(p)", func() { curve.NewEdwardsPoint().Neg(p) })
			try("curve.NewEdwardsPoint().MulByCofactor(p)", func() { curve.NewEdwardsPoint().MulByCofactor(p) })
			try("curve.NewEdwardsPoint().DoubleScalarMulBasepointVartime(ord, p, ord)", func() { curve.NewEdwardsPoint().DoubleScalarMulBasepointVartime(ord, p, ord) })
			try("curve.NewEdwardsPoint().TripleScalarMulBasepointVartime(ord, p, one, p)", func() { curve.NewEdwardsPoint().TripleScalarMulBasepointVartime(ord, p, one, p) })
			try("curve.NewEdwardsPoint().ExpandedDoubleScalarMulBasepointVartime(ord, curve.NewExpandedEdwardsPoint(p), ord)", func() {
				curve.NewEdwardsPoint().ExpandedDoubleScalarMulBasepointVartime(ord, curve.NewExpandedEdwardsPoint(p), ord)
			})
			try("curve.NewEdwardsPoint().ExpandedTripleScalarMulBasepointVartime(ord, curve.NewExpandedEdwardsPoint(p), one, p)", func() {
				curve.NewEdwardsPoint().ExpandedTripleScalarMulBasepointVartime(ord, curve.NewExpandedEdwardsPoint(p), one, p)
			})
			try("curve.NewEdwardsPoint().ConditionalSelect(p, curve.ED25519_BASEPOINT_POINT, 1)", func() { curve.NewEdwardsPoint().ConditionalSelect(p, curve.ED25519_BASEPOINT_POINT, 1) })
			try("curve.NewEdwardsBasepointTable(p)", func() { curve.NewEdwardsBasepointTable(p) })
			try("p.IsTorsionFree()", func() { p.IsTorsionFree() })
			try("p.IsSmallOrder()", func() { p.IsSmallOrder() })
			try("p.IsIdentity()", func() { p.IsIdentity() })
			try("p.Equal(curve.ED25519_BASEPOINT_POINT)", func() { p.Equal(curve.ED25519_BASEPOINT_POINT) })
			try("p.MarshalBinary()", func() { p.MarshalBinary() })
			try("curve.NewCompressedEdwardsY().SetEdwardsPoint(p)", func() { curve.NewCompressedEdwardsY().SetEdwardsPoint(p) })
			try("curve.NewMontgomeryPoint().SetEdwards(p)", func() { curve.NewMontgomeryPoint().SetEdwards(p) })
		}
		// objects constructed FROM the constants, then re-targeted / overwritten by their owner
		q := curve.NewEdwardsPoint().Mul(curve.ED25519_BASEPOINT_POINT, scalar.NewFromUint64(77))
		rq := curve.NewRistrettoPoint().Mul(curve.RISTRETTO_BASEPOINT_POINT, scalar.NewFromUint64(77))
		try("NewExpandedEdwardsPoint(ED25519_BASEPOINT_POINT).SetEdwardsPoint(Q)", func() {
			curve.NewExpandedEdwardsPoint(curve.ED25519_BASEPOINT_POINT).SetEdwardsPoint(q)
		})
		try("NewExpandedRistrettoPoint(RISTRETTO_BASEPOINT_POINT).SetRistrettoPoint(Q)", func() {
			curve.NewExpandedRistrettoPoint(curve.RISTRETTO_BASEPOINT_POINT).SetRistrettoPoint(rq)
		})
		try("NewEdwardsBasepointTable(ED25519_BASEPOINT_POINT).Basepoint().Neg()", func() {
			b := curve.NewEdwardsBasepointTable(curve.ED25519_BASEPOINT_POINT).Basepoint()
			b.Neg(b)
		})
		try("ED25519_BASEPOINT_TABLE.Basepoint() expanded and re-targeted", func() {
			curve.NewExpandedEdwardsPoint(curve.ED25519_BASEPOINT_TABLE.Basepoint()).SetEdwardsPoint(q)
		})
		for _, tp := range curve.EIGHT_TORSION {
			tp := tp
			try("NewExpandedEdwardsPoint(EIGHT_TORSION[i]).SetEdwardsPoint(Q)", func() { curve.NewExpandedEdwardsPoint(tp).SetEdwardsPoint(q) })
		}
		try("NewRistrettoPoint().Sum({RISTRETTO_BASEPOINT_POINT, Q, Q})", func() {
			curve.NewRistrettoPoint().Sum([]*curve.RistrettoPoint{curve.RISTRETTO_BASEPOINT_POINT, rq, rq})
		})
		try("NewEdwardsPoint().Sum({ED25519_BASEPOINT_POINT, Q, Q})", func() {
			curve.NewEdwardsPoint().Sum([]*curve.EdwardsPoint{curve.ED25519_BASEPOINT_POINT, q, q})
		})
		try("scalar.New().Sum/Product({BASEPOINT_ORDER, 77})", func() {
			scalar.New().Sum([]*scalar.Scalar{scalar.BASEPOINT_ORDER, scalar.NewFromUint64(77)})
			scalar.New().Product([]*scalar.Scalar{scalar.BASEPOINT_ORDER, scalar.NewFromUint64(77)})
		})
		try("curve.NewEdwardsPoint().MulBasepoint(curve.ED25519_BASEPOINT_TABLE, ord)", func() { curve.NewEdwardsPoint().MulBasepoint(curve.ED25519_BASEPOINT_TABLE, ord) })
		try("curve.NewRistrettoPoint().MulBasepoint(curve.RISTRETTO_BASEPOINT_TABLE, ord)", func() { curve.NewRistrettoPoint().MulBasepoint(curve.RISTRETTO_BASEPOINT_TABLE, ord) })
		try("curve.NewRistrettoPoint().Mul(curve.RISTRETTO_BASEPOINT_POINT, ord)", func() { curve.NewRistrettoPoint().Mul(curve.RISTRETTO_BASEPOINT_POINT, ord) })
		try("curve.NewRistrettoPoint().DoubleScalarMulBasepointVartime(ord, curve.RISTRETTO_BASEPOINT_POINT, ord)", func() {
			curve.NewRistrettoPoint().DoubleScalarMulBasepointVartime(ord, curve.RISTRETTO_BASEPOINT_POINT, ord)
		})
		try("curve.NewRistrettoPoint().TripleScalarMulBasepointVartime(ord, curve.RISTRETTO_BASEPOINT_POINT, one, curve.RISTRETTO_BASEPOINT_POINT)", func() {
			curve.NewRistrettoPoint().TripleScalarMulBasepointVartime(ord, curve.RISTRETTO_BASEPOINT_POINT, one, curve.RISTRETTO_BASEPOINT_POINT)
		})
		try("curve.NewRistrettoPoint().Add(curve.RISTRETTO_BASEPOINT_POINT, curve.RISTRETTO_BASEPOINT_POINT)", func() {
			curve.NewRistrettoPoint().Add(curve.RISTRETTO_BASEPOINT_POINT, curve.RISTRETTO_BASEPOINT_POINT)
		})
		try("curve.NewCompressedRistretto().SetRistrettoPoint(curve.RISTRETTO_BASEPOINT_POINT)", func() { curve.NewCompressedRistretto().SetRistrettoPoint(curve.RISTRETTO_BASEPOINT_POINT) })
		try("curve.NewEdwardsPoint().SetCompressedY(curve.ED25519_BASEPOINT_COMPRESSED)", func() { curve.NewEdwardsPoint().SetCompressedY(curve.ED25519_BASEPOINT_COMPRESSED) })
		try("curve.NewRistrettoPoint().SetCompressed(curve.RISTRETTO_BASEPOINT_COMPRESSED)", func() { curve.NewRistrettoPoint().SetCompressed(curve.RISTRETTO_BASEPOINT_COMPRESSED) })
		try("curve.NewMontgomeryPoint().Mul(curve.X25519_BASEPOINT, ord)", func() { curve.NewMontgomeryPoint().Mul(curve.X25519_BASEPOINT, ord) })
		try("curve.NewEdwardsPoint().SetMontgomery(curve.X25519_BASEPOINT, 0)", func() { curve.NewEdwardsPoint().SetMontgomery(curve.X25519_BASEPOINT, 0) })
	})
}

// inUse: worker goroutines run the table-driven multiplications (both signs of every digit) while this goroutine
// re-reads the raw tables through the in-package observers and compares them with the snapshot taken before. The
// tables are constants: they hold their defining values at every instant, not only between calls. (On the unchanged
// tree nobody writes them, so the concurrent reads are race-free; a write is exactly what is being looked for.) The
// phase is bounded by the workers' operation count; the number of sweeps achieved is reported.
func inUse(r *mon.Run) {
	snap := tableSnapshot()
	if snap == nil {
		r.HookMissing("curve graft (raw table snapshot for the in-use monitor)")
		return
	}
	const workers, opsPerWorker = 4, 400
	rng := r.Rng("c20/in-use")
	type job struct {
		a, b *scalar.Scalar
		want []byte
	}
	jobs := make([][]job, workers)
	A := curve.NewEdwardsPoint().MulBasepoint(curve.ED25519_BASEPOINT_TABLE, scalar.NewFromUint64(0xabcdef))
	for w := range jobs {
		for i := 0; i < opsPerWorker; i++ {
			a, _ := scalar.NewFromBytesModOrderWide(mon.Bytes(rng, 64))
			b, _ := scalar.NewFromBytesModOrderWide(mon.Bytes(rng, 64))
			// expected value from the constant-time routines, which do not use the odd-multiple tables
			t1 := curve.NewEdwardsPoint().Mul(A, a)
			t2 := curve.NewEdwardsPoint().MulBasepoint(curve.ED25519_BASEPOINT_TABLE, b)
			wb, _ := t1.Add(t1, t2).MarshalBinary()
			jobs[w] = append(jobs[w], job{a, b, wb})
		}
	}
	seed := bytes.Repeat([]byte{7}, 32)
	priv := ed25519.NewKeyFromSeed(seed)
	pub := priv.Public().(ed25519.PublicKey)
	msg := []byte("in use")
	sig := ed25519.Sign(priv, msg)
	var running int32 = workers
	var wrong, sweeps, changed int64
	var firstChange atomic.Value
	var wg sync.WaitGroup
	for w := 0; w < workers; w++ {
		wg.Add(1)
		go func(w int) {
			defer wg.Done()
			defer atomic.AddInt32(&running, -1)
			for _, j := range jobs[w] {
				got, _ := curve.NewEdwardsPoint().DoubleScalarMulBasepointVartime(j.a, A, j.b).MarshalBinary()
				if !bytes.Equal(got, j.want) {
					atomic.AddInt64(&wrong, 1)
				}
				if !ed25519.Verify(pub, msg, sig) {
					atomic.AddInt64(&wrong, 1)
				}
				curve.NewEdwardsPoint().MulBasepoint(curve.ED25519_BASEPOINT_TABLE, j.a)
			}
		}(w)
	}
	for atomic.LoadInt32(&running) > 0 {
		if d := tableDiff(snap); d != "" {
			if atomic.AddInt64(&changed, 1) == 1 {
				firstChange.Store(d)
			}
		}
		sweeps++
	}
	wg.Wait()
	r.EvalN(int64(workers * opsPerWorker * 3))
	r.HistN("in-use/table-sweeps-while-workers-ran", sweeps)
	r.HistN("in-use/worker-operations", int64(workers*opsPerWorker*3))
	r.Max("in-use/sweeps", sweeps)
	if changed > 0 {
		r.Violate("constant/table-modified-while-in-use", fmt.Sprintf("%d of %d sweeps saw a table entry differ from its start-up value while other goroutines were only using the tables; first: %v", changed, sweeps, firstChange.Load()), Entry{"in-use"})
	}
	if wrong > 0 {
		r.Violate("constant/wrong-result-under-concurrent-use", fmt.Sprintf("%d operations gave a wrong result while %d goroutines shared the tables", wrong, workers), Entry{"in-use"})
	}
	if sweeps < 20 {
		r.Inconclusive(fmt.Sprintf("in-use monitor completed only %d sweeps", sweeps))
	}
}
