//go:build verif && amd64 && !purego && !force32bit

package main

import (
	"bytes"
	"fmt"
	"math/big"

	"github.com/oasisprotocol/curve25519-voi/curve"
	"github.com/oasisprotocol/curve25519-voi/zzverif/mon"
	"github.com/oasisprotocol/curve25519-voi/zzverif/ref"
)

// cached checks a cachedPoint (Y+X, Y-X, Z, 2dT) given by its lanes, projectively, against an affine point.
func cached(r *mon.Run, name string, l *curve.VerifLanes, want ref.Pt) {
	a, b, c, d := curve.VerifSplitLanes(l)
	// lanes are ((Y-X), (Y+X), 2Z, 2dT) up to a common factor (dalek's CachedPoint layout)
	ym, _ := feVal(&a)
	yp, _ := feVal(&b)
	z2, _ := feVal(&c)
	t2d, _ := feVal(&d)
	good := fmodp(z2).Sign() != 0
	if good {
		zi := new(big.Int).Lsh(inv(z2), 1) // 1/Z
		w1 := fmodp(new(big.Int).Add(want.Y, want.X))
		w2 := fmodp(new(big.Int).Sub(want.Y, want.X))
		w3 := fmodp(new(big.Int).Mul(new(big.Int).Mul(new(big.Int).Lsh(ref.D, 1), want.X), want.Y))
		good = fmodp(new(big.Int).Mul(yp, zi)).Cmp(w1) == 0 && fmodp(new(big.Int).Mul(ym, zi)).Cmp(w2) == 0 && fmodp(new(big.Int).Mul(t2d, zi)).Cmp(w3) == 0
	}
	// and through the library's own conversion
	good = good && bytes.Equal(encPt(curve.VerifCachedToPoint(l)), ref.Encode(want))
	// every lane limb must be within the reduced range (26/25 bits + 1)
	for i := 0; i < 5; i++ {
		for j := 0; j < 8; j++ {
			lim := uint32(1) << 27
			if j == 2 || j == 3 || j == 6 || j == 7 {
				lim = 1 << 26
			}
			if l[i][j] >= lim {
				good = false
			}
		}
	}
	item(r, name, good, fmt.Sprintf("lanes %v do not hold (Y-X : Y+X : 2Z : 2dT) of (%x, %x)", *l, want.X, want.Y))
}

func vectorTables(r *mon.Run, bshl ref.Pt) {
	odd, oddShl, base, ok := curve.VerifVectorTables()
	if !ok {
		return
	}
	twoB, twoS := ref.B.Add(ref.B), bshl.Add(bshl)
	a1, a2 := ref.B, bshl
	for j := 0; j < 64; j++ {
		cached(r, fmt.Sprintf("VECTOR_ODD_MULTIPLES_OF_BASEPOINT[%d]", j), &odd[j], a1)
		cached(r, fmt.Sprintf("VECTOR_ODD_MULTIPLES_OF_B_SHL_128[%d]", j), &oddShl[j], a2)
		a1, a2 = a1.Add(twoB), a2.Add(twoS)
	}
	b := ref.B
	for i := 0; i < 32; i++ {
		acc := b
		for j := 0; j < 8; j++ {
			cached(r, fmt.Sprintf("ED25519_BASEPOINT_TABLE.innerVector[%d][%d]", i, j), &base[i][j], acc)
			acc = acc.Add(b)
		}
		b = b.Mul(big.NewInt(256))
	}
}

type vecTables struct {
	odd, oddShl [64]curve.VerifLanes
	base        [32][8]curve.VerifLanes
	ok          bool
}

func vecSnapshot() interface{} {
	v := &vecTables{}
	v.odd, v.oddShl, v.base, v.ok = curve.VerifVectorTables()
	return v
}

func vecDiff(s interface{}) string {
	v := s.(*vecTables)
	if !v.ok {
		return ""
	}
	odd, oddShl, base, _ := curve.VerifVectorTables()
	for j := range odd {
		if odd[j] != v.odd[j] {
			return fmt.Sprintf("VECTOR_ODD_MULTIPLES_OF_BASEPOINT[%d] holds %v, started as %v", j, odd[j], v.odd[j])
		}
		if oddShl[j] != v.oddShl[j] {
			return fmt.Sprintf("VECTOR_ODD_MULTIPLES_OF_B_SHL_128[%d] holds %v, started as %v", j, oddShl[j], v.oddShl[j])
		}
	}
	if base != v.base {
		return "VECTOR basepoint table"
	}
	return ""
}
