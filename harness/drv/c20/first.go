package main

import (
	"bytes"
	"encoding/hex"
	"fmt"
	"math/big"
	"os"
	"os/exec"
	"strconv"

	"github.com/oasisprotocol/curve25519-voi/curve"
	"github.com/oasisprotocol/curve25519-voi/curve/scalar"
	"github.com/oasisprotocol/curve25519-voi/zzverif/mon"
	"github.com/oasisprotocol/curve25519-voi/zzverif/ref"
)

// First use. The tables are "generated at start-up": whatever a process does first with the library - with one P or
// many, immediately after package initialisation - must already see them complete. Each entry point below is run as
// the very first library call of a fresh child process (this binary re-executed with VERIF_C20_FIRST set), which
// prints the encoded result; the parent compares it with the big-integer value.

var firstScalar = big.NewInt(0).SetBytes([]byte("first use of the tables in a fresh process!!"))

type firstOp struct {
	name string
	run  func(s *scalar.Scalar) []byte
	want func(k *big.Int) ref.Pt
}

func firstOps() []firstOp {
	encE := func(p *curve.EdwardsPoint) []byte { b, _ := p.MarshalBinary(); return b }
	B := curve.ED25519_BASEPOINT_POINT
	kB := func(k *big.Int) ref.Pt { return ref.B.Mul(k) }
	k2B := func(k *big.Int) ref.Pt { return ref.B.Mul(new(big.Int).Lsh(k, 1)) }
	return []firstOp{
		{"MulBasepoint(ED25519_BASEPOINT_TABLE)", func(s *scalar.Scalar) []byte {
			return encE(curve.NewEdwardsPoint().MulBasepoint(curve.ED25519_BASEPOINT_TABLE, s))
		}, kB},
		{"DoubleScalarMulBasepointVartime", func(s *scalar.Scalar) []byte {
			return encE(curve.NewEdwardsPoint().DoubleScalarMulBasepointVartime(s, B, s))
		}, k2B},
		{"ExpandedDoubleScalarMulBasepointVartime", func(s *scalar.Scalar) []byte {
			return encE(curve.NewEdwardsPoint().ExpandedDoubleScalarMulBasepointVartime(s, curve.NewExpandedEdwardsPoint(B), s))
		}, k2B},
		{"TripleScalarMulBasepointVartime(C = [2s]B)", func(s *scalar.Scalar) []byte {
			c := curve.NewEdwardsPoint().Mul(B, scalar.New().Add(s, s))
			p := curve.NewEdwardsPoint().TripleScalarMulBasepointVartime(s, B, s, c)
			return []byte{map[bool]byte{true: 1, false: 0}[p.IsIdentity()]}
		}, nil},
		{"ExpandedTripleScalarMulBasepointVartime(C = [2s]B)", func(s *scalar.Scalar) []byte {
			c := curve.NewEdwardsPoint().Mul(B, scalar.New().Add(s, s))
			p := curve.NewEdwardsPoint().ExpandedTripleScalarMulBasepointVartime(s, curve.NewExpandedEdwardsPoint(B), s, c)
			return []byte{map[bool]byte{true: 1, false: 0}[p.IsIdentity()]}
		}, nil},
		{"MultiscalarMulVartime(2)", func(s *scalar.Scalar) []byte {
			return encE(curve.NewEdwardsPoint().MultiscalarMulVartime([]*scalar.Scalar{s, s}, []*curve.EdwardsPoint{B, B}))
		}, k2B},
		{"ED25519_BASEPOINT_TABLE.Basepoint", func(s *scalar.Scalar) []byte {
			return encE(curve.ED25519_BASEPOINT_TABLE.Basepoint())
		}, func(k *big.Int) ref.Pt { return ref.B }},
		{"RistrettoPoint.MulBasepoint(RISTRETTO_BASEPOINT_TABLE)", func(s *scalar.Scalar) []byte {
			b, _ := curve.NewRistrettoPoint().MulBasepoint(curve.RISTRETTO_BASEPOINT_TABLE, s).MarshalBinary()
			return b
		}, nil},
		{"NewEdwardsBasepointTable(B).MulBasepoint", func(s *scalar.Scalar) []byte {
			return encE(curve.NewEdwardsPoint().MulBasepoint(curve.NewEdwardsBasepointTable(B), s))
		}, kB},
		{"Mul(B, s)", func(s *scalar.Scalar) []byte { return encE(curve.NewEdwardsPoint().Mul(B, s)) }, kB},
	}
}

// firstChild runs in the re-executed process.
func firstChild(idx int) {
	k := new(big.Int).Mod(firstScalar, ref.L)
	s, _ := scalar.NewFromCanonicalBytes(ref.LE32(k))
	fmt.Println(hex.EncodeToString(firstOps()[idx].run(s)))
}

func firstUse(r *mon.Run) {
	k := new(big.Int).Mod(firstScalar, ref.L)
	ops := firstOps()
	for idx, op := range ops {
		var want []byte
		switch {
		case op.want != nil:
			want = ref.Encode(op.want(k))
		case op.name[:9] == "Ristretto":
			want = ref.RistrettoEncode(ref.B.Mul(k))
		default:
			want = []byte{1}
		}
		for _, procs := range []string{"1", "2", ""} {
			cmd := exec.Command(os.Args[0])
			cmd.Env = append(os.Environ(), "VERIF_C20_FIRST="+strconv.Itoa(idx))
			if procs != "" {
				cmd.Env = append(cmd.Env, "GOMAXPROCS="+procs)
			}
			out, err := cmd.Output()
			r.Eval([]byte("first-use|" + op.name + "|" + procs))
			r.Hist("first-use/child-processes")
			got, derr := hex.DecodeString(string(bytes.TrimSpace(out)))
			if err != nil || derr != nil {
				r.Inconclusive(fmt.Sprintf("first-use child for %s failed: %v %v", op.name, err, derr))
				continue
			}
			if !bytes.Equal(got, want) {
				r.Violate("constant/first-use/"+op.name, fmt.Sprintf("as the first library call of a fresh process (GOMAXPROCS=%q): %s gave %x, want %x", procs, op.name, got, want), Entry{"first-use: " + op.name})
			}
		}
	}
}
