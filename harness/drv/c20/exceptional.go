package main

import (
	"bytes"
	"crypto"
	"hash"
	"io"

	"golang.org/x/crypto/sha3"

	"github.com/oasisprotocol/curve25519-voi/curve"
	"github.com/oasisprotocol/curve25519-voi/curve/scalar"
	"github.com/oasisprotocol/curve25519-voi/internal/elligator"
	"github.com/oasisprotocol/curve25519-voi/internal/field"
	"github.com/oasisprotocol/curve25519-voi/primitives/ed25519"
	"github.com/oasisprotocol/curve25519-voi/primitives/ed25519/extra/ecvrf"
	"github.com/oasisprotocol/curve25519-voi/primitives/h2c"
	"github.com/oasisprotocol/curve25519-voi/primitives/sr25519"
	"github.com/oasisprotocol/curve25519-voi/primitives/x25519"
	"github.com/oasisprotocol/curve25519-voi/zzverif/mon"
	"github.com/oasisprotocol/curve25519-voi/zzverif/ref"
)

// constXOF is a ShakeHash whose output is a chosen constant byte: with 0x00 every hash_to_field element of the XOF suites
// is the Elligator 2 exceptional value, which no real (DST, message) pair reaches.
type constXOF struct{ b byte }

func (x *constXOF) Write(p []byte) (int, error) { return len(p), nil }
func (x *constXOF) Read(p []byte) (int, error) {
	for i := range p {
		p[i] = x.b
	}
	return len(p), nil
}
func (x *constXOF) Clone() sha3.ShakeHash { c := *x; return &c }
func (x *constXOF) Reset()                {}
func (x *constXOF) Sum(b []byte) []byte   { return b }
func (x *constXOF) Size() int             { return 32 }
func (x *constXOF) BlockSize() int        { return 168 }

var _ hash.Hash = (*constXOF)(nil)
var _ io.Reader = (*constXOF)(nil)

// fieldSnapshot serialises the shared field constants through the library's own encoder.
func fieldSnapshot() []byte {
	var out []byte
	for _, fe := range []*field.Element{&field.One, &field.MinusOne, &field.Two, &field.SQRT_M1} {
		var b [32]byte
		mon.Try(func() { fe.ToBytes(b[:]) })
		out = append(out, b[:]...)
	}
	return append(out, cheapConstants()...)
}

var exceptionalDamagedBy string

// exceptionalCases drives every routine that consults a constant through its mathematically exceptional inputs (the
// branches and conditional assignments that ordinary inputs never take): the constants involved - shared objects
// inside the library, not operands of the caller - must be the same afterwards.
func exceptionalCases() int {
	before := fieldSnapshot()
	n := 0
	try := func(name string, f func()) {
		if exceptionalDamagedBy != "" {
			return
		}
		mon.Try(f)
		n++
		if !bytes.Equal(fieldSnapshot(), before) {
			exceptionalDamagedBy = name
		}
	}
	le := func(v []byte) *field.Element {
		var fe field.Element
		fe.SetBytes(v)
		return &fe
	}
	for _, u := range ref.MapSpecialInputs() {
		ub := ref.LE32(u)
		try("elligator.EdwardsFlavor(special r)", func() { elligator.EdwardsFlavor(le(ub)) })
		try("Ristretto.SetUniformBytes(special r, special r)", func() {
			curve.NewRistrettoPoint().SetUniformBytes(append(append([]byte{}, ub...), ub...))
		})
		for sign := uint8(0); sign < 2; sign++ {
			try("EdwardsPoint.SetMontgomery(special u)", func() {
				var m curve.MontgomeryPoint
				copy(m[:], ub)
				curve.NewEdwardsPoint().SetMontgomery(&m, sign)
				m[31] |= 0x80
				curve.NewEdwardsPoint().SetMontgomery(&m, sign)
			})
		}
		try("CompressedEdwardsY decode(special y)", func() {
			var c curve.CompressedEdwardsY
			copy(c[:], ub)
			curve.NewEdwardsPoint().SetCompressedY(&c)
		})
		try("CompressedRistretto decode(special s)", func() {
			var c curve.CompressedRistretto
			copy(c[:], ub)
			curve.NewRistrettoPoint().SetCompressed(&c)
		})
		try("x25519.X25519(k, special u)", func() { x25519.X25519(bytes.Repeat([]byte{0x42}, 32), ub) })
	}
	for _, b := range []byte{0x00, 0xff, 0x01} {
		try("h2c XOF suites on a constant expander output", func() {
			h2c.Edwards25519_XOF_ELL2_RO(&constXOF{b}, []byte("dst"), []byte("m"))
			h2c.Edwards25519_XOF_ELL2_NU(&constXOF{b}, []byte("dst"), []byte("m"))
			h2c.Ristretto255_XOF_R255MAP_RO(&constXOF{b}, []byte("dst"), []byte("m"))
		})
	}
	// group-law corner cases
	B := curve.ED25519_BASEPOINT_POINT
	negB := curve.NewEdwardsPoint().Neg(B)
	id := curve.NewEdwardsPoint().Identity()
	zero := scalar.New()
	try("P + (-P), O + O, 2*O, [0]P, [8]T", func() {
		curve.NewEdwardsPoint().Add(B, negB)
		curve.NewEdwardsPoint().Add(id, id)
		curve.NewEdwardsPoint().Add(B, B)
		curve.NewEdwardsPoint().Mul(B, zero)
		curve.NewEdwardsPoint().MulBasepoint(curve.ED25519_BASEPOINT_TABLE, zero)
		for _, t := range curve.EIGHT_TORSION {
			curve.NewEdwardsPoint().MulByCofactor(t)
			t.IsTorsionFree()
			t.IsSmallOrder()
			var m curve.MontgomeryPoint
			m.SetEdwards(t)
			curve.NewRistrettoPoint().Identity().Equal(curve.NewRistrettoPoint().Identity())
		}
		curve.NewEdwardsPoint().MultiscalarMul(nil, nil)
		curve.NewEdwardsPoint().MultiscalarMulVartime([]*scalar.Scalar{zero, zero}, []*curve.EdwardsPoint{id, negB})
		curve.NewEdwardsPoint().DoubleScalarMulBasepointVartime(zero, id, zero)
		curve.NewEdwardsPoint().Sum(nil)
		var c curve.CompressedRistretto
		c.SetRistrettoPoint(curve.NewRistrettoPoint().Identity())
	})
	try("scalar.Invert(0), BatchInvert with zeros", func() {
		mon.Try(func() { scalar.New().Invert(zero) })
		mon.Try(func() { scalar.New().BatchInvert([]*scalar.Scalar{scalar.New(), scalar.NewFromUint64(3)}) })
	})
	try("field.Invert(0), SqrtRatioI(0,0), (1,0), (0,1), BatchInvert(0, x)", func() {
		var z, o, out field.Element
		o.One()
		out.Invert(&z)
		out.SqrtRatioI(&z, &z)
		out.SqrtRatioI(&o, &z)
		out.SqrtRatioI(&z, &o)
		out.Set(&z)
		out.InvSqrt()
		three := le([]byte{3})
		field.BatchInvert([]*field.Element{&z, three})
	})
	// verification with identity / small-order keys and points
	idEnc := ref.Encode(ref.Identity())
	sig := append(append([]byte{}, idEnc...), make([]byte, 32)...)
	try("ed25519 verification with identity A and R under every preset, single and batch", func() {
		for _, vo := range []*ed25519.VerifyOptions{ed25519.VerifyOptionsDefault, ed25519.VerifyOptionsStdLib, ed25519.VerifyOptionsFIPS_186_5, ed25519.VerifyOptionsZIP_215} {
			o := &ed25519.Options{Verify: vo}
			ed25519.VerifyWithOptions(idEnc, []byte("m"), sig, o)
			bv := ed25519.NewBatchVerifier()
			bv.AddWithOptions(idEnc, []byte("m"), sig, o)
			bv.Verify(nil)
		}
		ed25519.VerifyWithOptions(idEnc, make([]byte, 64), sig, &ed25519.Options{Hash: crypto.SHA512, Context: "c", Verify: ed25519.VerifyOptionsZIP_215})
	})
	try("ecvrf.Verify with a small-order key and Gamma", func() {
		pi := append(append([]byte{}, idEnc...), make([]byte, 48)...)
		ecvrf.Verify(idEnc, pi, []byte("a"))
		ecvrf.Verify_v10(idEnc, pi, []byte("a"))
		ecvrf.ProofToHash(pi)
	})
	try("sr25519 with the zero secret scalar / identity public key", func() {
		sk, err := sr25519.NewSecretKeyFromBytes(make([]byte, 64))
		if err != nil {
			return
		}
		kp := sk.KeyPair()
		st := sr25519.NewSigningContext([]byte("ctx")).NewTranscriptBytes([]byte("m"))
		s, err := kp.Sign(nil, st)
		if err != nil {
			return
		}
		kp.PublicKey().Verify(sr25519.NewSigningContext([]byte("ctx")).NewTranscriptBytes([]byte("m")), s)
	})
	return n
}
