//go:build verif

package main

import (
	"bytes"
	"fmt"
	"math/big"
	"math/bits"
	"unsafe"

	"github.com/oasisprotocol/curve25519-voi/curve"
	"github.com/oasisprotocol/curve25519-voi/curve/scalar"
	"github.com/oasisprotocol/curve25519-voi/internal/elligator"
	"github.com/oasisprotocol/curve25519-voi/internal/field"
	"github.com/oasisprotocol/curve25519-voi/internal/lattice"
	"github.com/oasisprotocol/curve25519-voi/zzverif/mon"
	"github.com/oasisprotocol/curve25519-voi/zzverif/ref"
)

var P = ref.P
var weights = field.VerifLimbWeights()

func fmodp(v *big.Int) *big.Int { return new(big.Int).Mod(v, P) }

// feVal decodes an element from its raw limbs; limbsOK says every limb is within the reduced range (+1 bit).
func feVal(fe *field.Element) (v *big.Int, limbsOK bool) {
	l := field.VerifLimbs(fe)
	v = new(big.Int)
	limbsOK = true
	for i, x := range l {
		v.Add(v, new(big.Int).Lsh(new(big.Int).SetUint64(x), weights[i]))
		width := uint(51)
		if len(l) == 10 {
			width = 26 - uint(i%2)
		}
		if bits.Len64(x) > int(width) {
			limbsOK = false
		}
	}
	return
}

func feIs(r *mon.Run, name string, fe *field.Element, want *big.Int) {
	v, ok := feVal(fe)
	item(r, name, fmodp(v).Cmp(fmodp(want)) == 0 && ok && v.Cmp(P) < 0, fmt.Sprintf("limbs %x decode to %x (limbs reduced: %v), definition %x", field.VerifLimbs(fe), v, ok, fmodp(want)))
}

func inv(v *big.Int) *big.Int { return new(big.Int).ModInverse(fmodp(v), P) }

// niels checks (y+x, y-x, 2dxy) against an affine reference point.
func niels(r *mon.Run, name string, e *curve.VerifAffineNiels, want ref.Pt) {
	yp, ok1 := feVal(&e.YplusX)
	ym, ok2 := feVal(&e.YminusX)
	xy, ok3 := feVal(&e.XY2D)
	w1 := fmodp(new(big.Int).Add(want.Y, want.X))
	w2 := fmodp(new(big.Int).Sub(want.Y, want.X))
	w3 := fmodp(new(big.Int).Mul(new(big.Int).Mul(new(big.Int).Lsh(ref.D, 1), want.X), want.Y))
	good := fmodp(yp).Cmp(w1) == 0 && fmodp(ym).Cmp(w2) == 0 && fmodp(xy).Cmp(w3) == 0 && ok1 && ok2 && ok3
	item(r, name, good, fmt.Sprintf("entry decodes to (%x, %x, %x), definition (%x, %x, %x)", fmodp(yp), fmodp(ym), fmodp(xy), w1, w2, w3))
}

// extPoint checks raw extended coordinates (X:Y:Z:T) against an affine point, including T = XY/Z.
func extPoint(r *mon.Run, name string, p *curve.EdwardsPoint, want ref.Pt) {
	X, Y, Z, T := curve.VerifCoords(p)
	x, ok1 := feVal(X)
	y, ok2 := feVal(Y)
	z, ok3 := feVal(Z)
	t, ok4 := feVal(T)
	good := ok1 && ok2 && ok3 && ok4 && fmodp(z).Sign() != 0
	if good {
		zi := inv(z)
		good = fmodp(new(big.Int).Mul(x, zi)).Cmp(want.X) == 0 &&
			fmodp(new(big.Int).Mul(y, zi)).Cmp(want.Y) == 0 &&
			fmodp(new(big.Int).Mul(t, z)).Cmp(fmodp(new(big.Int).Mul(x, y))) == 0
	}
	item(r, name, good, fmt.Sprintf("coordinates (%x : %x : %x : %x) are not the extended form of (%x, %x)", fmodp(x), fmodp(y), fmodp(z), fmodp(t), want.X, want.Y))
}

func run(r *mon.Run) {
	r.Observe("exhaustive", true)
	r.Observe("field_backend", field.VerifBackend)
	r.Observe("vector_backend_live", curve.VerifVector())
	apiLevel(r)

	// raw coordinates of the point constants
	extPoint(r, "ED25519_BASEPOINT_POINT/coords", curve.ED25519_BASEPOINT_POINT, ref.B)
	two128 := new(big.Int).Lsh(big.NewInt(1), 128)
	bshl := ref.B.Mul(two128)
	extPoint(r, "constB_SHL_128/coords", curve.VerifBShl128(), bshl)
	t1 := ref.Decode(encPt(curve.EIGHT_TORSION[1]))
	if t1.OK {
		for i, tp := range curve.EIGHT_TORSION {
			extPoint(r, fmt.Sprintf("EIGHT_TORSION[%d]/coords", i), tp, t1.Pt.Mul(big.NewInt(int64(i))))
		}
	}

	// 32x8 fixed-base table: entry (i, j) = [(j+1) * 256^i]B
	packed := curve.VerifPackedBasepointTable()
	live, haveLive := curve.VerifLiveBasepointTable()
	r.Observe("generic_basepoint_table_live", haveLive)
	base := ref.B
	for i := 0; i < 32; i++ {
		acc := base
		for j := 0; j < 8; j++ {
			niels(r, fmt.Sprintf("packedEdwardsBasepointTable[%d][%d]", i, j), &packed[i][j], acc)
			if haveLive {
				niels(r, fmt.Sprintf("ED25519_BASEPOINT_TABLE.inner[%d][%d]", i, j), &live[i][j], acc)
			}
			acc = acc.Add(base)
		}
		base = base.Mul(big.NewInt(256))
	}
	// odd multiples [2j+1]B and [2j+1][2^128]B
	odd, oddShl := curve.VerifOddMultiples()
	twoB, twoS := ref.B.Add(ref.B), bshl.Add(bshl)
	a1, a2 := ref.B, bshl
	for j := 0; j < 64; j++ {
		niels(r, fmt.Sprintf("AFFINE_ODD_MULTIPLES_OF_BASEPOINT[%d]", j), &odd[j], a1)
		niels(r, fmt.Sprintf("AFFINE_ODD_MULTIPLES_OF_B_SHL_128[%d]", j), &oddShl[j], a2)
		a1, a2 = a1.Add(twoB), a2.Add(twoS)
	}
	vectorTables(r, bshl)

	// curve / Ristretto constants
	d := ref.D
	one := big.NewInt(1)
	c := curve.VerifFieldConstants()
	want := map[string]*big.Int{
		"MINUS_ONE":                   big.NewInt(-1),
		"EDWARDS_D":                   d,
		"EDWARDS_D2":                  new(big.Int).Lsh(d, 1),
		"ONE_MINUS_EDWARDS_D_SQUARED": new(big.Int).Sub(one, new(big.Int).Mul(d, d)),
		"EDWARDS_D_MINUS_ONE_SQUARED": new(big.Int).Mul(new(big.Int).Sub(d, one), new(big.Int).Sub(d, one)),
	}
	for name, w := range want {
		fe, ok := c[name]
		if !ok {
			r.HookMissing("curve constant " + name)
			continue
		}
		feIs(r, "curve.const"+name, fe, w)
	}
	// square-root constants: fixed by RFC 9496 (the specific root is part of the definition)
	sqrtADm1, _ := new(big.Int).SetString("25063068953384623474111414158702152701244531502492656460079210482610430750235", 10)
	invSqrtAmD, _ := new(big.Int).SetString("54469307008909316920995813868745141605393597292927456921205312896311721017578", 10)
	sqrtM1, _ := new(big.Int).SetString("19681161376707505956807079304988542015446066515923890162744021073123829784752", 10)
	if fmodp(new(big.Int).Mul(sqrtM1, sqrtM1)).Cmp(fmodp(big.NewInt(-1))) != 0 || sqrtM1.Cmp(ref.SqrtM1) != 0 {
		mon.Fatalf("ORACLE-CONFLICT sqrt(-1)")
	}
	feIs(r, "curve.constSQRT_AD_MINUS_ONE", c["SQRT_AD_MINUS_ONE"], sqrtADm1)
	feIs(r, "curve.constINVSQRT_A_MINUS_D", c["INVSQRT_A_MINUS_D"], invSqrtAmD)
	feIs(r, "field.SQRT_M1", &field.SQRT_M1, sqrtM1)
	feIs(r, "field.One", &field.One, one)
	feIs(r, "field.MinusOne", &field.MinusOne, big.NewInt(-1))
	feIs(r, "field.Two", &field.Two, big.NewInt(2))
	for name, fe := range field.VerifExtraConstants() {
		if name == "APLUS2_OVER_FOUR" {
			feIs(r, "field.constAPLUS2_OVER_FOUR", fe, big.NewInt(121666))
		}
	}
	// 16p as added by Sub/Neg
	p16 := new(big.Int)
	for i, l := range field.VerifPTimesSixteen() {
		p16.Add(p16, new(big.Int).Lsh(new(big.Int).SetUint64(l), weights[i]))
	}
	item(r, "field.p_times_sixteen", p16.Cmp(new(big.Int).Lsh(P, 4)) == 0, fmt.Sprintf("limbs sum to %x, 16p = %x", p16, new(big.Int).Lsh(P, 4)))

	// Elligator 2 constants (RFC 9380 edwards25519: the sign of sqrt(-(A+2)) is fixed by the rational map constant c1)
	A := big.NewInt(486662)
	ec := elligator.VerifConstants()
	feIs(r, "elligator.constMONTGOMERY_A", ec["MONTGOMERY_A"], A)
	feIs(r, "elligator.constMONTGOMERY_NEG_A", ec["MONTGOMERY_NEG_A"], new(big.Int).Neg(A))
	feIs(r, "elligator.constMONTGOMERY_A_SQUARED", ec["MONTGOMERY_A_SQUARED"], new(big.Int).Mul(A, A))
	// sqrt(-(A+2)) = sqrt(-486664): RFC 9380 section 6.8.2 / appendix: c1 = sqrt(-486664), sgn0(c1) == 0
	c1, okc1 := ref.Fsqrt(fmodp(big.NewInt(-486664)))
	if !okc1 {
		mon.Fatalf("ORACLE: -486664 must be a square")
	}
	feIs(r, "elligator.constMONTGOMERY_SQRT_NEG_A_PLUS_TWO", ec["MONTGOMERY_SQRT_NEG_A_PLUS_TWO"], c1)
	uf := fmodp(new(big.Int).Mul(big.NewInt(-2), sqrtM1))
	feIs(r, "elligator.constMONTGOMERY_U_FACTOR", ec["MONTGOMERY_U_FACTOR"], uf)
	// V_FACTOR = sqrt(U_FACTOR); which root is a convention of the code: accept exactly the value whose square is
	// U_FACTOR and which the reference map (validated against the RFC 9380 vectors in C14) uses: the even root.
	vf, okvf := ref.Fsqrt(uf)
	if vfe, ok := ec["MONTGOMERY_V_FACTOR"]; ok && okvf {
		v, lok := feVal(vfe)
		sq := fmodp(new(big.Int).Mul(v, v))
		item(r, "elligator.constMONTGOMERY_V_FACTOR", sq.Cmp(uf) == 0 && lok && v.Cmp(P) < 0, fmt.Sprintf("value %x squared is %x, want U_FACTOR %x (even root %x)", v, sq, uf, vf))
		r.Observe("V_FACTOR_is_even_root", fmodp(v).Cmp(vf) == 0)
	}

	// scalar constants
	lb, cl, cr, crr, lf, order := scalar.VerifConstants()
	toBig := func(l []uint64) *big.Int {
		v := new(big.Int)
		for i, x := range l {
			v.Add(v, new(big.Int).Lsh(new(big.Int).SetUint64(x), uint(i)*lb))
		}
		return v
	}
	limbsOK := func(l []uint64) bool {
		for _, x := range l {
			if bits.Len64(x) > int(lb) {
				return false
			}
		}
		return true
	}
	R := new(big.Int).Lsh(big.NewInt(1), uint(len(cl))*lb)
	item(r, "scalar.constL", toBig(cl).Cmp(ref.L) == 0 && limbsOK(cl), fmt.Sprintf("%x", toBig(cl)))
	item(r, "scalar.constR", toBig(cr).Cmp(new(big.Int).Mod(R, ref.L)) == 0 && limbsOK(cr), fmt.Sprintf("%x", toBig(cr)))
	item(r, "scalar.constRR", toBig(crr).Cmp(new(big.Int).Mod(new(big.Int).Mul(R, R), ref.L)) == 0 && limbsOK(crr), fmt.Sprintf("%x", toBig(crr)))
	modW := new(big.Int).Lsh(big.NewInt(1), lb)
	lfWant := new(big.Int).ModInverse(ref.L, modW)
	lfWant.Sub(modW, lfWant)
	item(r, "scalar.constLFACTOR", new(big.Int).SetUint64(lf).Cmp(lfWant) == 0, fmt.Sprintf("%x want %x", lf, lfWant))
	ord := new(big.Int)
	for i, w := range order {
		ord.Add(ord, new(big.Int).Lsh(new(big.Int).SetUint64(w), uint(64*i)))
	}
	item(r, "scalar.order", ord.Cmp(ref.L) == 0, fmt.Sprintf("%x", ord))

	// lattice constants
	l2 := new(big.Int)
	for i, w := range lattice.VerifEllSquared() {
		l2.Add(l2, new(big.Int).Lsh(new(big.Int).SetUint64(w), uint(64*i)))
	}
	item(r, "lattice.ellSquared", l2.Cmp(new(big.Int).Mul(ref.L, ref.L)) == 0, fmt.Sprintf("%x", l2))
	hi, lo := lattice.VerifEllLowerHalf()
	half := new(big.Int).Add(new(big.Int).Lsh(new(big.Int).SetUint64(uint64(hi)), 64), new(big.Int).SetUint64(lo))
	item(r, "lattice.constELL_LOWER_HALF", hi >= 0 && half.Cmp(new(big.Int).Mod(ref.L, new(big.Int).Lsh(big.NewInt(1), 128))) == 0, fmt.Sprintf("%x", half))
	r.Sample("entry", map[string]any{"name": "packedEdwardsBasepointTable[31][7]", "definition": "[8*256^31]B as (y+x, y-x, 2dxy)"})
	r.Sample("entry", map[string]any{"name": "scalar.constRR", "value": fmt.Sprintf("%x", toBig(crr))})
	r.Sample("entry", map[string]any{"name": "EIGHT_TORSION[5]/coords", "definition": "[5]T with T = XY/Z"})
	_ = bytes.Equal
}

type tables struct {
	odd, oddShl [64]curve.VerifAffineNiels
	live        [32][8]curve.VerifAffineNiels
	liveOK      bool
	vec         interface{}
}

func tableSnapshot() interface{} {
	t := &tables{}
	t.odd, t.oddShl = curve.VerifOddMultiples()
	t.live, t.liveOK = curve.VerifLiveBasepointTable()
	t.vec = vecSnapshot()
	return t
}

func tableDiff(snap interface{}) string {
	t := snap.(*tables)
	odd, oddShl := curve.VerifOddMultiples()
	for j := range odd {
		if !rawEq(&odd[j], &t.odd[j]) {
			return fmt.Sprintf("AFFINE_ODD_MULTIPLES_OF_BASEPOINT[%d]", j)
		}
		if !rawEq(&oddShl[j], &t.oddShl[j]) {
			return fmt.Sprintf("AFFINE_ODD_MULTIPLES_OF_B_SHL_128[%d]", j)
		}
	}
	if live, ok := curve.VerifLiveBasepointTable(); ok && t.liveOK && !rawEq(&live, &t.live) {
		return "ED25519_BASEPOINT_TABLE (live copy)"
	}
	return vecDiff(t.vec)
}

// rawEq compares the memory of two values (limb arrays without pointers or padding).
func rawEq[T any](a, b *T) bool {
	n := unsafe.Sizeof(*a)
	return bytes.Equal(unsafe.Slice((*byte)(unsafe.Pointer(a)), n), unsafe.Slice((*byte)(unsafe.Pointer(b)), n))
}
