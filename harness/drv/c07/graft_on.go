//go:build verif

package main

import (
	"bytes"
	"fmt"
	"math/big"

	"github.com/oasisprotocol/curve25519-voi/internal/field"
	"github.com/oasisprotocol/curve25519-voi/zzverif/gx"
	"github.com/oasisprotocol/curve25519-voi/zzverif/mon"
	"github.com/oasisprotocol/curve25519-voi/zzverif/ref"
)

// fieldContract: the ladder is only the RFC function for every u if the field operations it is built from are
// exact on the weakly-reduced representations it feeds them. The multiply-by-(A+2)/4 step is used by nothing
// else in the library, so it is driven here directly on weakly reduced limbs (< 2^51 + 2^13 on the 64-bit
// backend), including operands whose partial products end just below a 64-bit word boundary.
func fieldContract(r *mon.Run, c Case) {
	if gx.FieldBackend() != "u64" {
		return
	}
	rng := r.Rng(fmt.Sprintf("c07/field-contract/%d", c.Idx))
	w := gx.FieldLimbWeights()
	for i := 0; i < 400; i++ {
		l := gx.WordBoundary121666(rng, 1<<51+1<<13)
		fe := gx.FieldFromLimbs(l)
		v := new(big.Int)
		for j, x := range l {
			v.Add(v, new(big.Int).Lsh(new(big.Int).SetUint64(x), w[j]))
		}
		want := new(big.Int).Mul(v, big.NewInt(121666))
		want.Mod(want, ref.P)
		var out field.Element
		out.Mul121666(&fe)
		var got [32]byte
		out.ToBytes(got[:])
		r.Eval([]byte(fmt.Sprint("fc", l)))
		r.Hist("field-contract/Mul121666")
		if !bytes.Equal(got[:], ref.LE32(want)) {
			r.Violate("x25519/ladder-field-contract/Mul121666", fmt.Sprintf("limbs %x: got %x want %x", l, got[:], ref.LE32(want)), c)
		}
	}
}
