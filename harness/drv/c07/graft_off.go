//go:build !verif

package main

import "github.com/oasisprotocol/curve25519-voi/zzverif/mon"

func fieldContract(r *mon.Run, c Case) { r.HookMissing("field graft (ladder field contract)") }
