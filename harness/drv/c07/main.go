// C07: X25519 is the RFC 7748 function on every input and rejects low-order results.
// Monitor: every X25519 / ScalarMult / ScalarBaseMult / DH / conversion call is shadowed by a
// big-integer RFC 7748 ladder, x/crypto/curve25519 and crypto/ecdh.
package main

import (
	"bytes"
	"crypto/ecdh"
	"crypto/sha512"
	"fmt"
	"math/big"

	xc "golang.org/x/crypto/curve25519"

	"github.com/oasisprotocol/curve25519-voi/primitives/ed25519"
	"github.com/oasisprotocol/curve25519-voi/primitives/x25519"
	"github.com/oasisprotocol/curve25519-voi/zzverif/entropy"
	"github.com/oasisprotocol/curve25519-voi/zzverif/gen"
	"github.com/oasisprotocol/curve25519-voi/zzverif/mon"
	"github.com/oasisprotocol/curve25519-voi/zzverif/ref"
)

type Case struct {
	Kind string `json:"kind"`
	K    string `json:"k,omitempty"`
	U    string `json:"u,omitempty"`
	Idx  int    `json:"idx,omitempty"`
}

var zero32 = make([]byte, 32)

func uCatalogue(r *mon.Run) [][]byte {
	var us [][]byte
	addU := func(v *big.Int) {
		if v.Sign() >= 0 && v.BitLen() <= 255 {
			us = append(us, ref.LE32(v))
			w := new(big.Int).SetBit(new(big.Int).Set(v), 255, 1)
			us = append(us, ref.LE32(w))
		}
	}
	// the low-order u-coordinates: 0, 1, p-1, the two order-8 values, and their non-canonical forms
	lo1, _ := new(big.Int).SetString("325606250916557431795983626356110631294008115727848805560023387167927233504", 10)
	lo2, _ := new(big.Int).SetString("39382357235489614581723060781553021112529911719440698176882885853963445705823", 10)
	for _, v := range []*big.Int{big.NewInt(0), big.NewInt(1), lo1, lo2, new(big.Int).Sub(ref.P, big.NewInt(1))} {
		addU(v)
		addU(new(big.Int).Add(ref.P, v))
	}
	for e := int64(-40); e < 19; e++ {
		addU(new(big.Int).Add(ref.P, big.NewInt(e)))
	}
	for _, v := range []int64{2, 3, 4, 5, 9, 10, 16, 121665, 121666, 486662} {
		addU(big.NewInt(v))
	}
	// strings that resemble the base point (the checked entry point has a fast path for it): 9 with one other
	// bit set, 9 with one byte replaced
	for bit := 0; bit < 256; bit++ {
		u := make([]byte, 32)
		u[0] = 9
		u[bit/8] ^= 1 << uint(bit%8)
		us = append(us, u)
	}
	for pos := 1; pos < 32; pos++ {
		for _, b := range []byte{0x01, 0x55, 0x7f, 0x80, 0xff} {
			u := make([]byte, 32)
			u[0] = 9
			u[pos] = b
			us = append(us, u)
		}
	}
	return us
}

func kCatalogue() [][]byte {
	var ks [][]byte
	for _, b := range []byte{0, 1, 7, 8, 0xff, 0x80, 0x40, 0x7f, 0xf8, 0x88, 0x77, 0xaa, 0x55} {
		ks = append(ks, bytes.Repeat([]byte{b}, 32))
	}
	// values differing only in the five clamped bits
	base := bytes.Repeat([]byte{0x5a}, 32)
	for m := 0; m < 8; m++ {
		for t := 0; t < 4; t++ {
			k := append([]byte{}, base...)
			k[0] = k[0]&^7 | byte(m)
			k[31] = k[31]&^0xc0 | byte(t)<<6
			ks = append(ks, k)
		}
	}
	for _, bit := range []int{0, 3, 63, 64, 127, 128, 191, 192, 253, 254, 255} {
		k := make([]byte, 32)
		k[bit/8] = 1 << uint(bit%8)
		ks = append(ks, k)
	}
	return ks
}

// groupScalars: see the comment inside.
func groupScalars() [][]byte {
	var ks [][]byte
	// scalars that are special with respect to the GROUP rather than to their bit pattern: clamped values jL + e (a
	// multiple of 8 in [2^254, 2^255), so j = 4..7) act on the base point like the small integer e: e = -1 and 1 give
	// the generator's own u-coordinate back, e = +-2 the doubling, e = 0 cannot occur for the prime-order base point but
	// makes points of the subgroup vanish in the variable-base ladder when the peer's point has small cofactor part.
	// Each in two raw forms (already clamped; low bits and bit 255 set, which clamping removes again)
	for j := int64(4); j <= 7; j++ {
		for e := int64(-40); e <= 40; e++ {
			k := new(big.Int).Add(new(big.Int).Mul(big.NewInt(j), ref.L), big.NewInt(e))
			if k.Bit(0) != 0 || k.Bit(1) != 0 || k.Bit(2) != 0 || k.BitLen() != 255 {
				continue
			}
			raw := ref.LE32(k)
			ks = append(ks, raw)
			raw2 := append([]byte{}, raw...)
			raw2[0] |= byte(1 + (j+e+80)%7)
			raw2[31] |= 0x80
			ks = append(ks, raw2)
		}
	}
	return ks
}

type ctx struct {
	r *mon.Run
}

func (x *ctx) pair(c Case) {
	k, u := mon.UnHex(c.K), mon.UnHex(c.U)
	r := x.r
	want := ref.X25519(k, u)
	isZero := bytes.Equal(want, zero32)
	r.Journal("c07 pair k=%x u=%x", k, u)
	r.Eval(append(append([]byte{}, k...), u...))
	r.Hist(fmt.Sprintf("pair/result-zero=%v/u-bit255=%v", isZero, u[31]&0x80 != 0))
	var dst, kk, uu [32]byte
	copy(kk[:], k)
	copy(uu[:], u)
	if pan, msg := mon.Try(func() { x25519.ScalarMult(&dst, &kk, &uu) }); pan {
		r.Violate("x25519/ScalarMult/panic", msg, c)
	} else if !bytes.Equal(dst[:], want) {
		r.Violate("x25519/ScalarMult", fmt.Sprintf("got %x want %x", dst[:], want), c)
	}
	if !bytes.Equal(kk[:], k) || !bytes.Equal(uu[:], u) {
		r.Violate("x25519/ScalarMult/mutates-input", "inputs modified", c)
	}
	// every aliasing pattern of ScalarMult's three arrays
	{
		a := kk
		if pan, msg := mon.Try(func() { x25519.ScalarMult(&a, &a, &uu) }); pan || !bytes.Equal(a[:], want) {
			r.Violate("x25519/ScalarMult/aliased(dst=in)", fmt.Sprintf("%s got %x want %x", msg, a[:], want), c)
		}
		a = uu
		if pan, msg := mon.Try(func() { x25519.ScalarMult(&a, &kk, &a) }); pan || !bytes.Equal(a[:], want) {
			r.Violate("x25519/ScalarMult/aliased(dst=base)", fmt.Sprintf("%s got %x want %x", msg, a[:], want), c)
		}
		r.EvalN(2)
	}
	if (k[1]^u[2])&7 == 0 { // one pair in eight (the reference ladder dominates the cost)
		a := kk
		wantKK := ref.X25519(k, k)
		if pan, msg := mon.Try(func() { x25519.ScalarMult(&a, &a, &a) }); pan || !bytes.Equal(a[:], wantKK) {
			r.Violate("x25519/ScalarMult/aliased(all)", fmt.Sprintf("%s got %x want %x", msg, a[:], wantKK), c)
		}
		a = kk
		var d2 [32]byte
		if pan, msg := mon.Try(func() { x25519.ScalarMult(&d2, &a, &a) }); pan || !bytes.Equal(d2[:], wantKK) || a != kk {
			r.Violate("x25519/ScalarMult/aliased(in=base)", fmt.Sprintf("%s got %x want %x", msg, d2[:], wantKK), c)
		}
		r.EvalN(2)
	}
	var got []byte
	var err error
	if pan, msg := mon.Try(func() { got, err = x25519.X25519(k, u) }); pan {
		r.Violate("x25519/X25519/panic", msg, c)
		return
	}
	if (err != nil) != isZero {
		r.Violate(fmt.Sprintf("x25519/X25519/error-condition/zero=%v", isZero), fmt.Sprintf("err=%v but RFC result all-zero=%v", err, isZero), c)
	} else if err == nil && !bytes.Equal(got, want) {
		r.Violate("x25519/X25519", fmt.Sprintf("got %x want %x", got, want), c)
	} else if err != nil && got != nil {
		r.Violate("x25519/X25519/result-with-error", "non-nil result returned with an error", c)
	}
	// second oracle
	xcOut, xcErr := xc.X25519(k, u)
	if (xcErr != nil) != isZero || (xcErr == nil && !bytes.Equal(xcOut, want)) {
		mon.Fatalf("ORACLE-CONFLICT x/crypto vs reference ladder k=%x u=%x", k, u)
	}
	// DH objects
	var priv x25519.PrivateKey
	var pub x25519.PublicKey
	copy(priv[:], k)
	copy(pub[:], u)
	ss := priv.DiffieHellman(&pub)
	if !bytes.Equal(ss[:], want) {
		r.Violate("x25519/DiffieHellman", fmt.Sprintf("got %x want %x", ss[:], want), c)
	}
	if ss.IsZero() != isZero {
		r.Violate("x25519/SharedSecret.IsZero", fmt.Sprintf("IsZero=%v want %v", ss.IsZero(), isZero), c)
	}
	r.EvalN(4)
}

func (x *ctx) base(c Case) {
	k := mon.UnHex(c.K)
	r := x.r
	nine := make([]byte, 32)
	nine[0] = 9
	want := ref.X25519(k, nine)
	r.Eval(append([]byte("base"), k...))
	var dst, kk [32]byte
	copy(kk[:], k)
	if pan, msg := mon.Try(func() { x25519.ScalarBaseMult(&dst, &kk) }); pan {
		r.Violate("x25519/ScalarBaseMult/panic", msg, c)
	} else if !bytes.Equal(dst[:], want) {
		r.Violate("x25519/ScalarBaseMult", fmt.Sprintf("got %x want %x", dst[:], want), c)
	}
	a := kk
	if pan, msg := mon.Try(func() { x25519.ScalarBaseMult(&a, &a) }); pan || !bytes.Equal(a[:], want) {
		r.Violate("x25519/ScalarBaseMult/aliased(dst=in)", fmt.Sprintf("%s got %x want %x", msg, a[:], want), c)
	}
	if kk2 := kk; !bytes.Equal(kk2[:], k) {
		r.Violate("x25519/ScalarBaseMult/mutates-input", "scalar modified", c)
	}
	g, err := x25519.X25519(k, x25519.Basepoint) // the fixed-base fast path (pointer identity)
	if err != nil || !bytes.Equal(g, want) {
		r.Violate("x25519/X25519(Basepoint)", fmt.Sprintf("err=%v got %x want %x", err, g, want), c)
	}
	g2, err := x25519.X25519(k, append([]byte{}, nine...)) // an equal copy takes the ladder
	if err != nil || !bytes.Equal(g2, want) {
		r.Violate("x25519/X25519(copy of basepoint)", fmt.Sprintf("err=%v got %x want %x", err, g2, want), c)
	}
	var priv x25519.PrivateKey
	copy(priv[:], k)
	if p := priv.Public(); !bytes.Equal(p[:], want) {
		r.Violate("x25519/PrivateKey.Public", fmt.Sprintf("got %x want %x", p[:], want), c)
	}
	// symmetric DH with a second key, cross-checked with crypto/ecdh
	k2 := sha512.Sum512_256(k)
	var priv2 x25519.PrivateKey
	copy(priv2[:], k2[:])
	s1 := priv.DiffieHellman(priv2.Public())
	s2 := priv2.DiffieHellman(priv.Public())
	if !bytes.Equal(s1[:], s2[:]) {
		r.Violate("x25519/DH-asymmetric", fmt.Sprintf("%x vs %x", s1[:], s2[:]), c)
	}
	if ek, err := ecdh.X25519().NewPrivateKey(k); err == nil {
		if ek2, err := ecdh.X25519().NewPrivateKey(k2[:]); err == nil {
			if es, err := ek.ECDH(ek2.PublicKey()); err == nil && !bytes.Equal(es, s1[:]) {
				r.Violate("x25519/DH-vs-crypto/ecdh", fmt.Sprintf("%x vs %x", s1[:], es), c)
			}
			if !bytes.Equal(ek.PublicKey().Bytes(), want) {
				mon.Fatalf("ORACLE-CONFLICT crypto/ecdh public key vs reference")
			}
		}
	}
	r.EvalN(5)
}

func (x *ctx) lengths(c Case) {
	r := x.r
	good := bytes.Repeat([]byte{9}, 32)
	for l := 0; l <= 72; l++ {
		if l == 32 {
			continue
		}
		for _, which := range []int{0, 1} {
			k, u := good, good
			if which == 0 {
				k = bytes.Repeat([]byte{1}, l)
			} else {
				u = bytes.Repeat([]byte{9}, l)
			}
			var out []byte
			var err error
			pan, msg := mon.Try(func() { out, err = x25519.X25519(k, u) })
			r.Eval([]byte(fmt.Sprintf("len%d/%d", which, l)))
			if pan || err == nil || out != nil {
				r.Violate("x25519/X25519/length", fmt.Sprintf("len(scalar)=%d len(point)=%d: panic=%v(%s) err=%v out=%x", len(k), len(u), pan, msg, err, out), c)
			}
		}
	}
	// wrong-length points that are re-slices of the exported Basepoint (same first element, other length), and a
	// 32-byte re-slice of a longer buffer that merely starts with the base point
	for l := 0; l < 32; l++ {
		var o2 []byte
		var e2 error
		pan, msg := mon.Try(func() { o2, e2 = x25519.X25519(good, x25519.Basepoint[:l]) })
		r.Eval([]byte(fmt.Sprintf("basepoint-prefix/%d", l)))
		if pan || e2 == nil || o2 != nil {
			r.Violate("x25519/X25519/length/Basepoint-prefix", fmt.Sprintf("X25519(k, Basepoint[:%d]): panic=%v(%s) err=%v out=%x", l, pan, msg, e2, o2), c)
		}
	}
	var out []byte
	var err error
	pan, msg := mon.Try(func() { out, err = x25519.X25519(nil, nil) })
	if pan || err == nil || out != nil {
		r.Violate("x25519/X25519/nil", fmt.Sprintf("panic=%v(%s) err=%v", pan, msg, err), c)
	}
}

// conversions: X25519(conv(priv), 9) == conv(pub); conv(pub) is the birational image for every decodable key.
func (x *ctx) conv(c Case) {
	r := x.r
	rng := r.Rng(fmt.Sprintf("c07/conv/%d", c.Idx))
	seed := mon.Bytes(rng, 32)
	switch c.Idx {
	case 0:
		seed = make([]byte, 32)
	case 1:
		seed = bytes.Repeat([]byte{0xff}, 32)
	}
	priv := ed25519.NewKeyFromSeed(seed)
	xp := x25519.EdPrivateKeyToX25519(priv)
	h := sha512.Sum512(seed)
	wantPriv := append([]byte{}, h[:32]...)
	wantPriv[0] &= 248
	wantPriv[31] &= 127
	wantPriv[31] |= 64
	r.Eval(append([]byte("conv"), seed...))
	if !bytes.Equal(xp, wantPriv) {
		r.Violate("x25519/EdPrivateKeyToX25519", fmt.Sprintf("got %x want %x", xp, wantPriv), c)
	}
	pub, ok := x25519.EdPublicKeyToX25519(priv.Public().(ed25519.PublicKey))
	nine := make([]byte, 32)
	nine[0] = 9
	want := ref.X25519(xp, nine)
	if !ok || !bytes.Equal(pub, want) {
		r.Violate("x25519/EdPublicKeyToX25519/pair", fmt.Sprintf("ok=%v got %x want X25519(conv(priv),9)=%x", ok, pub, want), c)
	}
	// every decodable class of public key: torsion, mixed order, non-canonical; undecodable -> false; wrong length -> false
	var keys [][]byte
	keys = append(keys, gen.SpecialEncodings()...)
	A := ref.Decode(priv[32:]).Pt
	for _, t := range gen.Tors {
		keys = append(keys, ref.Encode(A.Add(t)))
	}
	for i := 0; i < 20; i++ {
		keys = append(keys, mon.Bytes(rng, 32))
	}
	for _, k := range keys {
		d := ref.Decode(k)
		got, ok := x25519.EdPublicKeyToX25519(k)
		r.Eval(append([]byte("pk"), k...))
		r.Hist(fmt.Sprintf("conv/decodable=%v", d.OK))
		if ok != d.OK {
			r.Violate("x25519/EdPublicKeyToX25519/accept", fmt.Sprintf("key %x: ok=%v reference decodable=%v", k, ok, d.OK), c)
			continue
		}
		if ok {
			w := edToMontU(d.Pt)
			if !bytes.Equal(got, w) {
				r.Violate("x25519/EdPublicKeyToX25519/value", fmt.Sprintf("key %x: got %x want %x", k, got, w), c)
			}
		} else if got != nil {
			r.Violate("x25519/EdPublicKeyToX25519/result-on-failure", fmt.Sprintf("key %x", k), c)
		}
	}
	for _, l := range []int{0, 1, 31, 33, 64} {
		got, ok := x25519.EdPublicKeyToX25519(make([]byte, l))
		if ok || got != nil {
			r.Violate("x25519/EdPublicKeyToX25519/length", fmt.Sprintf("len=%d accepted", l), c)
		}
	}
	// key generation from an entropy stream: private = SHA-512/256(seed), public = X25519(private, 9)
	pk, sk, err := x25519.GenerateKey(bytes.NewReader(seed))
	d := sha512.Sum512_256(seed)
	if err != nil || !bytes.Equal(sk[:], d[:]) || !bytes.Equal(pk[:], ref.X25519(d[:], nine)) {
		r.Violate("x25519/GenerateKey", fmt.Sprintf("err=%v", err), c)
	}
	if _, _, err := x25519.GenerateKey(bytes.NewReader(seed[:31])); err == nil {
		r.Violate("x25519/GenerateKey/short-entropy", "31 bytes of entropy produced a key", c)
	}
}

func edToMontU(p ref.Pt) []byte {
	one := big.NewInt(1)
	den := new(big.Int).Sub(one, p.Y)
	den.Mod(den, ref.P)
	if den.Sign() == 0 {
		return make([]byte, 32)
	}
	u := new(big.Int).Add(one, p.Y)
	u.Mul(u, new(big.Int).ModInverse(den, ref.P))
	u.Mod(u, ref.P)
	return ref.LE32(u)
}

// entropyCase: the entropy-consuming APIs of this property behind differently behaving readers (package entropy).
func entropyCase(r *mon.Run, c Case) {
	entropy.Check(r, "C07", r.Rng(fmt.Sprintf("c07/entropy/%d", c.Idx)), func(sig, what string) { r.Violate(sig, what, c) })
}

// tamper: the exported Basepoint slice is caller-writable memory. If its contents are changed in place, X25519 called
// with that slice must either compute with the bytes it is given (RFC 7748 for that u) or refuse loudly (the library
// documents a panic) - never silently take the fixed-base shortcut for u = 9. Runs alone, after the parallel phase,
// and restores the bytes.
func tamper(r *mon.Run) {
	c := Case{Kind: "tamper"}
	orig := append([]byte{}, x25519.Basepoint...)
	defer copy(x25519.Basepoint, orig)
	rng := r.Rng("c07/tamper")
	for i := 0; i < 24; i++ {
		copy(x25519.Basepoint, orig)
		switch i % 3 {
		case 0:
			x25519.Basepoint[rng.IntN(32)] ^= 1 << uint(rng.IntN(8))
		case 1:
			x25519.Basepoint[0] = byte(10 + i)
		default:
			copy(x25519.Basepoint, mon.Bytes(rng, 32))
		}
		k := mon.Bytes(rng, 32)
		cur := append([]byte{}, x25519.Basepoint...)
		want := ref.X25519(k, cur)
		var got []byte
		var err error
		pan, _ := mon.Try(func() { got, err = x25519.X25519(k, x25519.Basepoint) })
		r.Eval(append([]byte("tamper"), cur...))
		r.Hist(fmt.Sprintf("tamper/refused=%v", pan))
		isZero := bytes.Equal(want, zero32)
		if !pan && ((err != nil) != isZero || (err == nil && !bytes.Equal(got, want))) {
			r.Violate("x25519/X25519/modified-Basepoint-slice", fmt.Sprintf("Basepoint slice holds %x: got %x err=%v, RFC 7748 for these bytes %x (no refusal either)", cur, got, err, want), c)
		}
	}
}

func runCase(r *mon.Run, c Case) {
	if c.Kind == "entropy" {
		entropyCase(r, c)
		return
	}
	x := &ctx{r}
	switch c.Kind {
	case "pair":
		x.pair(c)
	case "base":
		x.base(c)
	case "lengths":
		x.lengths(c)
	case "conv":
		x.conv(c)
	case "field-contract":
		fieldContract(r, c)
	case "tamper":
		tamper(r)
	}
}

func main() {
	r := mon.Start("C07", "u in {all low-order values 0,1,p-1,order-8 pair and their +p / bit-255 forms, every u in [p-40,p+18], small values, twist and curve points from the PRNG} x scalars in {byte fills, all settings of the five clamped bits, single bits, PRNG}; X25519/ScalarMult/ScalarBaseMult/Basepoint fast path/DH objects vs the big-integer RFC 7748 ladder, x/crypto/curve25519 and crypto/ecdh; lengths 0..72; Ed25519->X25519 conversions for seeds and every decodable class of public key; non-trivial = (scalar,u) pair; distinct = SHA-256 of (k,u)")
	var c Case
	if r.LoadReplay(&c) {
		runCase(r, c)
		r.Finish()
		return
	}
	rng := r.Rng("c07")
	us := uCatalogue(r)
	ks := kCatalogue()
	var cases []Case
	for i := 0; i < r.Pick(6, 60); i++ {
		ks = append(ks, mon.Bytes(rng, 32))
	}
	// group-structured scalars: through every base-point entry point, and against a handful of peer values (the base
	// point as an ordinary argument, two catalogue entries, a PRNG value) rather than the whole catalogue
	for gi, k := range groupScalars() {
		nine := make([]byte, 32)
		nine[0] = 9
		cases = append(cases, Case{Kind: "base", K: mon.Hex(k)}, Case{Kind: "pair", K: mon.Hex(k), U: mon.Hex(nine)},
			Case{Kind: "pair", K: mon.Hex(k), U: mon.Hex(us[gi%len(us)])}, Case{Kind: "pair", K: mon.Hex(k), U: mon.Hex(mon.Bytes(rng, 32))})
	}
	nrand := r.Pick(20, 400)
	stride := r.Pick(2, 1)
	for ki, k := range ks {
		for ui, u := range us {
			if (ki+ui)%stride != 0 && ki >= 13 {
				continue
			}
			cases = append(cases, Case{Kind: "pair", K: mon.Hex(k), U: mon.Hex(u)})
		}
		for i := 0; i < nrand/len(ks)+1; i++ {
			cases = append(cases, Case{Kind: "pair", K: mon.Hex(k), U: mon.Hex(mon.Bytes(rng, 32))})
		}
		cases = append(cases, Case{Kind: "base", K: mon.Hex(k)})
	}
	for i := 0; i < r.Pick(3000, 150000); i++ {
		cases = append(cases, Case{Kind: "pair", K: mon.Hex(mon.Bytes(rng, 32)), U: mon.Hex(mon.Bytes(rng, 32))})
	}
	// structured outputs: results with a single non-zero byte / 32-bit word / 64-bit word at every offset, obtained by
	// constructing the peer value Q = [clamp(k)^-1]R for a prime-order R (curve or twist) whose u is the target: the
	// all-zero test must not be confused by sparse results, and the output must be exact
	nStruct := 0
	for _, wbytes := range []int{1, 4, 8} {
		for off := 0; off+wbytes <= 32; off += wbytes {
			for rep := 0; rep < r.Pick(1, 6); rep++ {
				k := mon.Bytes(rng, 32)
				for try := 0; try < 200; try++ {
					w := make([]byte, 32)
					copy(w[off:], mon.Bytes(rng, wbytes))
					if wbytes == 1 && try < 2 {
						w[off] = byte(1 << (7 * try)) // 0x01, 0x80
					}
					w[31] &= 0x7f
					t := ref.FromLE(w)
					q := ref.X25519Preimage(k, t)
					if q == nil {
						continue
					}
					if !bytes.Equal(ref.X25519(k, q), w) {
						mon.Fatalf("preimage construction failed: k=%x q=%x target=%x", k, q, w)
					}
					cases = append(cases, Case{Kind: "pair", K: mon.Hex(k), U: mon.Hex(q)})
					r.HistN(fmt.Sprintf("pair/structured-output/width=%d", wbytes), 1)
					nStruct++
					break
				}
			}
		}
	}
	// ... and results whose words cancel under XOR / sum accumulators (an all-zero test rewritten word-wise)
	for _, d := range gen.CancelPatterns(rng, r.Pick(80, 600)) {
		k := mon.Bytes(rng, 32)
		if q := ref.X25519Preimage(k, ref.FromLE(d)); q != nil {
			if !bytes.Equal(ref.X25519(k, q), d) {
				mon.Fatalf("preimage construction failed: k=%x q=%x target=%x", k, q, d)
			}
			cases = append(cases, Case{Kind: "pair", K: mon.Hex(k), U: mon.Hex(q)})
			r.HistN("pair/structured-output/cancelling-words", 1)
			nStruct++
		}
	}
	if nStruct < 40 {
		r.Inconclusive(fmt.Sprintf("only %d structured-output cases could be constructed", nStruct))
	}
	// u for which the first ladder step multiplies a word-boundary value by 121666 (see gen.LadderFirstStepU)
	for i := 0; i < r.Pick(300, 6000); i++ {
		cases = append(cases, Case{Kind: "pair", K: mon.Hex(mon.Bytes(rng, 32)), U: mon.Hex(gen.LadderFirstStepU(rng))})
		r.HistN("pair/ladder-first-step-word-boundary-u", 1)
	}
	cases = append(cases, Case{Kind: "lengths"})
	for i := 0; i < r.Pick(20, 400); i++ {
		cases = append(cases, Case{Kind: "field-contract", Idx: i})
	}
	for i := 0; i < r.Pick(40, 1500); i++ {
		cases = append(cases, Case{Kind: "conv", Idx: i})
	}
	r.Observe("cases", len(cases))
	r.Parallel(len(cases), func(i int) { runCase(r, cases[i]) })
	tamper(r)
	r.Sample("case", cases[0])
	r.Sample("case", cases[len(cases)/3])
	r.Sample("case", cases[len(cases)-1])
	if r.HistGet("pair/result-zero=true/u-bit255=false") == 0 || r.HistGet("pair/result-zero=true/u-bit255=true") == 0 {
		r.Inconclusive("no low-order input observed")
	}
	for i := 0; i < r.Pick(6, 60); i++ {
		entropyCase(r, Case{Kind: "entropy", Idx: i})
	}
	r.Finish()
}
