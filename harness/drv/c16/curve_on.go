//go:build verif

package main

import (
	"github.com/oasisprotocol/curve25519-voi/curve"
	"github.com/oasisprotocol/curve25519-voi/curve/scalar"
)

// internalTriples calls the generic and vector internals directly, irrespective of dispatch.
func internalTriples(run func(string, func() bool), sa, sb *scalar.Scalar, A, C *curve.EdwardsPoint) {
	run("internal/TripleGeneric", func() bool {
		return curve.VerifTripleGeneric(curve.NewEdwardsPoint(), sa, A, sb, C).IsSmallOrder()
	})
	if !curve.VerifVector() {
		run("internal/ExpandedTripleGeneric", func() bool {
			return curve.VerifExpandedTripleGeneric(curve.NewEdwardsPoint(), sa, curve.NewExpandedEdwardsPoint(A), sb, C).IsSmallOrder()
		})
	} else {
		vectorTriple(run, sa, sb, A, C)
	}
}
