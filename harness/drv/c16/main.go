//go:build verif || verifmin

// C16: short-vector reduction and the delta-scaled verification equation are sound.
// Monitors: (1) postcondition of every FindShortVector call on adversarially structured k,
// with termination decided on loop ticks of the instrumented build; (2) small-order
// equivalence of TripleScalarMulBasepointVartime (plain / expanded, Edwards / Ristretto)
// with [a]A + [b]B - C on torsion-laden operands via discrete-log bookkeeping.
package main

import (
	"bytes"
	"fmt"
	"github.com/oasisprotocol/curve25519-voi/zzverif/corpus"
	"math/big"
	"math/rand/v2"
	"sync"
	"sync/atomic"

	"github.com/oasisprotocol/curve25519-voi/curve"
	"github.com/oasisprotocol/curve25519-voi/curve/scalar"
	"github.com/oasisprotocol/curve25519-voi/internal/lattice"
	"github.com/oasisprotocol/curve25519-voi/internal/zzverifrt"
	"github.com/oasisprotocol/curve25519-voi/zzverif/gen"
	"github.com/oasisprotocol/curve25519-voi/zzverif/gx"
	"github.com/oasisprotocol/curve25519-voi/zzverif/mon"
	"github.com/oasisprotocol/curve25519-voi/zzverif/ref"
)

type Case struct {
	Kind   string `json:"kind"`
	K      string `json:"k,omitempty"` // hex
	Stream string `json:"stream,omitempty"`
}

var L = ref.L

// budgets in loop ticks: >= 100x the maxima observed on the unchanged tree (reported in the evidence)
const (
	svBudget     = 200_000    // observed maximum ~ 1.1k
	tripleBudget = 20_000_000 // observed maximum ~ 30k
)

func sc(v *big.Int) *scalar.Scalar {
	s, err := scalar.NewFromBits(ref.LE32(v))
	if err != nil {
		mon.Fatalf("NewFromBits: %v", err)
	}
	return s
}

func i128(x lattice.Int128) *big.Int {
	hi, lo := lattice.VerifParts(x)
	v := new(big.Int).Lsh(big.NewInt(hi), 64)
	return v.Add(v, new(big.Int).SetUint64(lo))
}

func guarded(budget int64, f func()) (ticks int64, exceeded, panicked bool, msg string) {
	zzverifrt.Arm(budget)
	func() {
		defer func() {
			if e := recover(); e != nil {
				if _, ok := e.(zzverifrt.BudgetExceeded); ok {
					exceeded = true
				} else {
					panicked, msg = true, fmt.Sprint(e)
				}
			}
		}()
		f()
	}()
	ticks = zzverifrt.Ticks()
	zzverifrt.Arm(0)
	return
}

// nonTerminating counts scalars on which the reduction exceeded its budget; after a few dozen the verdict is clear
// and the remaining phases (which would spend their whole budgets the same way) are skipped.
var nonTerminating int

func shortVector(r *mon.Run, k *big.Int) {
	c := Case{Kind: "k", K: fmt.Sprintf("%x", k)}
	r.Journal("c16 k=%x", k)
	r.Eval(k.Bytes())
	var d0, d1 lattice.Int128
	s := sc(k)
	ticks, exceeded, panicked, msg := guarded(svBudget, func() { d0, d1 = lattice.FindShortVector(s) })
	r.Max("FindShortVector/loop-ticks", ticks)
	switch {
	case exceeded:
		nonTerminating++
		r.Violate("lattice/FindShortVector/non-termination", fmt.Sprintf("k=%x: more than %d loop iterations (observed maximum on correct code ~1.1k)", k, svBudget), c)
		return
	case panicked:
		r.Violate("lattice/FindShortVector/panic", fmt.Sprintf("k=%x: %s", k, msg), c)
		return
	}
	b0, b1 := i128(d0), i128(d1)
	r.Max("FindShortVector/max-bits", int64(max(b0.BitLen(), b1.BitLen())))
	r.Hist(fmt.Sprintf("FindShortVector/signs d0<0=%v d1<0=%v", b0.Sign() < 0, b1.Sign() < 0))
	if b0.Sign() == 0 && b1.Sign() == 0 {
		r.Violate("lattice/FindShortVector/zero-vector", fmt.Sprintf("k=%x", k), c)
		return
	}
	lhs := new(big.Int).Mod(b0, L)
	rhs := new(big.Int).Mod(new(big.Int).Mul(b1, k), L)
	if lhs.Cmp(rhs) != 0 {
		r.Violate("lattice/FindShortVector/congruence", fmt.Sprintf("k=%x d0=%d d1=%d: d0 mod L != d1*k mod L", k, b0, b1), c)
	}
	if new(big.Int).Mod(b1, L).Sign() == 0 {
		r.Violate("lattice/FindShortVector/d1-not-invertible", fmt.Sprintf("k=%x d0=%d d1=%d", k, b0, b1), c)
	}
	// IsNegative / Abs / ToScalar as used by the triple multiplication
	hi, _ := lattice.VerifParts(d0)
	if d0.IsNegative() != (hi < 0) {
		r.Violate("lattice/Int128.IsNegative", fmt.Sprintf("k=%x", k), c)
	}
	for _, d := range []lattice.Int128{d0, d1} {
		var out scalar.Scalar
		d.ToScalar(&out)
		var ob [32]byte
		out.ToBytes(ob[:])
		want := new(big.Int).Mod(i128(d), L)
		if ref.FromLE(ob[:]).Cmp(want) != 0 {
			r.Violate("lattice/Int128.ToScalar", fmt.Sprintf("k=%x d=%d", k, i128(d)), c)
		}
	}
}

// concurrent: FindShortVector is a pure function of k; calls on different goroutines must not interfere (scratch
// space shared between calls would). G goroutines walk the scalars that take the large-shift branches; every result
// is checked against the postcondition and against the vector a single-goroutine call returns; one loop-iteration
// budget covers the whole phase.
func concurrent(r *mon.Run, ks []*big.Int) {
	var hard []*big.Int
	for _, g := range corpus.GroundKs() {
		hard = append(hard, ref.FromLE(mon.UnHex(g.K)))
	}
	for _, k := range ks {
		if len(hard) >= 600 {
			break
		}
		if bl := new(big.Int).Mod(k, L).BitLen(); (bl > 8 && bl < 225) || bl > 252 {
			hard = append(hard, new(big.Int).Mod(k, L))
		}
	}
	type res struct{ d0, d1 lattice.Int128 }
	// single-goroutine results first, each under the per-call budget: a scalar on which the reduction does not even
	// terminate alone has been reported by the sequential phase and is left out here
	var keep []*big.Int
	var want []res
	for _, k := range hard {
		var w res
		if _, exceeded, panicked, _ := guarded(svBudget, func() { w.d0, w.d1 = lattice.FindShortVector(sc(k)) }); !exceeded && !panicked {
			keep = append(keep, k)
			want = append(want, w)
		}
	}
	hard = keep
	if len(hard) == 0 {
		r.Inconclusive("no scalar left for the concurrent phase")
		return
	}
	const G, rounds = 8, 6
	var wg sync.WaitGroup
	var exceeded, wrong, calls int64
	var firstWrong atomic.Value
	zzverifrt.ArmShared(int64(G*rounds*len(hard)) * 2000) // ~50x what the phase needs
	for g := 0; g < G; g++ {
		wg.Add(1)
		go func(g int) {
			defer wg.Done()
			defer func() {
				if e := recover(); e != nil {
					if _, ok := e.(zzverifrt.BudgetExceeded); ok {
						atomic.AddInt64(&exceeded, 1)
						return
					}
					panic(e)
				}
			}()
			for round := 0; round < rounds; round++ {
				for j := range hard {
					i := (j*7 + g*13 + round) % len(hard)
					d0, d1 := lattice.FindShortVector(sc(hard[i]))
					atomic.AddInt64(&calls, 1)
					if d0 != want[i].d0 || d1 != want[i].d1 {
						if atomic.AddInt64(&wrong, 1) == 1 {
							firstWrong.Store(fmt.Sprintf("k=%x: (%d, %d) under concurrency, (%d, %d) alone", hard[i], i128(d0), i128(d1), i128(want[i].d0), i128(want[i].d1)))
						}
					}
				}
			}
		}(g)
	}
	wg.Wait()
	ticks := zzverifrt.Ticks()
	zzverifrt.Arm(0)
	r.EvalN(calls)
	r.HistN("concurrent/FindShortVector-calls", calls)
	r.Max("concurrent/loop-ticks-total", ticks)
	r.Observe("concurrent_scalars", len(hard))
	cc := Case{Kind: "concurrent"}
	if exceeded > 0 {
		r.Violate("lattice/FindShortVector/non-termination-under-concurrency", fmt.Sprintf("%d of %d goroutines were still inside FindShortVector when the phase had executed %d loop iterations (a single-goroutine pass over the same scalars takes about %d)", exceeded, G, ticks, int64(len(hard))*700), cc)
	}
	if wrong > 0 {
		r.Violate("lattice/FindShortVector/result-depends-on-concurrent-calls", fmt.Sprintf("%d results differ; first: %v", wrong, firstWrong.Load()), cc)
	}
}

// concurrentExpanded: the precomputed-key variant takes the key as a read-only input; several goroutines verifying
// against ONE shared expansion (a cached public key) must each get the answer a single goroutine gets.
func concurrentExpanded(r *mon.Run) {
	rng := r.Rng("c16/concurrent-expanded")
	xk := new(big.Int).Mod(gen.Rand255(rng), L)
	A := ref.B.Mul(xk)
	libA := gen.LibPoint(ref.Encode(A))
	shared := curve.NewExpandedEdwardsPoint(libA)
	type job struct {
		a, b *scalar.Scalar
		c    *curve.EdwardsPoint
		want bool
	}
	const G, per = 8, 120
	jobs := make([][]job, G)
	for g := range jobs {
		for i := 0; i < per; i++ {
			a, b := new(big.Int).Mod(gen.Rand255(rng), L), new(big.Int).Mod(gen.Rand255(rng), L)
			cp := A.Mul(a).Add(ref.B.Mul(b))
			want := i%3 != 0
			if !want {
				cp = cp.Add(ref.B)
			}
			jobs[g] = append(jobs[g], job{sc(a), sc(b), gen.LibPoint(ref.Encode(cp)), want})
		}
	}
	var wg sync.WaitGroup
	var wrong, exceeded, calls int64
	zzverifrt.ArmShared(int64(G*per) * 2_000_000)
	for g := 0; g < G; g++ {
		wg.Add(1)
		go func(g int) {
			defer wg.Done()
			defer func() {
				if e := recover(); e != nil {
					if _, ok := e.(zzverifrt.BudgetExceeded); ok {
						atomic.AddInt64(&exceeded, 1)
						return
					}
					panic(e)
				}
			}()
			for _, j := range jobs[g] {
				got := curve.NewEdwardsPoint().ExpandedTripleScalarMulBasepointVartime(j.a, shared, j.b, j.c).IsSmallOrder()
				atomic.AddInt64(&calls, 1)
				if got != j.want {
					atomic.AddInt64(&wrong, 1)
				}
			}
		}(g)
	}
	wg.Wait()
	zzverifrt.Arm(0)
	r.EvalN(calls)
	r.HistN("concurrent/ExpandedTriple-calls-on-a-shared-expansion", calls)
	cc := Case{Kind: "concurrent-expanded"}
	if wrong > 0 {
		r.Violate("triple/expanded/shared-expansion-under-concurrency", fmt.Sprintf("%d of %d calls on one shared expansion gave the wrong answer (true equations reported outside E[8] or false ones inside) while %d goroutines used it", wrong, calls, G), cc)
	}
	if exceeded > 0 {
		r.Violate("triple/expanded/non-termination-under-concurrency", fmt.Sprintf("%d goroutines exceeded the shared loop budget", exceeded), cc)
	}
	// and afterwards the expansion still stands for A
	if got := curve.NewEdwardsPoint().ExpandedDoubleScalarMulBasepointVartime(scalar.One(), shared, scalar.New()); !bytes.Equal(encE(got), ref.Encode(A)) {
		r.Violate("triple/expanded/shared-expansion-changed", "after concurrent use the shared expansion no longer stands for its point", cc)
	}
}

func encE(p *curve.EdwardsPoint) []byte { b, _ := p.MarshalBinary(); return b }

func kCatalogue(rng *rand.Rand, nrand int) []*big.Int {
	var ks []*big.Int
	add := func(v *big.Int) {
		if v.Sign() >= 0 && v.Cmp(gen.Two255) < 0 {
			ks = append(ks, v)
		}
	}
	es := []int64{-2, -1, 0, 1, 2}
	around := func(v *big.Int) {
		for _, e := range es {
			add(new(big.Int).Add(v, big.NewInt(e)))
		}
	}
	for _, v := range []int64{0, 1, 2, 3, 4, 5, 7, 8} {
		add(big.NewInt(v))
		add(new(big.Int).Sub(L, big.NewInt(v)))
	}
	around(new(big.Int).Rsh(L, 1))
	around(new(big.Int).Sqrt(L))
	// L / golden ratio: all partial quotients 1
	phiNum, phiDen := big.NewInt(1_000_000_000_000_000_000), big.NewInt(1_618_033_988_749_894_848)
	around(new(big.Int).Div(new(big.Int).Mul(L, phiNum), phiDen))
	for b := int64(2); b <= 64; b++ {
		for a := int64(1); a < b; a++ {
			v := new(big.Int).Mul(L, big.NewInt(a))
			v.Add(v, big.NewInt(b/2))
			add(v.Div(v, big.NewInt(b)))
		}
	}
	for i := uint(1); i < 255; i++ {
		p := new(big.Int).Lsh(big.NewInt(1), i)
		add(p)
		add(new(big.Int).Sub(p, big.NewInt(1)))
		add(new(big.Int).Add(p, big.NewInt(1)))
		add(new(big.Int).Mod(new(big.Int).Neg(p), L)) // -2^i mod L
		add(new(big.Int).Div(L, p))                   // floor(L / 2^i)
		inv := new(big.Int).ModInverse(new(big.Int).Mod(p, L), L)
		add(inv) // 2^-i mod L
		add(new(big.Int).Mod(new(big.Int).Neg(inv), L))
	}
	// near-golden scalars: continued fractions [0; 1 x i, q, 1, 1, ...] (one deviation from the all-ones expansion at
	// every depth), the neighbourhood of floor(L/phi), and - for all of them and for every entry above - the
	// non-canonical representatives k + mL below 2^255: the longest reductions live here
	golden := new(big.Int).Div(new(big.Int).Mul(L, phiNum), phiDen)
	for j := int64(-400); j <= 400; j++ {
		add(new(big.Int).Add(golden, big.NewInt(j)))
	}
	for i := 0; i < 170; i += 1 {
		for _, q := range []int64{2, 3, 5, 6, 9} {
			// convergents of [0; 1 x i, q, 1, 1, ...] until the denominator exceeds L
			hPrev, h := big.NewInt(1), big.NewInt(0)
			kPrev, kk := big.NewInt(0), big.NewInt(1)
			for n := 0; kk.Cmp(L) <= 0 && n < 400; n++ {
				a := int64(1)
				if n == i {
					a = q
				}
				h, hPrev = new(big.Int).Add(new(big.Int).Mul(big.NewInt(a), h), hPrev), h
				kk, kPrev = new(big.Int).Add(new(big.Int).Mul(big.NewInt(a), kk), kPrev), kk
			}
			add(new(big.Int).Div(new(big.Int).Mul(L, h), kk))
		}
	}
	base := len(ks)
	for idx := 0; idx < base; idx++ {
		if idx%3 == 0 || idx > base-1700 {
			for m := int64(1); m <= 7; m++ {
				add(new(big.Int).Add(ks[idx], new(big.Int).Mul(L, big.NewInt(m))))
			}
		}
	}
	around(L)
	around(new(big.Int).Lsh(L, 1))
	around(new(big.Int).Sub(gen.Two255, big.NewInt(3)))
	// rational reconstructions a / b mod L with |a| ~ 2^s, |b| ~ 2^t: the true short vector is (a, b)
	for s := uint(0); s <= 126; s += 7 {
		for t := uint(0); t <= 126; t += 7 {
			a := new(big.Int).Add(new(big.Int).Lsh(big.NewInt(1), s), new(big.Int).SetUint64(rng.Uint64N(1<<min(s, 62))))
			b := new(big.Int).Add(new(big.Int).Lsh(big.NewInt(1), t), new(big.Int).SetUint64(rng.Uint64N(1<<min(t, 62))))
			bi := new(big.Int).ModInverse(new(big.Int).Mod(b, L), L)
			if bi == nil {
				continue
			}
			v := new(big.Int).Mod(new(big.Int).Mul(a, bi), L)
			add(v)
			add(new(big.Int).Mod(new(big.Int).Neg(v), L))
		}
	}
	ks = append(ks, gen.ScalarCatalogue()...)
	for i := 0; i < nrand; i++ {
		ks = append(ks, gen.RandScalar(rng, ks[:64]))
	}
	return ks
}

// triple: result small order <=> [a]A + [b]B - C small order.
func triple(r *mon.Run, c Case, ks []*big.Int) {
	rng := r.Rng(c.Stream)
	cat := gen.ScalarCatalogue()
	for it := 0; it < 21; it++ {
		a := ks[rng.IntN(len(ks))]
		if it%3 == 0 {
			a = gen.RandModL(rng)
		}
		b := gen.RandScalar(rng, cat)
		xk := gen.RandModL(rng)
		ti, tj := int64(rng.IntN(8)), int64(rng.IntN(8))
		A := gen.KnownPoint("A", xk, ti)
		var z *big.Int
		switch it % 4 {
		case 0, 1:
			z = big.NewInt(0) // the equation holds up to torsion
		case 2:
			z = big.NewInt(1)
		default:
			z = gen.RandModL(rng)
		}
		// C = aA + bB + T_j + zB
		Cref := A.Ref.Mul(a).Add(ref.B.Mul(new(big.Int).Mod(b, L))).Add(gen.Tors[tj]).Add(ref.B.Mul(z))
		Alib := gx.Rescale(A.Lib, rng)
		rel := ""
		sameObject := false
		if it >= 12 {
			// related operands: C is chosen first, as a group element RELATED to A or B (equal, negative, double, sum,
			// the base point, the identity), and b is solved for: b = log(C) - a*x + z. Independent random C never
			// stands in any relation to A, and shortcuts for "C is A" / "C is B" are taken only here
			var ck *big.Int
			tk := ti
			switch rng.IntN(3) { // true and false equations for every relation
			case 0:
				z = big.NewInt(0)
			case 1:
				z = big.NewInt(1)
			default:
				z = gen.RandModL(rng)
			}
			switch it - 12 {
			case 0:
				rel, ck = "C=A", xk
			case 1:
				rel, ck, sameObject = "C=A (the same object)", xk, true
			case 2:
				rel, ck, tk = "C=-A", new(big.Int).Neg(xk), (8-ti)%8
			case 3:
				rel, ck, tk = "C=2A", new(big.Int).Lsh(xk, 1), (2*ti)%8
			case 4:
				rel, ck, tk = "C=B", big.NewInt(1), 0
			case 5:
				rel, ck, tk = "C=-B", big.NewInt(-1), 0
			case 6:
				rel, ck, tk = "C=O", big.NewInt(0), 0
			case 7:
				rel, ck = "C=A+B", new(big.Int).Add(xk, big.NewInt(1))
			default:
				rel, ck, tk = "C=A+T", xk, (ti+1+int64(rng.IntN(7)))%8
			}
			ck = new(big.Int).Mod(ck, L)
			b = new(big.Int).Mod(new(big.Int).Add(new(big.Int).Sub(ck, new(big.Int).Mul(a, xk)), z), L)
			Cref = ref.B.Mul(ck).Add(gen.Tors[tk])
			tj = tk
		}
		Clib := gx.Rescale(gen.LibPoint(ref.Encode(Cref)), rng)
		if sameObject {
			Clib = Alib
		}
		want := z.Sign() == 0
		sa, sb := sc(a), sc(b)
		det := func() string {
			return fmt.Sprintf("a=%x b=%x A=[%x]B+T_%d C=aA+bB+T_%d+[%x]B %s", a, b, xk, ti, tj, z, rel)
		}
		if rel != "" {
			r.Hist("triple/related-operands/" + rel)
			// self-check of the construction: aA + bB - C = zB up to torsion
			if d := A.Ref.Mul(a).Add(ref.B.Mul(b)).Add(Cref.Neg()).Mul(big.NewInt(8)); !bytes.Equal(ref.Encode(d), ref.Encode(ref.B.Mul(new(big.Int).Mod(new(big.Int).Lsh(z, 3), L)))) {
				mon.Fatalf("ORACLE: related-operand construction is wrong (%s)", rel)
			}
		}
		r.Eval([]byte(det()))
		r.Journal("c16 triple %s", det())
		r.Hist(fmt.Sprintf("triple/want-small-order=%v", want))
		run := func(name string, f func() bool) {
			var got bool
			ticks, exceeded, panicked, msg := guarded(tripleBudget, func() { got = f() })
			r.Max("triple/loop-ticks", ticks)
			r.Eval(nil)
			switch {
			case exceeded:
				r.Violate("triple/"+name+"/non-termination", det(), c)
			case panicked:
				r.Violate("triple/"+name+"/panic", msg+"; "+det(), c)
			case got != want:
				r.Violate(fmt.Sprintf("triple/%s/want=%v", name, want), fmt.Sprintf("IsSmallOrder(result)=%v but [a]A+[b]B-C small order=%v; %s", got, want, det()), c)
			}
		}
		run("TripleScalarMulBasepointVartime", func() bool {
			return curve.NewEdwardsPoint().TripleScalarMulBasepointVartime(sa, Alib, sb, Clib).IsSmallOrder()
		})
		run("ExpandedTripleScalarMulBasepointVartime", func() bool {
			return curve.NewEdwardsPoint().ExpandedTripleScalarMulBasepointVartime(sa, curve.NewExpandedEdwardsPoint(Alib), sb, Clib).IsSmallOrder()
		})
		internalTriples(run, sa, sb, Alib, Clib)
		// Ristretto variants: representatives must lie in 2E (even torsion); identity of the quotient <=> small order... of the E[4] kind
		if ti%2 == 0 && tj%2 == 0 && gx.Available {
			rA, rC := gx.RistrettoFromEdwards(Alib), gx.RistrettoFromEdwards(Clib)
			run("Ristretto.TripleScalarMulBasepointVartime", func() bool {
				return gx.EdwardsFromRistretto(curve.NewRistrettoPoint().TripleScalarMulBasepointVartime(sa, rA, sb, rC)).IsSmallOrder()
			})
			run("Ristretto.ExpandedTripleScalarMulBasepointVartime", func() bool {
				return gx.EdwardsFromRistretto(curve.NewRistrettoPoint().ExpandedTripleScalarMulBasepointVartime(sa, curve.NewExpandedRistrettoPoint(rA), sb, rC)).IsSmallOrder()
			})
		}
	}
}

func runCase(r *mon.Run, c Case, ks []*big.Int) {
	switch c.Kind {
	case "k":
		k, _ := new(big.Int).SetString(c.K, 16)
		shortVector(r, k)
	case "triple":
		triple(r, c, ks)
	case "concurrent":
		concurrent(r, ks)
	case "concurrent-expanded":
		concurrentExpanded(r)
	}
}

func main() {
	r := mon.Start("C16", "k in {0..8, L-e, (L+-1)/2, sqrt L, L/phi (all partial quotients 1), round(aL/b) for 1<=a<b<=64, 2^i, 2^i+-1, -2^i mod L, floor(L/2^i), +-2^-i mod L for all i, L+-e, 2L+-e, 2^255-e, rational reconstructions a/b mod L on a 7-bit grid of sizes, the scalar catalogue, PRNG}: FindShortVector postcondition (non-zero, d0 = d1*k mod L, d1 invertible) in big integers with d0,d1 read as signed 128-bit values, termination on loop ticks; triple-base multiplication (plain/expanded, Edwards/Ristretto, generic/vector internals) on A=[x]B+T_i, C=aA+bB+T_j+[z]B in random projective scalings: IsSmallOrder(result) <=> z = 0; non-trivial = one k or one (a,b,A,C) tuple; distinct = SHA-256 of it")
	if r.Workers != 1 {
		r.Workers = 1 // the loop-tick counter is process-global
	}
	ks := kCatalogue(r.Rng("c16/k"), r.Pick(40000, 1500000))
	var c Case
	if r.LoadReplay(&c) {
		runCase(r, c, ks)
		r.Finish()
		return
	}
	r.Observe("k_values", len(ks))
	for _, k := range ks {
		shortVector(r, k)
		if nonTerminating >= 40 {
			r.Observe("aborted", "40 scalars exceeded the loop budget of FindShortVector; remaining scalars and phases skipped")
			r.Finish()
			return
		}
	}
	for i := 0; i < r.Pick(150, 3000); i++ {
		triple(r, Case{Kind: "triple", Stream: fmt.Sprintf("c16/triple/%d", i)}, ks)
	}
	concurrent(r, ks)
	concurrentExpanded(r)
	r.Sample("k", fmt.Sprintf("%x", ks[40]))
	r.Sample("k", fmt.Sprintf("%x", ks[len(ks)/2]))
	r.Sample("case", Case{Kind: "triple", Stream: "c16/triple/0"})
	if r.HistGet("triple/want-small-order=true") == 0 || r.HistGet("triple/want-small-order=false") == 0 {
		r.Inconclusive("triple workload did not observe both outcomes")
	}
	r.Finish()
}
