//go:build !verif

package main

import (
	"github.com/oasisprotocol/curve25519-voi/curve"
	"github.com/oasisprotocol/curve25519-voi/curve/scalar"
)

// built with the minimal observer set (the curve graft does not fit this tree): API level only
func internalTriples(run func(string, func() bool), sa, sb *scalar.Scalar, A, C *curve.EdwardsPoint) {
}
