//go:build verif && !(amd64 && !purego && !force32bit)

package main

import (
	"github.com/oasisprotocol/curve25519-voi/curve"
	"github.com/oasisprotocol/curve25519-voi/curve/scalar"
)

func vectorTriple(run func(string, func() bool), sa, sb *scalar.Scalar, A, C *curve.EdwardsPoint) {}
