//go:build verif && amd64 && !purego && !force32bit

package main

import (
	"github.com/oasisprotocol/curve25519-voi/curve"
	"github.com/oasisprotocol/curve25519-voi/curve/scalar"
)

func vectorTriple(run func(string, func() bool), sa, sb *scalar.Scalar, A, C *curve.EdwardsPoint) {
	run("internal/TripleVector", func() bool {
		return curve.VerifTripleVector(curve.NewEdwardsPoint(), sa, A, sb, C).IsSmallOrder()
	})
	run("internal/ExpandedTripleVector", func() bool {
		return curve.VerifExpandedTripleVector(curve.NewEdwardsPoint(), sa, curve.NewExpandedEdwardsPoint(A), sb, C).IsSmallOrder()
	})
}
