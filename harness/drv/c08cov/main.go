// C08 (monitor 2): per-basic-block execution counters under varying secrets.
// Built with -cover -covermode=atomic -coverpkg=<library packages>: every source-level basic
// block of the library carries an exact counter. For each operation and each secret the
// counters are cleared, the operation runs once, and the counter snapshot is hashed; all
// secrets of one operation must produce the same snapshot. Cheap, so it runs hundreds of
// secrets per operation on all four configurations and covers the large public shapes
// (190-term multiscalar) that are too slow under valgrind; it does not see assembly or
// memory indices - the lackey monitor does.
package main

import (
	"bytes"
	"crypto/sha256"
	"crypto/sha512"
	"encoding/binary"
	"fmt"
	xcurve "golang.org/x/crypto/curve25519"
	"os"
	"os/exec"
	"path/filepath"
	"runtime/coverage"
	"strings"

	"github.com/oasisprotocol/curve25519-voi/zzverif/ctops"
	"github.com/oasisprotocol/curve25519-voi/zzverif/mon"
)

type Case struct {
	Op      string `json:"op"`
	SecretA string `json:"secret_a"`
	SecretB string `json:"secret_b"`
}

func snapshot(op func(), secret [64]byte) ([32]byte, error) {
	ctops.Cur = secret
	if err := coverage.ClearCounters(); err != nil {
		return [32]byte{}, err
	}
	op()
	var buf bytes.Buffer
	if err := coverage.WriteCounters(&buf); err != nil {
		return [32]byte{}, err
	}
	return sha256.Sum256(counterPayload(buf.Bytes())), nil
}

// counterPayload strips the file header, the string table and the argument section of a coverage counter
// file (the argument section is written in map-iteration order and differs from call to call); what remains
// are the per-function counter entries, which the runtime emits in a fixed order.
func counterPayload(b []byte) []byte {
	const fileHeader, segHeader = 32, 16
	if len(b) < fileHeader+segHeader {
		return b
	}
	strTabLen := int(binary.LittleEndian.Uint32(b[fileHeader+8:]))
	argsLen := int(binary.LittleEndian.Uint32(b[fileHeader+12:]))
	off := fileHeader + segHeader + (strTabLen+argsLen+3)/4*4
	if off > len(b) {
		return b
	}
	return b[off:]
}

// dump writes the counters of one run as text (file:line.col,line.col stmts count) for diagnosis.
func dump(op func(), secret [64]byte, dir string) string {
	os.RemoveAll(dir)
	os.MkdirAll(dir, 0o755)
	ctops.Cur = secret
	coverage.ClearCounters()
	op()
	if coverage.WriteMetaDir(dir) != nil || coverage.WriteCountersDir(dir) != nil {
		return ""
	}
	out := filepath.Join(dir, "text")
	cmd := exec.Command("go", "tool", "covdata", "textfmt", "-i="+dir, "-o="+out)
	if b, err := cmd.CombinedOutput(); err != nil {
		return "covdata: " + string(b)
	}
	b, _ := os.ReadFile(out)
	return string(b)
}

func firstDiff(a, b string) string {
	la, lb := strings.Split(a, "\n"), strings.Split(b, "\n")
	var out []string
	for i := 0; i < len(la) && i < len(lb); i++ {
		if la[i] != lb[i] {
			out = append(out, fmt.Sprintf("%s  vs  %s", la[i], lb[i]))
			if len(out) >= 4 {
				break
			}
		}
	}
	return strings.Join(out, " | ")
}

func secrets(r *mon.Run, n int) [][64]byte {
	all := ctops.Secrets(14)
	rng := r.Rng("c08cov/secrets")
	for i := 0; i < n; i++ {
		var s [64]byte
		copy(s[:], mon.Bytes(rng, 64))
		switch i % 8 {
		case 1: // equal halves
			copy(s[32:], s[:32])
		case 2: // small values
			for j := 1; j < 32; j++ {
				s[j] = 0
			}
		case 3: // non-canonical field encodings p+k
			for j := 1; j < 31; j++ {
				s[j] = 0xff
			}
			s[31] = 0x7f
			s[0] = 0xed + byte(i%19)
		case 4: // top bits set
			s[31] |= 0xc0
			s[63] |= 0xc0
		}
		all = append(all, s)
	}
	return all
}

func main() {
	r := mon.Start("C08", "per-basic-block execution counters (go build -cover -covermode=atomic over the library packages) of each constant-time operation under many secrets: structured (0, ff, nibble fills, equal halves, non-canonical encodings, one-hot, L+-1) + PRNG families (equal halves, small values, p+k encodings, top bits); all secrets of one operation must give the same counter snapshot; non-trivial = (operation, secret); distinct = SHA-256 of it")
	r.Workers = 1
	ctops.Init(true)
	secs := secrets(r, r.Pick(64, 1000))
	// self-check of the precomputed structured peer values (against x/crypto, not the library under test)
	for i, sh := range ctops.PeerStructShapes {
		s2 := ctops.Secrets(3)[2]
		out, err := xcurve.X25519(s2[:32], ctops.PeerStruct(i))
		if err != nil || !bytes.Equal(out[sh[0]:sh[1]], make([]byte, sh[1]-sh[0])) || bytes.Equal(out, make([]byte, 32)) {
			mon.Fatalf("structured peer value %d does not give the advertised result shape: %x %v", i, out, err)
		}
	}
	w := sha512.Sum512([]byte("warm"))
	var warm [64]byte
	copy(warm[:], w[:])
	tmp, _ := os.MkdirTemp("", "c08cov")
	defer os.RemoveAll(tmp)
	var c Case
	replay := r.LoadReplay(&c)
	for _, name := range ctops.Names() {
		if replay && name != c.Op {
			continue
		}
		op, _ := ctops.Get(name)
		isControl := strings.HasPrefix(name, "control.")
		if _, err := snapshot(op, warm); err != nil {
			mon.Fatalf("coverage counters unavailable (binary not built with -cover -covermode=atomic?): %v", err)
		}
		ref, _ := snapshot(op, secs[0])
		again, _ := snapshot(op, secs[0])
		if ref != again {
			// ref ran after a call with another secret, again after a call with the same one. If exactly that pattern
			// repeats, the executed blocks depend on whether the secret equals the previous call's secret - a
			// comparison of secrets whose outcome shows in the control flow. Otherwise it is noise.
			snapshot(op, warm)
			r2, _ := snapshot(op, secs[0])
			a2, _ := snapshot(op, secs[0])
			snapshot(op, secs[1])
			r3, _ := snapshot(op, secs[0])
			if r2 == ref && a2 == again && r3 == ref {
				if !isControl {
					r.Violate("not-constant-time/"+name+"/depends-on-previous-secret", fmt.Sprintf("%s: the executed basic blocks differ between a call that follows one with the SAME secret and a call that follows one with another secret (reproduced twice): the secret is compared with a remembered one and the result steers control flow", name), Case{Op: name, SecretA: mon.Hex(secs[0][:]), SecretB: mon.Hex(secs[0][:])})
				}
				r.Hist("block-counter/operations")
				continue
			}
			r.Inconclusive(name + ": two runs with the same secret give different block counts (not comparable)")
			continue
		}
		flagged := false
		n := len(secs)
		if strings.Contains(name, "n=190") && r.Quick {
			n = 12
		}
		for i := 1; i < n; i++ {
			got, _ := snapshot(op, secs[i])
			r.Eval([]byte(fmt.Sprintf("%s|%x", name, secs[i])))
			if got == ref {
				continue
			}
			flagged = true
			if !isControl {
				d := firstDiff(dump(op, secs[0], filepath.Join(tmp, "a")), dump(op, secs[i], filepath.Join(tmp, "b")))
				r.Violate("not-constant-time/"+name+"/block-counts", fmt.Sprintf("%s: executed basic blocks depend on the secret (secret #%d vs #0); first differing blocks: %s", name, i, d), Case{Op: name, SecretA: mon.Hex(secs[0][:]), SecretB: mon.Hex(secs[i][:])})
			}
			break
		}
		switch {
		case isControl && name == "control.leakyBranch" && flagged:
			r.Hist("block-counter/controls-fired")
		case isControl:
			// leakyIndex has no secret-dependent control flow: this monitor must stay silent on it
		case !flagged:
			r.Hist("block-counter/operations-identical")
		}
		r.Hist("block-counter/operations")
	}
	if !replay && r.HistGet("block-counter/controls-fired") == 0 {
		r.Inconclusive("the leakyBranch control was not flagged by the block-counter monitor")
	}
	r.Observe("secrets_per_operation", len(secs))
	r.Sample("secret", mon.Hex(secs[6][:]))
	r.Sample("secret", mon.Hex(secs[len(secs)-1][:]))
	r.Finish()
}
