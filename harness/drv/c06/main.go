// C06: all arithmetic backends are observationally identical.
// Monitor: one deterministic workload calls the exported operations of every package on
// boundary and PRNG inputs and folds each call's canonical output (bytes, decisions, error
// class, panic class) into a per-operation SHA-256 chain; the orchestrator requires the
// per-operation digests of the four configurations to be equal.
package main

import (
	"crypto/sha256"
	"encoding/binary"
	"fmt"
	"hash"
	"sort"

	"github.com/oasisprotocol/curve25519-voi/zzverif/mon"
	"github.com/oasisprotocol/curve25519-voi/zzverif/workload"
)

type recorder struct {
	r      *mon.Run
	chains map[string]hash.Hash
	counts map[string]int
	detail string // when set: print per-call digests of this operation (replay of a divergence)
}

func (rc *recorder) Out(op string, parts ...[]byte) {
	h, ok := rc.chains[op]
	if !ok {
		h = sha256.New()
		rc.chains[op] = h
	}
	var l [4]byte
	d := sha256.New()
	for _, p := range parts {
		binary.LittleEndian.PutUint32(l[:], uint32(len(p)))
		h.Write(l[:])
		h.Write(p)
		d.Write(l[:])
		d.Write(p)
	}
	rc.counts[op]++
	rc.r.Eval(nil)
	if rc.detail == op {
		fmt.Printf("DETAIL %s call %d digest %x\n", op, rc.counts[op], d.Sum(nil)[:8])
	}
}

// operations whose outputs legitimately depend on system entropy
var nondeterministic = map[string]bool{}

func main() {
	r := mon.Start("C06", "one deterministic workload (catalogues of the other checks + PRNG inputs from the seed) over the exported operations of curve, curve/scalar, ed25519, cache, ecvrf, x25519, sr25519, merlin, h2c and the exported parts of internal/field, elligator, lattice, scalar128, subtle (+ the Keccak permutation through the graft); canonical outputs folded into one SHA-256 chain per operation; the chains of avx2 / asm (cpu.avx2=off) / purego / force32bit must be equal; non-trivial = one operation name; distinct = operation names")
	rc := &recorder{r: r, chains: map[string]hash.Hash{}, counts: map[string]int{}}
	if r.Replay != "" {
		var w struct {
			Op string `json:"op"`
		}
		r.LoadReplay(&w)
		rc.detail = w.Op
	}
	rng := r.Rng("c06")
	scale := r.Pick(3, 24)
	workload.All(rc, rng, scale, graftWork)
	// history independence: the same workload once more in this process (same PRNG stream) must reproduce every
	// digest - a result that depends on what earlier calls left behind in package-level or shared state shows here
	rc2 := &recorder{r: r, chains: map[string]hash.Hash{}, counts: map[string]int{}}
	workload.All(rc2, r.Rng("c06"), scale, graftWork)
	for op, h := range rc.chains {
		h2, ok := rc2.chains[op]
		if !ok || fmt.Sprintf("%x", h.Sum(nil)) != fmt.Sprintf("%x", h2.Sum(nil)) {
			if !nondeterministic[op] {
				r.Violate("history-dependence/"+op, "operation "+op+": the second pass of the same workload in one process gives different outputs than the first", map[string]any{"op": op})
			}
		}
	}
	var ops []string
	for op, h := range rc.chains {
		r.Digest(op, fmt.Sprintf("%x", h.Sum(nil)))
		ops = append(ops, op)
		r.Eval([]byte(op))
	}
	sort.Strings(ops)
	r.Observe("operations", len(ops))
	r.Observe("operation_names", ops)
	for _, op := range []string{ops[0], ops[len(ops)/2], ops[len(ops)-1]} {
		r.Sample("operation", map[string]any{"op": op, "calls": rc.counts[op], "digest": fmt.Sprintf("%x", rc.chains[op].Sum(nil))[:32]})
	}
	r.Finish()
}
