//go:build !verif

package main

import (
	"math/rand/v2"

	"github.com/oasisprotocol/curve25519-voi/zzverif/workload"
)

// without the strobe graft the Keccak permutation is only reached through Merlin
var graftWork func(workload.Sink, *rand.Rand, int)
