//go:build !verif

package main

import "math/rand/v2"

func graftWork(rc *recorder, rng *rand.Rand, scale int) {
	rc.r.HookMissing("strobe graft (Keccak permutation)")
}
