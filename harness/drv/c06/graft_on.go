//go:build verif

package main

import (
	"math/rand/v2"

	"github.com/oasisprotocol/curve25519-voi/internal/strobe"
	"github.com/oasisprotocol/curve25519-voi/zzverif/mon"
	"github.com/oasisprotocol/curve25519-voi/zzverif/workload"
)

func graftWork(rc workload.Sink, rng *rand.Rand, scale int) {
	for i := 0; i < 200*scale; i++ {
		var st [200]byte
		switch {
		case i == 0:
		case i < 40:
			st[rng.IntN(200)] = 1 << uint(rng.IntN(8))
		default:
			copy(st[:], mon.Bytes(rng, 200))
		}
		ok := strobe.VerifKeccakF1600Bytes(&st)
		okb := []byte{0}
		if ok {
			okb[0] = 1
		}
		rc.Out("strobe.keccakF1600", st[:], okb)
	}
}
