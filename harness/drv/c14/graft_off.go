//go:build !verif

package main

import "github.com/oasisprotocol/curve25519-voi/zzverif/mon"

func pipeline(r *mon.Run, c Case) {
	r.HookMissing("h2c graft (pipeline after message expansion on chosen uniform bytes)")
}
