//go:build verif

package main

import (
	"bytes"
	"encoding/hex"
	"fmt"

	"github.com/oasisprotocol/curve25519-voi/curve"
	"github.com/oasisprotocol/curve25519-voi/primitives/h2c"
	"github.com/oasisprotocol/curve25519-voi/zzverif/mon"
	"github.com/oasisprotocol/curve25519-voi/zzverif/ref"
)

// pipeline drives what follows message expansion (hash_to_field, Elligator 2 on each element, point addition, cofactor
// clearing) on CHOSEN uniform bytes: no (DST, message) pair can be found whose expansion reduces to an exceptional
// field element, so the combinations "one element exceptional, the other ordinary", "both exceptional", "both equal",
// "one the negative of the other" are unreachable from the API and are reached here.
func pipeline(r *mon.Run, c Case) {
	b, _ := hex.DecodeString(c.U)
	r.Journal("c14 pipe %s", c.U)
	var p *curve.EdwardsPoint
	var want ref.Pt
	name := "hashToCurve"
	pan, pm := mon.Try(func() {
		if len(b) == 96 {
			p = h2c.VerifHashToCurve(b)
		} else {
			name = "encodeToCurve"
			p = h2c.VerifEncodeToCurve(b)
		}
	})
	if len(b) == 96 {
		want = ref.HashToCurveFromUniform(b)
	} else {
		want = ref.EncodeToCurveFromUniform(b)
	}
	r.Eval([]byte("pipe|" + c.U))
	r.Hist(fmt.Sprintf("pipe/%s/identity=%v", name, want.IsIdentity()))
	if pan {
		r.Violate("h2c/"+name+"/panic", fmt.Sprintf("uniform=%s: %s", c.U, pm), c)
		return
	}
	if !bytes.Equal(encE(p), ref.Encode(want)) {
		r.Violate("h2c/"+name+"/point", fmt.Sprintf("uniform=%s: got %x want %x", c.U, encE(p), ref.Encode(want)), c)
		return
	}
	// the result is used as an operand (its T coordinate is consumed) and must lie in the prime-order subgroup
	q := curve.NewEdwardsPoint().Add(p, curve.ED25519_BASEPOINT_POINT)
	if !bytes.Equal(encE(q), ref.Encode(want.Add(ref.B))) {
		r.Violate("h2c/"+name+"/result-unusable", fmt.Sprintf("uniform=%s: P+B = %x want %x", c.U, encE(q), ref.Encode(want.Add(ref.B))), c)
	}
	if !p.IsTorsionFree() {
		r.Violate("h2c/"+name+"/not-in-prime-order-subgroup", fmt.Sprintf("uniform=%s", c.U), c)
	}
}
