// C14: hash-to-curve suites implement RFC 9380 for every input.
// Monitor: every expander / suite / map call is shadowed by an RFC 9380 reference
// (expand_message_xmd/xof, hash_to_field, Elligator 2, rational map, cofactor clearing) in
// big integers over Go's standard hashes.
package main

import (
	"bytes"
	"crypto"
	_ "crypto/md5"
	_ "crypto/sha1"
	_ "crypto/sha256"
	_ "crypto/sha512"
	"fmt"
	"hash"
	"math/big"
	"math/rand/v2"
	"os"
	"os/exec"

	"golang.org/x/crypto/sha3"

	"github.com/oasisprotocol/curve25519-voi/curve"
	"github.com/oasisprotocol/curve25519-voi/internal/elligator"
	"github.com/oasisprotocol/curve25519-voi/internal/field"
	"github.com/oasisprotocol/curve25519-voi/primitives/h2c"
	"github.com/oasisprotocol/curve25519-voi/zzverif/mon"
	"github.com/oasisprotocol/curve25519-voi/zzverif/ref"
)

type Case struct {
	Kind   string `json:"kind"`
	Hash   int    `json:"hash,omitempty"`
	XOF    int    `json:"xof,omitempty"`
	DST    string `json:"dst,omitempty"`
	Msg    string `json:"msg,omitempty"`
	OutLen int    `json:"out_len,omitempty"`
	U      string `json:"u,omitempty"`
	Stream string `json:"stream,omitempty"`
}

var hashes = []crypto.Hash{crypto.MD5, crypto.SHA1, crypto.SHA224, crypto.SHA256, crypto.SHA384, crypto.SHA512, crypto.SHA512_256, crypto.SHA3_256, crypto.SHA3_512}
var xofs = []func() sha3.ShakeHash{sha3.NewShake128, sha3.NewShake256, func() sha3.ShakeHash { return sha3.NewCShake128(nil, nil) }, func() sha3.ShakeHash { return sha3.NewCShake256(nil, nil) },
	// customised cSHAKE instances are XOFs of their own: every step of the expansion (the reduction of an over-long DST
	// included) is defined over the XOF the caller supplied, customisation and all
	func() sha3.ShakeHash { return sha3.NewCShake128(nil, []byte("customisation string")) },
	func() sha3.ShakeHash { return sha3.NewCShake256([]byte("fn"), nil) },
	func() sha3.ShakeHash { return sha3.NewCShake128([]byte("function"), []byte("and customisation")) },
	func() sha3.ShakeHash { return sha3.NewCShake256(nil, bytes.Repeat([]byte{0x5c}, 200)) }}
var xofNames = []string{"SHAKE128", "SHAKE256", "cSHAKE128(empty)", "cSHAKE256(empty)", "cSHAKE128(S)", "cSHAKE256(N)", "cSHAKE128(N,S)", "cSHAKE256(long S)"}

func xmd(r *mon.Run, c Case) {
	hf := hashes[c.Hash]
	dst, msg := mon.UnHex(c.DST), mon.UnHex(c.Msg)
	out := bytes.Repeat([]byte{0xa5}, c.OutLen)
	var err error
	r.Journal("c14 xmd %v dst=%d msg=%d out=%d", hf, len(dst), len(msg), c.OutLen)
	// the library sees DST and message as adjacent fields of one frame (sub-slices with spare capacity)
	fr, frameCheck := mon.Frame(dst, msg)
	pan, pm := mon.Try(func() { err = h2c.ExpandMessageXMD(out, hf, fr[0], fr[1]) })
	if m := frameCheck(); m != "" {
		r.Violate("h2c/ExpandMessageXMD/writes-caller-memory", m, c)
	}
	r.Eval([]byte(fmt.Sprintf("xmd|%d|%s|%s|%d", c.Hash, c.DST, c.Msg, c.OutLen)))
	var want []byte
	var werr error
	switch {
	case hf.Size() < 32:
		werr = fmt.Errorf("documented refusal: digest shorter than 2k bits")
	case c.OutLen == 0:
		werr = fmt.Errorf("documented refusal: zero-length output")
	default:
		want, werr = ref.ExpandXMD(func() hash.Hash { return hf.New() }, msg, dst, c.OutLen)
	}
	r.Hist(fmt.Sprintf("xmd/%v/abort=%v/dst>255=%v", hf, werr != nil, len(dst) > 255))
	switch {
	case pan:
		r.Violate("h2c/ExpandMessageXMD/panic", pm, c)
	case (err != nil) != (werr != nil):
		r.Violate(fmt.Sprintf("h2c/ExpandMessageXMD/abort-condition/want-abort=%v", werr != nil), fmt.Sprintf("%v dst=%d out=%d: library err=%v, RFC: %v", hf, len(dst), c.OutLen, err, werr), c)
	case err == nil && !bytes.Equal(out, want):
		r.Violate("h2c/ExpandMessageXMD/value", fmt.Sprintf("%v dst=%d out=%d: output differs from RFC 9380", hf, len(dst), c.OutLen), c)
	}
}

func xof(r *mon.Run, c Case) {
	mk := xofs[c.XOF]
	dst, msg := mon.UnHex(c.DST), mon.UnHex(c.Msg)
	out := bytes.Repeat([]byte{0xa5}, c.OutLen)
	x := mk()
	x.Write([]byte("dirty state that the expander must not inherit"))
	var err error
	fr, frameCheck := mon.Frame(dst, msg)
	pan, pm := mon.Try(func() { err = h2c.ExpandMessageXOF(out, x, fr[0], fr[1]) })
	if m := frameCheck(); m != "" {
		r.Violate("h2c/ExpandMessageXOF/writes-caller-memory", m, c)
	}
	r.Eval([]byte(fmt.Sprintf("xof|%d|%s|%s|%d", c.XOF, c.DST, c.Msg, c.OutLen)))
	var want []byte
	var werr error
	if c.OutLen == 0 {
		werr = fmt.Errorf("documented refusal: zero-length output")
	} else {
		want, werr = ref.ExpandXOF(func() ref.XOF { return mk() }, msg, dst, c.OutLen)
	}
	r.Hist(fmt.Sprintf("xof/%s/abort=%v/dst>255=%v", xofNames[c.XOF], werr != nil, len(dst) > 255))
	switch {
	case pan:
		r.Violate("h2c/ExpandMessageXOF/panic", pm, c)
	case (err != nil) != (werr != nil):
		r.Violate(fmt.Sprintf("h2c/ExpandMessageXOF/abort-condition/want-abort=%v", werr != nil), fmt.Sprintf("%s dst=%d out=%d: library err=%v, RFC: %v", xofNames[c.XOF], len(dst), c.OutLen, err, werr), c)
	case err == nil && !bytes.Equal(out, want):
		r.Violate("h2c/ExpandMessageXOF/value", fmt.Sprintf("%s dst=%d out=%d: output differs from RFC 9380", xofNames[c.XOF], len(dst), c.OutLen), c)
	}
}

func encE(p *curve.EdwardsPoint) []byte { b, _ := p.MarshalBinary(); return b }

func edwardsResult(r *mon.Run, c Case, name string, p *curve.EdwardsPoint, err error, want ref.Pt) {
	r.Eval(nil)
	r.Hist("suite/" + name)
	if err != nil {
		r.Violate("h2c/"+name+"/error", err.Error(), c)
		return
	}
	if !bytes.Equal(encE(p), ref.Encode(want)) {
		r.Violate("h2c/"+name+"/point", fmt.Sprintf("got %x want %x", encE(p), ref.Encode(want)), c)
	}
	if !want.Mul(ref.L).IsIdentity() {
		mon.Fatalf("ORACLE: reference h2c point not in the prime-order subgroup")
	}
	if !p.IsTorsionFree() || !ref.Decode(encE(p)).Pt.Mul(ref.L).IsIdentity() {
		r.Violate("h2c/"+name+"/not-prime-order", fmt.Sprintf("point %x", encE(p)), c)
	}
}

func suites(r *mon.Run, c Case) {
	dst, msg := mon.UnHex(c.DST), mon.UnHex(c.Msg)
	fr, frameCheck := mon.Frame(dst, msg)
	ldst, lmsg := fr[0], fr[1]
	defer func() {
		if m := frameCheck(); m != "" {
			r.Violate("h2c/suites/writes-caller-memory", m, c)
		}
	}()
	r.Eval([]byte("suite|" + c.DST + "|" + c.Msg))
	r.Journal("c14 suites dst=%d msg=%d", len(dst), len(msg))
	sha512New := func() hash.Hash { return crypto.SHA512.New() }
	u96, _ := ref.ExpandXMD(sha512New, msg, dst, 96)
	u48, _ := ref.ExpandXMD(sha512New, msg, dst, 48)
	p, err := h2c.Edwards25519_XMD_SHA512_ELL2_RO(ldst, lmsg)
	edwardsResult(r, c, "Edwards25519_XMD_SHA512_ELL2_RO", p, err, ref.HashToCurveFromUniform(u96))
	p, err = h2c.Edwards25519_XMD_SHA512_ELL2_NU(ldst, lmsg)
	edwardsResult(r, c, "Edwards25519_XMD_SHA512_ELL2_NU", p, err, ref.EncodeToCurveFromUniform(u48))
	for _, hf := range []crypto.Hash{crypto.SHA256, crypto.SHA384, crypto.SHA512, crypto.SHA3_256} {
		nh := func() hash.Hash { return hf.New() }
		u96, _ := ref.ExpandXMD(nh, msg, dst, 96)
		u48, _ := ref.ExpandXMD(nh, msg, dst, 48)
		u64, _ := ref.ExpandXMD(nh, msg, dst, 64)
		p, err := h2c.Edwards25519_XMD_ELL2_RO(hf, ldst, lmsg)
		edwardsResult(r, c, fmt.Sprintf("Edwards25519_XMD_ELL2_RO(%v)", hf), p, err, ref.HashToCurveFromUniform(u96))
		p, err = h2c.Edwards25519_XMD_ELL2_NU(hf, ldst, lmsg)
		edwardsResult(r, c, fmt.Sprintf("Edwards25519_XMD_ELL2_NU(%v)", hf), p, err, ref.EncodeToCurveFromUniform(u48))
		rp, err := h2c.Ristretto255_XMD_R255MAP_RO(hf, ldst, lmsg)
		r.Eval(nil)
		if err != nil {
			r.Violate("h2c/Ristretto255_XMD_R255MAP_RO/error", err.Error(), c)
		} else if b, _ := rp.MarshalBinary(); !bytes.Equal(b, ref.RistrettoEncode(ref.RistrettoFromUniform(u64))) {
			r.Violate("h2c/Ristretto255_XMD_R255MAP_RO/point", fmt.Sprintf("%v", hf), c)
		}
	}
	for xi, mk := range []func() sha3.ShakeHash{xofs[0], xofs[1], xofs[4], xofs[5]} {
		if xi >= 2 {
			xi += 2
		}
		nx := func() ref.XOF { return mk() }
		u96, _ := ref.ExpandXOF(nx, msg, dst, 96)
		u48, _ := ref.ExpandXOF(nx, msg, dst, 48)
		u64, _ := ref.ExpandXOF(nx, msg, dst, 64)
		p, err := h2c.Edwards25519_XOF_ELL2_RO(mk(), ldst, lmsg)
		edwardsResult(r, c, "Edwards25519_XOF_ELL2_RO("+xofNames[xi]+")", p, err, ref.HashToCurveFromUniform(u96))
		p, err = h2c.Edwards25519_XOF_ELL2_NU(mk(), ldst, lmsg)
		edwardsResult(r, c, "Edwards25519_XOF_ELL2_NU("+xofNames[xi]+")", p, err, ref.EncodeToCurveFromUniform(u48))
		rp, err := h2c.Ristretto255_XOF_R255MAP_RO(mk(), ldst, lmsg)
		r.Eval(nil)
		if err != nil {
			r.Violate("h2c/Ristretto255_XOF_R255MAP_RO/error", err.Error(), c)
		} else if b, _ := rp.MarshalBinary(); !bytes.Equal(b, ref.RistrettoEncode(ref.RistrettoFromUniform(u64))) {
			r.Violate("h2c/Ristretto255_XOF_R255MAP_RO/point", xofNames[xi], c)
		}
	}
	// refused digests propagate as errors, never points
	for _, hf := range []crypto.Hash{crypto.MD5, crypto.SHA1, crypto.SHA224, crypto.SHA512_224} {
		if p, err := h2c.Edwards25519_XMD_ELL2_RO(hf, ldst, lmsg); err == nil || p != nil {
			r.Violate("h2c/Edwards25519_XMD_ELL2_RO/short-digest-accepted", fmt.Sprintf("%v", hf), c)
		}
		if p, err := h2c.Edwards25519_XMD_ELL2_NU(hf, ldst, lmsg); err == nil || p != nil {
			r.Violate("h2c/Edwards25519_XMD_ELL2_NU/short-digest-accepted", fmt.Sprintf("%v", hf), c)
		}
		if p, err := h2c.Ristretto255_XMD_R255MAP_RO(hf, ldst, lmsg); err == nil || p != nil {
			r.Violate("h2c/Ristretto255_XMD_R255MAP_RO/short-digest-accepted", fmt.Sprintf("%v", hf), c)
		}
	}
}

// mapInput drives the Elligator 2 + rational map directly on a chosen field element.
func mapInput(r *mon.Run, c Case) {
	u, _ := new(big.Int).SetString(c.U, 16)
	var fe field.Element
	if _, err := fe.SetBytes(ref.LE32(new(big.Int).Mod(u, ref.P))); err != nil {
		mon.Fatalf("SetBytes: %v", err)
	}
	var p *curve.EdwardsPoint
	r.Journal("c14 map u=%x", u)
	pan, pm := mon.Try(func() { p = elligator.EdwardsFlavor(&fe) })
	r.Eval([]byte("map|" + c.U))
	want := ref.MapToEdwards(new(big.Int).Mod(u, ref.P))
	r.Hist(fmt.Sprintf("map/identity=%v", want.IsIdentity()))
	if pan {
		r.Violate("elligator/EdwardsFlavor/panic", fmt.Sprintf("u=%x: %s", u, pm), c)
		return
	}
	if !bytes.Equal(encE(p), ref.Encode(want)) {
		r.Violate("elligator/EdwardsFlavor/point", fmt.Sprintf("u=%x: got %x want %x", u, encE(p), ref.Encode(want)), c)
	}
}

func mapCatalogue() []*big.Int { return ref.MapSpecialInputs() }

// pipeHalves: 48-byte big-endian strings whose value mod p is a special input of the map (0, +-1, +-sqrt(-1), the roots
// of the exceptional-case equations), each in several representatives (u, u+p, u + the largest multiple of p that fits),
// plus the extreme strings and a few PRNG values.
func pipeHalves(rng *rand.Rand) [][]byte {
	be48 := func(v *big.Int) []byte { return v.FillBytes(make([]byte, 48)) }
	top := new(big.Int).Lsh(big.NewInt(1), 384)
	kmax := new(big.Int).Div(new(big.Int).Sub(top, big.NewInt(1)), ref.P)
	var out [][]byte
	cat := mapCatalogue()
	specials := []*big.Int{cat[0], cat[2], cat[3]} // 0, 1, -1
	specials = append(specials, cat[20:]...)       // +-sqrt(-1) and the exceptional roots
	for _, u := range specials {
		out = append(out, be48(u), be48(new(big.Int).Add(u, ref.P)))
		hi := new(big.Int).Add(u, new(big.Int).Mul(kmax, ref.P))
		if hi.Cmp(top) >= 0 {
			hi.Sub(hi, ref.P)
		}
		out = append(out, be48(hi))
	}
	out = append(out, bytes.Repeat([]byte{0xff}, 48))
	for i := 0; i < 3; i++ {
		out = append(out, mon.Bytes(rng, 48))
	}
	return out
}

func runCase(r *mon.Run, c Case) {
	switch c.Kind {
	case "xmd":
		xmd(r, c)
	case "xof":
		xof(r, c)
	case "suites":
		suites(r, c)
	case "map":
		mapInput(r, c)
	case "pipe":
		pipeline(r, c)
	}
}

// minimalLinkSet runs the auxiliary program c14min (only primitives/h2c linked) and compares what it prints with the
// same calls made here, where every hash is linked.
func minimalLinkSet(r *mon.Run) {
	path := os.Getenv("VERIF_AUX_C14MIN")
	if path == "" {
		r.HookMissing("auxiliary program c14min (minimal link set)")
		return
	}
	out, err := exec.Command(path).CombinedOutput()
	dst := []byte("QUUX-V01-CS02-with-edwards25519_XMD:SHA-512_ELL2_RO_")
	msg := []byte("abcdef0123456789")
	var want bytes.Buffer
	p1, _ := h2c.Edwards25519_XMD_SHA512_ELL2_RO(dst, msg)
	b1, _ := p1.MarshalBinary()
	p2, _ := h2c.Edwards25519_XMD_SHA512_ELL2_NU(dst, msg)
	b2, _ := p2.MarshalBinary()
	x := make([]byte, 48)
	h2c.ExpandMessageXMD(x, crypto.SHA512, dst, msg)
	fmt.Fprintf(&want, "Edwards25519_XMD_SHA512_ELL2_RO %x\nEdwards25519_XMD_SHA512_ELL2_NU %x\nExpandMessageXMD(SHA-512) %x\n", b1, b2, x)
	r.EvalN(3)
	r.Hist("minimal-link-set/calls")
	if err != nil || !bytes.Equal(out, want.Bytes()) {
		r.Violate("h2c/minimal-link-set", fmt.Sprintf("a program that links only primitives/h2c prints %q (%v); with every hash linked the same calls give %q", out, err, want.String()), Case{Kind: "minimal-link-set"})
	}
}

func main() {
	r := mon.Start("C14", "expanders: hashes {MD5, SHA-1, SHA-224 (refused), SHA-256, SHA-384, SHA-512, SHA-512/256, SHA3-256, SHA3-512} and XOFs {SHAKE128/256, cSHAKE with empty customisation; dirty input state} x DST lengths {0,1,16,254,255,256,257,300,1000} x output lengths {0,1,b-1,b,b+1,2b,2b+1,255b-1,255b,255b+1,255b+b/2,256b-1,256b,65535,65536,70000} x messages {empty, 1 byte, block size +-1, PRNG}; suites: RO/NU SHA-512, generic XMD (SHA-256/384/512/SHA3-256), XOF (SHAKE128/256), ristretto255 XMD/XOF on PRNG (DST, message) pairs incl. long DSTs, each Edwards result tested for [L]P = O; the Elligator 2 + rational map driven directly on {0, +-1, small, +-sqrt(-1), roots of the exceptional-case equations where they exist, PRNG}; non-trivial = one call; distinct = SHA-256 of its inputs")
	var c Case
	if r.LoadReplay(&c) {
		runCase(r, c)
		r.Finish()
		return
	}
	rng := r.Rng("c14")
	dstLens := []int{0, 1, 16, 254, 255, 256, 257, 300, 1000}
	var cases []Case
	reps := r.Pick(2, 16)
	for rep := 0; rep < reps; rep++ {
		for hi, hf := range hashes {
			b := hf.Size()
			bs := hf.New().BlockSize()
			outLens := []int{0, 1, b - 1, b, b + 1, 2 * b, 2*b + 1, 255*b - 1, 255 * b, 255*b + 1, 255*b + b/2, 256*b - 1, 256 * b, 65535, 65536, 70000}
			msgLens := []int{0, 1, bs - 1, bs, bs + 1, rng.IntN(300)}
			for _, dl := range dstLens {
				for oi, ol := range outLens {
					ml := msgLens[(oi+dl+rep)%len(msgLens)]
					cases = append(cases, Case{Kind: "xmd", Hash: hi, DST: mon.Hex(mon.Bytes(rng, dl)), Msg: mon.Hex(mon.Bytes(rng, ml)), OutLen: ol})
				}
			}
		}
		for xi := range xofs {
			for _, dl := range dstLens {
				for _, ol := range []int{0, 1, 31, 32, 33, 136, 168, 169, 1000, 65535, 65536, 65537, 70000, 131071, 131072, 131073, 196656} {
					cases = append(cases, Case{Kind: "xof", XOF: xi, DST: mon.Hex(mon.Bytes(rng, dl)), Msg: mon.Hex(mon.Bytes(rng, rng.IntN(300))), OutLen: ol})
				}
			}
		}
	}
	for i := 0; i < r.Pick(500, 12000); i++ {
		dl := dstLens[rng.IntN(len(dstLens))]
		cases = append(cases, Case{Kind: "suites", DST: mon.Hex(mon.Bytes(rng, dl)), Msg: mon.Hex(mon.Bytes(rng, rng.IntN(200)))})
	}
	for _, u := range mapCatalogue() {
		cases = append(cases, Case{Kind: "map", U: fmt.Sprintf("%x", u)})
	}
	for i := 0; i < r.Pick(3000, 100000); i++ {
		cases = append(cases, Case{Kind: "map", U: mon.Hex(mon.Bytes(rng, 32))})
	}
	// the pipeline after message expansion on chosen uniform bytes: every pair of 48-byte encodings drawn from
	// {exceptional and special field elements} x {representatives u, u+p, u+kp up to 2^384} in both slots, plus PRNG
	halves := pipeHalves(rng)
	for _, h0 := range halves {
		cases = append(cases, Case{Kind: "pipe", U: mon.Hex(h0)})
		for _, h1 := range halves {
			cases = append(cases, Case{Kind: "pipe", U: mon.Hex(append(append([]byte{}, h0...), h1...))})
		}
	}
	for i := 0; i < r.Pick(1500, 60000); i++ {
		cases = append(cases, Case{Kind: "pipe", U: mon.Hex(mon.Bytes(rng, 48+48*(i%2)))})
	}
	r.Observe("cases", len(cases))
	r.Parallel(len(cases), func(i int) { runCase(r, cases[i]) })
	r.Sample("case", cases[17])
	r.Sample("case", cases[len(cases)/2])
	r.Sample("case", cases[len(cases)-1])
	minimalLinkSet(r)
	r.Finish()
}
