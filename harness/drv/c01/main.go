// C01: Ed25519 verification decides exactly the configured specification predicate.
// Monitor: every VerifyWithOptions / VerifyExpandedWithOptions call is shadowed by the
// big-integer predicate (and crypto/ed25519 for the StdLib preset).
package main

import (
	"crypto"
	stded "crypto/ed25519"
	"crypto/sha256"
	"fmt"
	"github.com/oasisprotocol/curve25519-voi/zzverif/disturb"
	"strings"

	"github.com/oasisprotocol/curve25519-voi/primitives/ed25519"
	"github.com/oasisprotocol/curve25519-voi/primitives/ed25519/extra/cache"
	"github.com/oasisprotocol/curve25519-voi/zzverif/gen"
	"github.com/oasisprotocol/curve25519-voi/zzverif/mon"
	"github.com/oasisprotocol/curve25519-voi/zzverif/ref"
)

func libOpts(fl int, c gen.EdCase) *ed25519.Options {
	f := ref.FlagsFromBits(fl)
	vo := &ed25519.VerifyOptions{AllowSmallOrderA: f.SmallA, AllowSmallOrderR: f.SmallR, AllowNonCanonicalA: f.NonCanonA, AllowNonCanonicalR: f.NonCanonR, CofactorlessVerify: f.Cofactorless}
	o := &ed25519.Options{Verify: vo, Context: string(mon.UnHex(c.Ctx))}
	if c.Variant == 2 {
		o.Hash = crypto.SHA512
	}
	return o
}

const stdLibFlags = 1 | 2 | 4 | 16

var otherKey = ed25519.NewKeyFromSeed(make([]byte, 32)).Public().(ed25519.PublicKey)

func runCase(r *mon.Run, c gen.EdCase) {
	pk, msg, sig := mon.UnHex(c.PK), mon.UnHex(c.Msg), mon.UnHex(c.Sig)
	facts := ref.Facts(pk, msg, sig, c.Dom2())
	caseSel := sha256.Sum256(c.Key())[0]
	if strings.HasPrefix(c.Fam, "ground-k/") {
		r.Hist("family/" + c.Fam)
	}
	var key []byte
	if facts.LenOK {
		key = c.Key()
	}
	// third entry point: the caching verifier with a capacity-1 LRU that already holds another key, so that this
	// case's key is inserted by an eviction and every later verification is a cache hit
	cv := cache.NewVerifier(cache.NewLRUCache(1))
	cv.AddPublicKey(otherKey)
	// the expanded key is built from the caller's own buffer, which the caller overwrites as soon as the constructor has
	// returned: an expanded key stands for the bytes it was built from
	kbuf := append(make([]byte, 0, len(pk)+8), pk...)
	exp, expErr := ed25519.NewExpandedPublicKey(kbuf)
	for i := range kbuf {
		kbuf[i] ^= 0xff
	}
	if (expErr == nil) != facts.A.OK {
		r.Violate("NewExpandedPublicKey/decode-mismatch", fmt.Sprintf("NewExpandedPublicKey err=%v but reference says A decodable=%v", expErr, facts.A.OK), c)
	}
	for fl := 0; fl < 32; fl++ {
		flags := ref.FlagsFromBits(fl)
		opts := libOpts(fl, c)
		want := facts.Verify(flags)
		reason := facts.Reason(flags)
		wantPanic := flags.NonCanonR && flags.Cofactorless
		var got bool
		r.Journal("c01 plain fl=%d %+v", fl, c)
		// one verification in four is immediately preceded, on this goroutine, by an operation that fails (see package
		// disturb): a decision may not depend on what the process did before
		if sel := int(caseSel) + fl; sel%4 == 0 {
			r.Hist("disturbed-before-verify/" + disturb.Ed25519(sel/4))
		}
		pan, pmsg := mon.Try(func() { got = ed25519.VerifyWithOptions(pk, msg, sig, opts) })
		r.Eval(key)
		if wantPanic {
			reason = "documented-panic"
		}
		r.Hist(fmt.Sprintf("fl%02d/v%d/%s", fl, c.Variant, reason))
		if pan != wantPanic || (!pan && got != want) {
			r.Violate(fmt.Sprintf("VerifyWithOptions/%s/want=%v", reason, want), fmt.Sprintf("flags=%+v family=%s: got=%v panic=%v(%s) want=%v wantPanic=%v", flags, c.Fam, got, pan, pmsg, want, wantPanic), c)
		}
		if got && !pan {
			r.Hist("accepts")
		}
		if expErr == nil {
			var got2 bool
			r.Journal("c01 expanded fl=%d", fl)
			pan2, pmsg2 := mon.Try(func() { got2 = ed25519.VerifyExpandedWithOptions(exp, msg, sig, opts) })
			r.Eval(nil)
			if pan2 != wantPanic || (!pan2 && got2 != want) {
				r.Violate(fmt.Sprintf("VerifyExpandedWithOptions/%s/want=%v", reason, want), fmt.Sprintf("flags=%+v family=%s: got=%v panic=%v(%s) want=%v", flags, c.Fam, got2, pan2, pmsg2, want), c)
			}
		}
		if len(pk) == 32 {
			var got3 bool
			pan3, pmsg3 := mon.Try(func() { got3 = cv.VerifyWithOptions(pk, msg, sig, opts) })
			r.Eval(nil)
			// where plain verification documents a panic (incompatible options) the cached verifier may panic or,
			// when the key does not even decode, return false - it must never accept
			if (wantPanic && !pan3 && got3) || (!wantPanic && (pan3 || got3 != want)) {
				r.Violate(fmt.Sprintf("cache.VerifyWithOptions/%s/want=%v", reason, want), fmt.Sprintf("flags=%+v family=%s: got=%v panic=%v(%s) want=%v", flags, c.Fam, got3, pan3, pmsg3, want), c)
			}
		}
		// fourth entry point: the batch verifier's per-entry decisions (plain and expanded adds of this one case in one
		// batch). Every variant with a context or a pre-hash, and one pure case in four
		if len(pk) == 32 && (c.Variant != 0 || (int(caseSel)+fl)%4 == 1) {
			var all bool
			var bits []bool
			n := 1
			panB, pmsgB := mon.Try(func() {
				bv := ed25519.NewBatchVerifier()
				bv.AddWithOptions(pk, msg, sig, opts)
				if expErr == nil {
					bv.AddExpandedWithOptions(exp, msg, sig, opts)
					n = 2
				}
				all, bits = bv.Verify(nil)
			})
			r.Eval(nil)
			r.Hist(fmt.Sprintf("batch-entry-point/v%d", c.Variant))
			switch {
			case wantPanic:
				// incompatible options: the batch may panic or report the entries invalid, it must never accept
				if !panB && (all || (len(bits) > 0 && bits[0]) || (len(bits) > 1 && bits[1])) {
					r.Violate("BatchVerifier/incompatible-options-accepted", fmt.Sprintf("flags=%+v family=%s: all=%v bits=%v", flags, c.Fam, all, bits), c)
				}
			case panB:
				r.Violate("BatchVerifier/panic", fmt.Sprintf("flags=%+v family=%s: %s", flags, c.Fam, pmsgB), c)
			default:
				bad := len(bits) != n || all != want
				for _, b := range bits {
					bad = bad || b != want
				}
				if bad {
					r.Violate(fmt.Sprintf("BatchVerifier.Verify/%s/want=%v", reason, want), fmt.Sprintf("flags=%+v family=%s: all=%v bits=%v want=%v (entries: AddWithOptions, AddExpandedWithOptions)", flags, c.Fam, all, bits, want), c)
				}
			}
		}
		if fl == stdLibFlags {
			// second, independent oracle: Go's own implementation
			so := &stded.Options{Context: string(mon.UnHex(c.Ctx))}
			if c.Variant == 2 {
				so.Hash = crypto.SHA512
			}
			std := stded.VerifyWithOptions(stded.PublicKey(pk), msg, sig, so) == nil
			r.Hist(fmt.Sprintf("stdlib-oracle/%v", std))
			if std != want {
				// the two oracles disagree: harness defect, never a verdict about the library
				mon.Fatalf("ORACLE-CONFLICT crypto/ed25519=%v reference=%v on %+v", std, want, c)
			}
			if !pan && got != std {
				r.Violate("VerifyWithOptions/StdLib-preset-vs-crypto/ed25519", fmt.Sprintf("library=%v crypto/ed25519=%v family=%s", got, std, c.Fam), c)
			}
		}
	}
	// presets by name, and the default entry point
	if len(pk) == 32 && c.Variant == 0 {
		var got bool
		pan, _ := mon.Try(func() { got = ed25519.Verify(pk, msg, sig) })
		want := facts.Verify(ref.Flags{SmallR: true})
		r.Eval(nil)
		if pan || got != want {
			r.Violate("Verify/default-preset", fmt.Sprintf("Verify got=%v panic=%v want=%v family=%s", got, pan, want, c.Fam), c)
		}
	}
	for name, p := range map[string]struct {
		vo *ed25519.VerifyOptions
		fl ref.Flags
	}{
		"nil (documented: the default set)": {nil, ref.Flags{SmallR: true}},
		"Default":                           {ed25519.VerifyOptionsDefault, ref.Flags{SmallR: true}},
		"StdLib":                            {ed25519.VerifyOptionsStdLib, ref.Flags{SmallA: true, SmallR: true, NonCanonA: true, Cofactorless: true}},
		"FIPS_186_5":                        {ed25519.VerifyOptionsFIPS_186_5, ref.Flags{SmallA: true, SmallR: true}},
		"ZIP_215":                           {ed25519.VerifyOptionsZIP_215, ref.Flags{SmallA: true, SmallR: true, NonCanonA: true, NonCanonR: true}},
	} {
		o := libOpts(0, c)
		o.Verify = p.vo
		var got bool
		pan, _ := mon.Try(func() { got = ed25519.VerifyWithOptions(pk, msg, sig, o) })
		r.Eval(nil)
		want := facts.Verify(p.fl)
		// the same option value through the expanded-key and caching entry points
		if len(pk) == 32 && !pan {
			var g2, g3 bool
			p2, p3 := false, false
			if expErr == nil {
				p2, _ = mon.Try(func() { g2 = ed25519.VerifyExpandedWithOptions(exp, msg, sig, o) })
			} else {
				g2 = want
			}
			p3, _ = mon.Try(func() { g3 = cv.VerifyWithOptions(pk, msg, sig, o) })
			r.EvalN(2)
			if p2 || p3 || g2 != want || g3 != want {
				r.Violate("VerifyWithOptions/preset-"+name+"/other-entry-points", fmt.Sprintf("preset %s: expanded=%v cached=%v (panics %v %v) want=%v (%s) family=%s", name, g2, g3, p2, p3, want, facts.Reason(p.fl), c.Fam), c)
			}
		}
		if pan || got != want {
			r.Violate("VerifyWithOptions/preset-"+name, fmt.Sprintf("preset %s: got=%v panic=%v want=%v (%s) family=%s", name, got, pan, want, facts.Reason(p.fl), c.Fam), c)
		}
	}
	// one option struct kept by the caller and toggled between the variants with the context unchanged (possible when
	// the message is 64 bytes long): each decision is the predicate's for the options as they are at the time of the call
	if len(pk) == 32 && len(msg) == 64 && c.Ctx != "" && c.Variant != 0 {
		ro := &ed25519.Options{Context: string(mon.UnHex(c.Ctx)), Verify: ed25519.VerifyOptionsDefault}
		for step, variant := range []int{3 - c.Variant, c.Variant, 3 - c.Variant, c.Variant} {
			ro.Hash = 0
			flagOctet := byte(0)
			if variant == 2 {
				ro.Hash = crypto.SHA512
				flagOctet = 1
			}
			f2 := ref.Facts(pk, msg, sig, ref.Dom2(flagOctet, mon.UnHex(c.Ctx)))
			want := f2.Verify(ref.Flags{SmallR: true})
			for _, byValue := range []bool{false, true} {
				use := ro
				if byValue {
					cp := *ro
					use = &cp
				}
				var got, got2 bool
				pan, _ := mon.Try(func() { got = ed25519.VerifyWithOptions(pk, msg, sig, use) })
				pan2 := false
				if expErr == nil {
					pan2, _ = mon.Try(func() { got2 = ed25519.VerifyExpandedWithOptions(exp, msg, sig, use) })
				} else {
					got2 = want
				}
				r.EvalN(2)
				r.Hist("reused-option-struct/variant-toggled")
				if pan || pan2 || got != want || got2 != want {
					r.Violate(fmt.Sprintf("VerifyWithOptions/reused-option-struct/want=%v", want), fmt.Sprintf("step %d (variant %d, by-value copy=%v): plain=%v expanded=%v panic=%v/%v, predicate for the current options: %v; family %s", step, variant, byValue, got, got2, pan, pan2, want, c.Fam), c)
				}
			}
		}
	}
	r.Sample(familyClass(c.Fam), c)
}

func familyClass(f string) string {
	if len(f) > 3 && (f[:3] == "R+T" || f[:3] == "A+T") {
		return f[:3]
	}
	if len(f) > 6 && f[:6] == "siglen" {
		return "siglen"
	}
	return f
}

// terminates runs the verification entry points on one case under a loop-iteration budget. A case on which any of
// them exceeds the budget is reported (the predicate gives an answer for every input; the library must, too) and
// is kept out of the unbudgeted parallel phase, where it would only hang the process.
const verifyTickBudget = 5_000_000

func terminates(r *mon.Run, c gen.EdCase) bool {
	pk, msg, sig := mon.UnHex(c.PK), mon.UnHex(c.Msg), mon.UnHex(c.Sig)
	ok := true
	for name, vo := range map[string]*ed25519.VerifyOptions{"Default": ed25519.VerifyOptionsDefault, "StdLib": ed25519.VerifyOptionsStdLib, "FIPS_186_5": ed25519.VerifyOptionsFIPS_186_5, "ZIP_215": ed25519.VerifyOptionsZIP_215} {
		o := libOpts(0, c)
		o.Verify = vo
		for _, entry := range []string{"VerifyWithOptions", "VerifyExpandedWithOptions", "cache.VerifyWithOptions", "BatchVerifier"} {
			if len(pk) != 32 && entry != "VerifyWithOptions" {
				continue
			}
			ticks, exceeded, _, _ := guarded(verifyTickBudget, func() {
				switch entry {
				case "VerifyWithOptions":
					ed25519.VerifyWithOptions(pk, msg, sig, o)
				case "VerifyExpandedWithOptions":
					if x, err := ed25519.NewExpandedPublicKey(pk); err == nil {
						ed25519.VerifyExpandedWithOptions(x, msg, sig, o)
					}
				case "cache.VerifyWithOptions":
					cache.NewVerifier(cache.NewLRUCache(1)).VerifyWithOptions(pk, msg, sig, o)
				case "BatchVerifier":
					bv := ed25519.NewBatchVerifier()
					bv.AddWithOptions(pk, msg, sig, o)
					bv.AddWithOptions(pk, msg, sig, o)
					bv.Verify(nil)
				}
			})
			r.Eval(nil)
			r.Max("loop-ticks/"+entry, ticks)
			r.Hist("termination/budgeted-calls")
			if exceeded {
				ok = false
				r.Violate("does-not-terminate/"+entry, fmt.Sprintf("%s with preset %s executed more than %d loop iterations without returning (family %s); ordinary calls take a few thousand", entry, name, verifyTickBudget, c.Fam), c)
			}
		}
	}
	return ok
}

func main() {
	r := mon.Start("C01", "crafted (key,msg,sig,variant) triples from adversarial families (honest, S+kL, S boundaries, R+T_j and A+T_j signed with the secret key, small-order/non-canonical A x R with S in {0,1}, undecodable, bit flips, bad lengths) x all 32 flag sets x plain/expanded entry points; non-trivial = the reference predicate gets past the signature-length gate; distinct = SHA-256 of (pk,msg,sig,variant,ctx)")
	var c gen.EdCase
	if r.LoadReplay(&c) {
		if terminates(r, c) {
			runCase(r, c)
		}
		r.Finish()
		return
	}
	rng := r.Rng("c01")
	cases := gen.EdFamilies(rng, r.Pick(45, 400), r.Pick(400, 0))
	r.Observe("cases", len(cases))
	// phase 1 (one goroutine, loop-iteration budget armed): the searched-for challenge scalars and one case in 25
	skip := map[int]bool{}
	if !haveTicks {
		r.HookMissing("loop-tick instrumentation (termination is then only covered by the wall-clock watchdog, whose firing is inconclusive)")
	}
	for i, c := range cases {
		if strings.HasPrefix(c.Fam, "ground-k/") || i%25 == 0 {
			if !terminates(r, c) {
				skip[i] = true
			}
		}
	}
	// phase 2: every case, all flag sets and entry points, decided by the reference predicate
	r.Parallel(len(cases), func(i int) {
		if !skip[i] {
			runCase(r, cases[i])
		}
	})
	// every rejection rule and acceptance must have been observed, otherwise the run proves little
	for _, want := range []string{"fl00/v0/accept", "fl00/v0/S>=L", "fl00/v0/A-small-order", "fl01/v0/R-small-order", "fl00/v0/A-noncanonical", "fl00/v0/R-noncanonical", "fl16/v0/eq-cofactorless-false", "fl00/v0/eq-cofactored-false", "fl24/v0/documented-panic"} {
		if r.HistGet(want) == 0 {
			r.Inconclusive("workload never reached bucket " + want)
		}
	}
	r.Finish()
}
