// C01: Ed25519 verification decides exactly the configured specification predicate.
// Monitor: every VerifyWithOptions / VerifyExpandedWithOptions call is shadowed by the
// big-integer predicate (and crypto/ed25519 for the StdLib preset).
package main

import (
	"crypto"
	stded "crypto/ed25519"
	"fmt"

	"github.com/oasisprotocol/curve25519-voi/primitives/ed25519"
	"github.com/oasisprotocol/curve25519-voi/primitives/ed25519/extra/cache"
	"github.com/oasisprotocol/curve25519-voi/zzverif/gen"
	"github.com/oasisprotocol/curve25519-voi/zzverif/mon"
	"github.com/oasisprotocol/curve25519-voi/zzverif/ref"
)

func libOpts(fl int, c gen.EdCase) *ed25519.Options {
	f := ref.FlagsFromBits(fl)
	vo := &ed25519.VerifyOptions{AllowSmallOrderA: f.SmallA, AllowSmallOrderR: f.SmallR, AllowNonCanonicalA: f.NonCanonA, AllowNonCanonicalR: f.NonCanonR, CofactorlessVerify: f.Cofactorless}
	o := &ed25519.Options{Verify: vo, Context: string(mon.UnHex(c.Ctx))}
	if c.Variant == 2 {
		o.Hash = crypto.SHA512
	}
	return o
}

const stdLibFlags = 1 | 2 | 4 | 16

var otherKey = ed25519.NewKeyFromSeed(make([]byte, 32)).Public().(ed25519.PublicKey)

func runCase(r *mon.Run, c gen.EdCase) {
	pk, msg, sig := mon.UnHex(c.PK), mon.UnHex(c.Msg), mon.UnHex(c.Sig)
	facts := ref.Facts(pk, msg, sig, c.Dom2())
	var key []byte
	if facts.LenOK {
		key = c.Key()
	}
	// third entry point: the caching verifier with a capacity-1 LRU that already holds another key, so that this
	// case's key is inserted by an eviction and every later verification is a cache hit
	cv := cache.NewVerifier(cache.NewLRUCache(1))
	cv.AddPublicKey(otherKey)
	exp, expErr := ed25519.NewExpandedPublicKey(pk)
	if (expErr == nil) != facts.A.OK {
		r.Violate("NewExpandedPublicKey/decode-mismatch", fmt.Sprintf("NewExpandedPublicKey err=%v but reference says A decodable=%v", expErr, facts.A.OK), c)
	}
	for fl := 0; fl < 32; fl++ {
		flags := ref.FlagsFromBits(fl)
		opts := libOpts(fl, c)
		want := facts.Verify(flags)
		reason := facts.Reason(flags)
		wantPanic := flags.NonCanonR && flags.Cofactorless
		var got bool
		r.Journal("c01 plain fl=%d %+v", fl, c)
		pan, pmsg := mon.Try(func() { got = ed25519.VerifyWithOptions(pk, msg, sig, opts) })
		r.Eval(key)
		if wantPanic {
			reason = "documented-panic"
		}
		r.Hist(fmt.Sprintf("fl%02d/v%d/%s", fl, c.Variant, reason))
		if pan != wantPanic || (!pan && got != want) {
			r.Violate(fmt.Sprintf("VerifyWithOptions/%s/want=%v", reason, want), fmt.Sprintf("flags=%+v family=%s: got=%v panic=%v(%s) want=%v wantPanic=%v", flags, c.Fam, got, pan, pmsg, want, wantPanic), c)
		}
		if got && !pan {
			r.Hist("accepts")
		}
		if expErr == nil {
			var got2 bool
			r.Journal("c01 expanded fl=%d", fl)
			pan2, pmsg2 := mon.Try(func() { got2 = ed25519.VerifyExpandedWithOptions(exp, msg, sig, opts) })
			r.Eval(nil)
			if pan2 != wantPanic || (!pan2 && got2 != want) {
				r.Violate(fmt.Sprintf("VerifyExpandedWithOptions/%s/want=%v", reason, want), fmt.Sprintf("flags=%+v family=%s: got=%v panic=%v(%s) want=%v", flags, c.Fam, got2, pan2, pmsg2, want), c)
			}
		}
		if len(pk) == 32 {
			var got3 bool
			pan3, pmsg3 := mon.Try(func() { got3 = cv.VerifyWithOptions(pk, msg, sig, opts) })
			r.Eval(nil)
			// where plain verification documents a panic (incompatible options) the cached verifier may panic or,
			// when the key does not even decode, return false - it must never accept
			if (wantPanic && !pan3 && got3) || (!wantPanic && (pan3 || got3 != want)) {
				r.Violate(fmt.Sprintf("cache.VerifyWithOptions/%s/want=%v", reason, want), fmt.Sprintf("flags=%+v family=%s: got=%v panic=%v(%s) want=%v", flags, c.Fam, got3, pan3, pmsg3, want), c)
			}
		}
		if fl == stdLibFlags {
			// second, independent oracle: Go's own implementation
			so := &stded.Options{Context: string(mon.UnHex(c.Ctx))}
			if c.Variant == 2 {
				so.Hash = crypto.SHA512
			}
			std := stded.VerifyWithOptions(stded.PublicKey(pk), msg, sig, so) == nil
			r.Hist(fmt.Sprintf("stdlib-oracle/%v", std))
			if std != want {
				// the two oracles disagree: harness defect, never a verdict about the library
				mon.Fatalf("ORACLE-CONFLICT crypto/ed25519=%v reference=%v on %+v", std, want, c)
			}
			if !pan && got != std {
				r.Violate("VerifyWithOptions/StdLib-preset-vs-crypto/ed25519", fmt.Sprintf("library=%v crypto/ed25519=%v family=%s", got, std, c.Fam), c)
			}
		}
	}
	// presets by name, and the default entry point
	if len(pk) == 32 && c.Variant == 0 {
		var got bool
		pan, _ := mon.Try(func() { got = ed25519.Verify(pk, msg, sig) })
		want := facts.Verify(ref.Flags{SmallR: true})
		r.Eval(nil)
		if pan || got != want {
			r.Violate("Verify/default-preset", fmt.Sprintf("Verify got=%v panic=%v want=%v family=%s", got, pan, want, c.Fam), c)
		}
	}
	for name, p := range map[string]struct {
		vo *ed25519.VerifyOptions
		fl ref.Flags
	}{
		"Default":    {ed25519.VerifyOptionsDefault, ref.Flags{SmallR: true}},
		"StdLib":     {ed25519.VerifyOptionsStdLib, ref.Flags{SmallA: true, SmallR: true, NonCanonA: true, Cofactorless: true}},
		"FIPS_186_5": {ed25519.VerifyOptionsFIPS_186_5, ref.Flags{SmallA: true, SmallR: true}},
		"ZIP_215":    {ed25519.VerifyOptionsZIP_215, ref.Flags{SmallA: true, SmallR: true, NonCanonA: true, NonCanonR: true}},
	} {
		o := libOpts(0, c)
		o.Verify = p.vo
		var got bool
		pan, _ := mon.Try(func() { got = ed25519.VerifyWithOptions(pk, msg, sig, o) })
		r.Eval(nil)
		want := facts.Verify(p.fl)
		if pan || got != want {
			r.Violate("VerifyWithOptions/preset-"+name, fmt.Sprintf("preset %s: got=%v panic=%v want=%v (%s) family=%s", name, got, pan, want, facts.Reason(p.fl), c.Fam), c)
		}
	}
	r.Sample(familyClass(c.Fam), c)
}

func familyClass(f string) string {
	if len(f) > 3 && (f[:3] == "R+T" || f[:3] == "A+T") {
		return f[:3]
	}
	if len(f) > 6 && f[:6] == "siglen" {
		return "siglen"
	}
	return f
}

func main() {
	r := mon.Start("C01", "crafted (key,msg,sig,variant) triples from adversarial families (honest, S+kL, S boundaries, R+T_j and A+T_j signed with the secret key, small-order/non-canonical A x R with S in {0,1}, undecodable, bit flips, bad lengths) x all 32 flag sets x plain/expanded entry points; non-trivial = the reference predicate gets past the signature-length gate; distinct = SHA-256 of (pk,msg,sig,variant,ctx)")
	var c gen.EdCase
	if r.LoadReplay(&c) {
		runCase(r, c)
		r.Finish()
		return
	}
	rng := r.Rng("c01")
	cases := gen.EdFamilies(rng, r.Pick(45, 400), r.Pick(400, 0))
	r.Observe("cases", len(cases))
	r.Parallel(len(cases), func(i int) { runCase(r, cases[i]) })
	// every rejection rule and acceptance must have been observed, otherwise the run proves little
	for _, want := range []string{"fl00/v0/accept", "fl00/v0/S>=L", "fl00/v0/A-small-order", "fl01/v0/R-small-order", "fl00/v0/A-noncanonical", "fl00/v0/R-noncanonical", "fl16/v0/eq-cofactorless-false", "fl00/v0/eq-cofactored-false", "fl24/v0/documented-panic"} {
		if r.HistGet(want) == 0 {
			r.Inconclusive("workload never reached bucket " + want)
		}
	}
	r.Finish()
}
