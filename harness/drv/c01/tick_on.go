//go:build verif || verifmin

package main

import (
	"fmt"

	"github.com/oasisprotocol/curve25519-voi/internal/zzverifrt"
)

const haveTicks = true

// guarded runs f under a loop-iteration budget (every loop head of the instrumented library ticks): termination is
// decided on logical steps, never on the wall clock.
func guarded(budget int64, f func()) (ticks int64, exceeded, panicked bool, msg string) {
	zzverifrt.Arm(budget)
	func() {
		defer func() {
			if e := recover(); e != nil {
				if _, ok := e.(zzverifrt.BudgetExceeded); ok {
					exceeded = true
				} else {
					panicked, msg = true, fmt.Sprint(e)
				}
			}
		}()
		f()
	}()
	ticks = zzverifrt.Ticks()
	zzverifrt.Arm(0)
	return
}
