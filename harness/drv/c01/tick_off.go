//go:build !verif && !verifmin

package main

const haveTicks = false

func guarded(budget int64, f func()) (ticks int64, exceeded, panicked bool, msg string) {
	f()
	return
}
