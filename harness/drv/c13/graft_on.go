//go:build verif

package main

import (
	"fmt"
	"math/rand/v2"

	"github.com/oasisprotocol/curve25519-voi/internal/strobe"
	"github.com/oasisprotocol/curve25519-voi/zzverif/mon"
	"github.com/oasisprotocol/curve25519-voi/zzverif/ref"
)

// keccakDiff: the permutation selected by this build (assembly on amd64, Go under purego) against the
// reference on random, single-bit, all-ones and iterated states; canaries around the state must survive.
func keccakDiff(r *mon.Run, c Case, rng *rand.Rand) {
	var states [][200]byte
	var z, f [200]byte
	for i := range f {
		f[i] = 0xff
	}
	states = append(states, z, f)
	for i := 0; i < 40; i++ {
		var s [200]byte
		bit := rng.IntN(1600)
		s[bit/8] = 1 << uint(bit%8)
		states = append(states, s)
	}
	for i := 0; i < 200; i++ {
		var s [200]byte
		copy(s[:], mon.Bytes(rng, 200))
		states = append(states, s)
	}
	for _, s := range states {
		got, want := s, s
		for round := 0; round < 3; round++ {
			ok := strobe.VerifKeccakF1600Bytes(&got)
			ref.KeccakBytes(&want)
			r.Eval(s[:])
			r.Hist("keccak/permutations")
			if !ok {
				r.Violate("strobe/keccakF1600/out-of-bounds-write", fmt.Sprintf("canary words around the state were modified (state %x..)", s[:16]), c)
			}
			if got != want {
				r.Violate("strobe/keccakF1600/value", fmt.Sprintf("state %x..: permutation output differs from the reference", s[:16]), c)
				break
			}
		}
	}
}
