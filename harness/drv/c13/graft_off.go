//go:build !verif

package main

import (
	"math/rand/v2"

	"github.com/oasisprotocol/curve25519-voi/zzverif/mon"
)

func keccakDiff(r *mon.Run, c Case, rng *rand.Rand) {
	r.HookMissing("strobe graft (direct permutation differential)")
}
