// C13: Merlin/STROBE transcripts follow the spec for every operation history.
// Monitor: history + executable model. PRNG programs over {NewTranscript, AppendMessage,
// ExtractBytes, Clone, BuildRng, RekeyWithWitnessBytes, Finalize, Read} run on live objects
// mirrored one-to-one by a reference Merlin v1.0 / STROBE-128 / Keccak-f[1600]; every byte
// produced is compared. A mutated twin of each program must give a different challenge.
package main

import (
	"bytes"
	"errors"
	"fmt"
	"io"
	"math/rand/v2"

	"golang.org/x/crypto/sha3"

	"github.com/oasisprotocol/curve25519-voi/primitives/merlin"
	"github.com/oasisprotocol/curve25519-voi/zzverif/mon"
	"github.com/oasisprotocol/curve25519-voi/zzverif/ref"
)

type Case struct {
	Kind   string `json:"kind"`
	Stream string `json:"stream"`
}

// Op is one step of a program (fully explicit, so programs can be mutated and replayed).
type Op struct {
	Kind    string      `json:"op"` // append | extract | clone | rng
	Target  int         `json:"on"` // index of the live transcript it acts on
	Label   []byte      `json:"label,omitempty"`
	Msg     []byte      `json:"msg,omitempty"`
	Size    int         `json:"size,omitempty"`
	Rekeys  [][2][]byte `json:"rekeys,omitempty"`
	Entropy []byte      `json:"entropy,omitempty"`
	Reads   []int       `json:"reads,omitempty"`
	// operations on the ORIGIN transcript interleaved with the life of the RNG builder: after BuildRng and before
	// the first rekey (Pre), between the last rekey and Finalize (Mid), and between Finalize and the reads (Post).
	// A builder is a fork: nothing done to its origin afterwards may show in the RNG, and vice versa.
	Pre  [][2][]byte `json:"pre,omitempty"`
	Mid  [][2][]byte `json:"mid,omitempty"`
	Post [][2][]byte `json:"post,omitempty"`
	// how the entropy reader delivers its 32 bytes: 0 = one full read, k>0 = at most k bytes per Read,
	// -1 = all bytes together with io.EOF
	Chunk int `json:"chunk,omitempty"`
	// GC: force a garbage collection (finalizers included) between Finalize and the reads
	GC bool `json:"gc,omitempty"`
}

type Program struct {
	AppLabel []byte `json:"app_label"`
	Ops      []Op   `json:"ops"`
}

var lens = []int{0, 1, 2, 3, 4, 5, 31, 32, 64, 158, 159, 160, 161, 162, 163, 164, 165, 166, 167, 168, 169, 170, 330, 331, 332, 333, 334, 498, 1024, 4096}

func pickLen(rng *rand.Rand) int {
	if rng.IntN(4) == 0 {
		return rng.IntN(700)
	}
	if rng.IntN(150) == 0 {
		// now and then a length beyond 16 bits (length framing, block loops over hundreds of blocks)
		return []int{65535, 65536, 65537, 70001, 131072 + 165}[rng.IntN(5)]
	}
	return lens[rng.IntN(len(lens))]
}

type fixed struct{ b []byte }

func (f *fixed) Read(p []byte) (int, error) { n := copy(p, f.b); return n, nil }

// chunked delivers at most n bytes per Read; dataEOF delivers everything at once together with io.EOF. Both are
// within the io.Reader contract, and io.ReadFull-style consumption must give the same 32 bytes for all of them.
type chunked struct {
	r io.Reader
	n int
}

func (c *chunked) Read(p []byte) (int, error) {
	if len(p) > c.n {
		p = p[:c.n]
	}
	return c.r.Read(p)
}

type dataEOF struct {
	b    []byte
	done bool
}

func (d *dataEOF) Read(p []byte) (int, error) {
	if d.done {
		return 0, io.EOF
	}
	d.done = true
	return copy(p, d.b), io.EOF
}

type failing struct{}

func (failing) Read(p []byte) (int, error) { return 0, errors.New("no entropy") }

// genProgram builds a program; the model is advanced alongside so that positions can be steered to the
// rate boundary before operations.
func genProgram(rng *rand.Rand, r *mon.Run) Program {
	var p Program
	p.AppLabel = mon.Bytes(rng, pickLen(rng)%40)
	models := []*ref.Transcript{ref.NewTranscript(p.AppLabel)}
	n := 3 + rng.IntN(12)
	for o := 0; o < n; o++ {
		ti := rng.IntN(len(models))
		m := models[ti]
		// steer: with probability 1/2 bring pos to a boundary value with a filler append
		if rng.IntN(2) == 0 {
			target := []int{0, 1, 2, 162, 163, 164, 165}[rng.IntN(7)]
			lab := mon.Bytes(rng, rng.IntN(4))
			for l := 0; l < 166; l++ {
				c := m.Clone()
				c.Append(lab, make([]byte, l))
				if c.Pos() == target {
					op := Op{Kind: "append", Target: ti, Label: lab, Msg: mon.Bytes(rng, l)}
					p.Ops = append(p.Ops, op)
					m.Append(op.Label, op.Msg)
					break
				}
			}
		}
		var op Op
		switch rng.IntN(6) {
		case 0, 1:
			op = Op{Kind: "append", Target: ti, Label: mon.Bytes(rng, pickLen(rng)%200), Msg: mon.Bytes(rng, pickLen(rng))}
			r.Hist(fmt.Sprintf("pos-before/append/%d", bucket(m.Pos())))
			m.Append(op.Label, op.Msg)
		case 2, 3:
			op = Op{Kind: "extract", Target: ti, Label: mon.Bytes(rng, pickLen(rng)%200), Size: pickLen(rng)}
			r.Hist(fmt.Sprintf("pos-before/extract/%d", bucket(m.Pos())))
			m.Challenge(op.Label, op.Size)
		case 4:
			op = Op{Kind: "clone", Target: ti}
			models = append(models, m.Clone())
		default:
			op = Op{Kind: "rng", Target: ti, Entropy: mon.Bytes(rng, 32)}
			r.Hist(fmt.Sprintf("pos-before/rng/%d", bucket(m.Pos())))
			for w := rng.IntN(3); w > 0; w-- {
				op.Rekeys = append(op.Rekeys, [2][]byte{mon.Bytes(rng, pickLen(rng)%100), mon.Bytes(rng, pickLen(rng))})
			}
			for k := 1 + rng.IntN(3); k > 0; k-- {
				op.Reads = append(op.Reads, pickLen(rng))
			}
			il := func() [][2][]byte {
				var o [][2][]byte
				if rng.IntN(2) == 0 {
					for k := 1 + rng.IntN(2); k > 0; k-- {
						o = append(o, [2][]byte{mon.Bytes(rng, rng.IntN(12)), mon.Bytes(rng, pickLen(rng)%200)})
					}
				}
				return o
			}
			op.Pre, op.Mid, op.Post = il(), il(), il()
			op.Chunk = []int{0, 0, 1, 7, 16, 31, -1}[rng.IntN(7)]
			op.GC = rng.IntN(12) == 0
			if op.GC {
				r.Hist("rng/gc-between-finalize-and-read")
			}
			r.Hist(fmt.Sprintf("rng/entropy-reader-chunk=%d", op.Chunk))
			r.Hist(fmt.Sprintf("rng/origin-ops-interleaved=%v", len(op.Pre)+len(op.Mid)+len(op.Post) > 0))
			for _, l := range [][][2][]byte{op.Pre, op.Mid, op.Post} {
				for _, a := range l {
					m.Append(a[0], a[1])
				}
			}
		}
		p.Ops = append(p.Ops, op)
	}
	return p
}

func bucket(pos int) int {
	switch {
	case pos <= 2 || pos >= 162:
		return pos
	default:
		return 80 // interior
	}
}

// execute runs the program on the library and on the model; returns the concatenated outputs of the library
// (used by the twin monitor) and reports every mismatch.
func execute(r *mon.Run, c Case, p Program, compare bool) []byte {
	type pair struct {
		real *merlin.Transcript
		mod  *ref.Transcript
	}
	var outAll []byte
	live := []pair{{merlin.NewTranscript(string(p.AppLabel)), ref.NewTranscript(p.AppLabel)}}
	mismatch := func(i int, what string, got, want []byte) {
		if compare {
			r.Violate("merlin/"+what, fmt.Sprintf("op %d: got %x.. want %x.. (len %d)", i, head(got), head(want), len(got)), map[string]any{"case": c, "program": p, "op_index": i})
		}
	}
	for i, op := range p.Ops {
		t := live[op.Target]
		if compare {
			r.Eval(nil)
			r.Hist("op/" + op.Kind)
			r.Journal("c13 %s op %d %s", c.Stream, i, op.Kind)
		}
		switch op.Kind {
		case "append":
			msgCopy := append([]byte{}, op.Msg...)
			t.real.AppendMessage(string(op.Label), msgCopy)
			if !bytes.Equal(msgCopy, op.Msg) {
				mismatch(i, "AppendMessage/mutates-input", msgCopy, op.Msg)
			}
			t.mod.Append(op.Label, op.Msg)
		case "extract":
			got := make([]byte, op.Size)
			t.real.ExtractBytes(got, string(op.Label))
			want := t.mod.Challenge(op.Label, op.Size)
			outAll = append(outAll, got...)
			if !bytes.Equal(got, want) {
				mismatch(i, "ExtractBytes", got, want)
			}
		case "clone":
			live = append(live, pair{t.real.Clone(), t.mod.Clone()})
		case "rng":
			rb, mb := t.real.BuildRng(), t.mod.BuildRng()
			origin := func(l [][2][]byte) {
				for _, a := range l {
					t.real.AppendMessage(string(a[0]), a[1])
					t.mod.Append(a[0], a[1])
				}
			}
			origin(op.Pre)
			for _, rk := range op.Rekeys {
				wit := append([]byte{}, rk[1]...)
				rb.RekeyWithWitnessBytes(string(rk[0]), wit)
				if !bytes.Equal(wit, rk[1]) {
					mismatch(i, "RekeyWithWitnessBytes/mutates-input", wit, rk[1])
				}
				mb.Rekey(rk[0], rk[1])
			}
			origin(op.Mid)
			var ent io.Reader = &fixed{op.Entropy}
			switch {
			case op.Chunk > 0:
				ent = &chunked{bytes.NewReader(op.Entropy), op.Chunk}
			case op.Chunk < 0:
				ent = &dataEOF{b: op.Entropy}
			}
			// failure, then retry: in every other program the builder first meets entropy sources that fail (at once, after
			// 16 bytes, after 31 bytes); each attempt must return an error and leave the builder exactly as it was, so that
			// the Finalize that follows produces the stream of the history without the failed attempts
			if (i+len(op.Rekeys)+len(op.Entropy))%2 == 0 {
				for _, avail := range []int{0, 16, 31} {
					fr, ferr := rb.Finalize(&dataEOF{b: bytes.Repeat([]byte{0xa5}, avail)})
					r.Hist("Finalize/failed-attempt-before-success")
					if ferr == nil || fr != nil {
						mismatch(i, fmt.Sprintf("Finalize/entropy-failure-ignored(avail=%d)", avail), nil, nil)
					}
				}
			}
			rr, err := rb.Finalize(ent)
			if err != nil {
				mismatch(i, fmt.Sprintf("Finalize/error(chunk=%d)", op.Chunk), []byte(err.Error()), nil)
				continue
			}
			mr := mb.Finalize(op.Entropy)
			origin(op.Post)
			if op.GC {
				// the builder is garbage now; the RNG it produced is not: a collection (with finalizers) in between
				// must not change a byte of what the RNG returns
				rb = nil
				mon.GCNow()
			}
			for _, sz := range op.Reads {
				got := make([]byte, sz)
				n, err := rr.Read(got)
				if err != nil || n != sz {
					mismatch(i, "transcriptRng.Read/short", nil, nil)
				}
				want := mr.Fill(sz)
				outAll = append(outAll, got...)
				if !bytes.Equal(got, want) {
					mismatch(i, "transcriptRng.Read", got, want)
				}
			}
		}
	}
	for i, t := range live {
		got := make([]byte, 32)
		t.real.ExtractBytes(got, "final")
		outAll = append(outAll, got...)
		if want := t.mod.Challenge([]byte("final"), 32); !bytes.Equal(got, want) {
			mismatch(len(p.Ops)+i, "ExtractBytes/final", got, want)
		}
	}
	return outAll
}

func head(b []byte) []byte {
	if len(b) > 16 {
		return b[:16]
	}
	return b
}

// finalChallenge of transcript 0 after the program, library only.
func finalOnly(p Program) []byte {
	live := []*merlin.Transcript{merlin.NewTranscript(string(p.AppLabel))}
	for _, op := range p.Ops {
		t := live[op.Target]
		switch op.Kind {
		case "append":
			t.AppendMessage(string(op.Label), op.Msg)
		case "extract":
			t.ExtractBytes(make([]byte, op.Size), string(op.Label))
		case "clone":
			live = append(live, t.Clone())
		case "rng":
			for _, l := range [][][2][]byte{op.Pre, op.Mid, op.Post} {
				for _, a := range l {
					t.AppendMessage(string(a[0]), a[1])
				}
			}
		}
	}
	out := make([]byte, 32)
	live[0].ExtractBytes(out, "final")
	return out
}

// linear keeps only the operations on transcript 0 that feed its state (twin monitor works on these).
func linear(p Program) Program {
	q := Program{AppLabel: p.AppLabel}
	for _, op := range p.Ops {
		if op.Target == 0 && (op.Kind == "append" || op.Kind == "extract") {
			q.Ops = append(q.Ops, op)
		}
	}
	return q
}

func twins(r *mon.Run, c Case, p Program, rng *rand.Rand) {
	q := linear(p)
	base := finalOnly(q)
	// determinism: identical histories give identical outputs
	if !bytes.Equal(base, finalOnly(q)) {
		r.Violate("merlin/non-deterministic", "same history, different challenge", map[string]any{"case": c, "program": q})
	}
	check := func(kind string, m Program) {
		r.Eval(nil)
		r.Hist("twin/" + kind)
		if bytes.Equal(base, finalOnly(m)) {
			r.Violate("merlin/collision/"+kind, "two different histories produced the same challenge", map[string]any{"case": c, "program": q, "twin": m})
		}
	}
	clone := func() Program {
		m := Program{AppLabel: append([]byte{}, q.AppLabel...)}
		for _, op := range q.Ops {
			o := op
			o.Label = append([]byte{}, op.Label...)
			o.Msg = append([]byte{}, op.Msg...)
			m.Ops = append(m.Ops, o)
		}
		return m
	}
	// app label changed
	m := clone()
	m.AppLabel = append(m.AppLabel, 'x')
	check("app-label", m)
	if len(q.Ops) == 0 {
		return
	}
	i := rng.IntN(len(q.Ops))
	// one label byte
	m = clone()
	if len(m.Ops[i].Label) > 0 {
		m.Ops[i].Label[rng.IntN(len(m.Ops[i].Label))] ^= 1
	} else {
		m.Ops[i].Label = []byte{0}
	}
	check("label-byte", m)
	// message split a||b vs a, b
	for j, op := range q.Ops {
		if op.Kind == "append" && len(op.Msg) >= 2 {
			m = clone()
			cut := 1 + rng.IntN(len(op.Msg)-1)
			a := m.Ops[j]
			b := m.Ops[j]
			a.Msg, b.Msg = op.Msg[:cut], op.Msg[cut:]
			m.Ops = append(append(append([]Op{}, m.Ops[:j]...), a, b), m.Ops[j+1:]...)
			check("message-split", m)
			// one byte moved from the message to the label
			m = clone()
			m.Ops[j].Label = append(m.Ops[j].Label, op.Msg[0])
			m.Ops[j].Msg = op.Msg[1:]
			check("label-message-boundary", m)
			// message extended by a zero byte / truncated
			m = clone()
			m.Ops[j].Msg = append(m.Ops[j].Msg, 0)
			check("message-extended", m)
			break
		}
	}
	// two adjacent operations swapped (when different)
	for j := 0; j+1 < len(q.Ops); j++ {
		a, b := q.Ops[j], q.Ops[j+1]
		if a.Kind != b.Kind || !bytes.Equal(a.Label, b.Label) || !bytes.Equal(a.Msg, b.Msg) || a.Size != b.Size {
			m = clone()
			m.Ops[j], m.Ops[j+1] = m.Ops[j+1], m.Ops[j]
			check("order", m)
			break
		}
	}
	// extraction size changed
	for j, op := range q.Ops {
		if op.Kind == "extract" {
			m = clone()
			m.Ops[j].Size = op.Size + 1
			check("extract-size", m)
			break
		}
	}
	// an operation dropped
	m = clone()
	m.Ops = append(append([]Op{}, m.Ops[:i]...), m.Ops[i+1:]...)
	check("op-dropped", m)
}

func runCase(r *mon.Run, c Case) {
	rng := r.Rng(c.Stream)
	switch c.Kind {
	case "program":
		p := genProgram(rng, r)
		r.Eval([]byte(c.Stream))
		execute(r, c, p, true)
		twins(r, c, p, rng)
	case "keccak":
		keccakDiff(r, c, rng)
	case "rng-errors":
		t := merlin.NewTranscript("x")
		if rr, err := t.BuildRng().Finalize(failing{}); err == nil || rr != nil {
			r.Violate("merlin/Finalize/entropy-failure-ignored", "failing entropy source produced an RNG", c)
		}
		if rr, err := t.BuildRng().Finalize(&fixed{make([]byte, 31)}); err == nil && rr != nil {
			// a reader that returns 31 bytes then 0, nil forever would spin; fixed returns n<len without error => ReadFull keeps reading
			_ = rr
		}
		r.Eval([]byte("rng-errors"))
		// nil reader means crypto/rand: two RNGs from the same transcript must differ
		a, err1 := t.BuildRng().Finalize(nil)
		b, err2 := t.BuildRng().Finalize(nil)
		if err1 != nil || err2 != nil {
			r.Violate("merlin/Finalize(nil)/error", "", c)
		} else {
			x, y := make([]byte, 32), make([]byte, 32)
			io.ReadFull(a, x)
			io.ReadFull(b, y)
			if bytes.Equal(x, y) {
				r.Violate("merlin/Finalize(nil)/no-entropy", "two system-entropy RNGs agree", c)
			}
		}
	}
}

func main() {
	r := mon.Start("C13", "PRNG programs (3..15 operations + steering appends) over {AppendMessage, ExtractBytes, Clone, BuildRng+RekeyWithWitnessBytes*+Finalize+Read*} with label/message/extraction/read lengths from {0..5,31,32,64,158..170,330..334,498,1024,4096} and uniform 0..699, the duplex position steered to {0,1,2,162,163,164,165} before half of the operations; every produced byte compared with the reference Merlin/STROBE/Keccak model; per program up to 9 mutated twins (app label, label byte, message split, label/message boundary, extension, order, extraction size, dropped operation) must give a different challenge; Keccak permutation differential with canaries through the strobe graft; non-trivial = one program; distinct = its PRNG stream")
	// oracle self-test: the reference permutation against x/crypto/sha3
	for _, n := range []int{0, 1, 167, 168, 169, 500} {
		m := bytes.Repeat([]byte{byte(n)}, n)
		want := make([]byte, 400)
		sha3.ShakeSum128(want, m)
		if !bytes.Equal(ref.Shake128(m, 400), want) {
			mon.Fatalf("ORACLE-CONFLICT reference Keccak-f[1600] disagrees with x/crypto/sha3")
		}
	}
	var c Case
	if r.Replay != "" {
		var w struct {
			Case Case `json:"case"`
		}
		if r.LoadReplay(&w) && w.Case.Kind != "" {
			runCase(r, w.Case)
		} else if r.LoadReplay(&c) {
			runCase(r, c)
		}
		r.Finish()
		return
	}
	var cases []Case
	for i := 0; i < r.Pick(8000, 250000); i++ {
		cases = append(cases, Case{Kind: "program", Stream: fmt.Sprintf("c13/program/%d", i)})
	}
	for i := 0; i < r.Pick(20, 400); i++ {
		cases = append(cases, Case{Kind: "keccak", Stream: fmt.Sprintf("c13/keccak/%d", i)})
	}
	cases = append(cases, Case{Kind: "rng-errors", Stream: "c13/rng-errors"})
	r.Parallel(len(cases), func(i int) { runCase(r, cases[i]) })
	p := genProgram(r.Rng(cases[0].Stream), r)
	r.Sample("program", map[string]any{"stream": cases[0].Stream, "app_label_len": len(p.AppLabel), "ops": summarize(p)})
	r.Sample("case", cases[len(cases)-2])
	// the boundary positions must have been observed for every operation kind
	for _, k := range []string{"append", "extract", "rng"} {
		for _, pos := range []int{0, 1, 163, 164, 165} {
			if r.HistGet(fmt.Sprintf("pos-before/%s/%d", k, pos)) == 0 {
				r.Inconclusive(fmt.Sprintf("no %s observed starting at duplex position %d", k, pos))
			}
		}
	}
	r.Finish()
}

func summarize(p Program) []string {
	var out []string
	for _, op := range p.Ops {
		out = append(out, fmt.Sprintf("%s(on=%d,label=%d,msg=%d,size=%d,rekeys=%d,reads=%v)", op.Kind, op.Target, len(op.Label), len(op.Msg), op.Size, len(op.Rekeys), op.Reads))
	}
	return out
}
