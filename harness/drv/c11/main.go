// C11: Ristretto255 is a canonical prime-order group encoding (RFC 9496).
// Monitor: every decode / encode / Equal / one-way-map / group-operation call is shadowed by
// the RFC 9496 pseudocode in big integers; encodings and equality are driven over all four
// coset representatives in several projective scalings (through the curve graft).
package main

import (
	"bytes"
	"fmt"
	"math/big"
	"math/rand/v2"
	"sort"

	"github.com/oasisprotocol/curve25519-voi/curve"
	"github.com/oasisprotocol/curve25519-voi/curve/scalar"
	"github.com/oasisprotocol/curve25519-voi/zzverif/entropy"
	"github.com/oasisprotocol/curve25519-voi/zzverif/fluent"
	"github.com/oasisprotocol/curve25519-voi/zzverif/gen"
	"github.com/oasisprotocol/curve25519-voi/zzverif/gx"
	"github.com/oasisprotocol/curve25519-voi/zzverif/hist"
	"github.com/oasisprotocol/curve25519-voi/zzverif/mon"
	"github.com/oasisprotocol/curve25519-voi/zzverif/ref"
)

type Case struct {
	Kind   string `json:"kind"`
	Stream string `json:"stream,omitempty"`
	Lo     int    `json:"lo,omitempty"`
	Hi     int    `json:"hi,omitempty"`
	In     string `json:"in,omitempty"`
}

type ctx struct {
	r *mon.Run
	c Case
	h *hist.Pool // receivers with a past (see package hist)
}

var gEnc = ref.RistrettoEncode(ref.B)
var zero32 = make([]byte, 32)

func (x *ctx) loadedG() *curve.RistrettoPoint {
	return x.h.RVal(curve.RISTRETTO_BASEPOINT_POINT)
}

func renc(p *curve.RistrettoPoint) []byte {
	var c curve.CompressedRistretto
	c.SetRistrettoPoint(p)
	return c[:]
}

func (x *ctx) decodeString(b []byte) {
	r := x.r
	pt, ok := ref.RistrettoDecode(b)
	det := func() string { return fmt.Sprintf("in=%x", b) }
	r.Journal("c11 decode %x", b)
	r.Eval(b)
	r.Hist(fmt.Sprintf("decode/accept=%v/bit255=%v", ok, b[31]&0x80 != 0))
	var c curve.CompressedRistretto
	if _, err := c.SetBytes(b); err != nil {
		r.Violate("ristretto/CompressedRistretto.SetBytes/32-bytes", det(), x.c)
		return
	}
	p := x.loadedG()
	_, err := p.SetCompressed(&c)
	if (err == nil) != ok {
		r.Violate(fmt.Sprintf("ristretto/SetCompressed/accept/want=%v", ok), fmt.Sprintf("err=%v; %s", err, det()), x.c)
		return
	}
	q := x.loadedG()
	err2 := q.UnmarshalBinary(b)
	if (err2 == nil) != ok {
		r.Violate(fmt.Sprintf("ristretto/UnmarshalBinary/accept/want=%v", ok), fmt.Sprintf("err=%v; %s", err2, det()), x.c)
	}
	var cq curve.CompressedRistretto
	copy(cq[:], gEnc)
	err3 := cq.UnmarshalBinary(b)
	if (err3 == nil) != ok {
		r.Violate(fmt.Sprintf("ristretto/CompressedRistretto.UnmarshalBinary/accept/want=%v", ok), fmt.Sprintf("err=%v; %s", err3, det()), x.c)
	}
	r.EvalN(3)
	if !ok {
		if !q.IsIdentity() || !bytes.Equal(renc(q), zero32) {
			r.Violate("ristretto/UnmarshalBinary/receiver-after-failure", det(), x.c)
		}
		if !bytes.Equal(cq[:], zero32) {
			r.Violate("ristretto/CompressedRistretto.UnmarshalBinary/receiver-after-failure", det(), x.c)
		}
		return
	}
	// re-encoding an accepted string returns the same bytes
	for name, v := range map[string]*curve.RistrettoPoint{"SetCompressed": p, "UnmarshalBinary": q} {
		if got := renc(v); !bytes.Equal(got, b) {
			r.Violate("ristretto/"+name+"/re-encode", fmt.Sprintf("re-encodes to %x; %s", got, det()), x.c)
		}
	}
	mb, _ := p.MarshalBinary()
	if !bytes.Equal(mb, b) {
		r.Violate("ristretto/MarshalBinary", fmt.Sprintf("got %x; %s", mb, det()), x.c)
	}
	if !bytes.Equal(cq[:], b) {
		r.Violate("ristretto/CompressedRistretto.UnmarshalBinary/bytes", det(), x.c)
	}
	if want := ref.RistrettoEncode(pt); !bytes.Equal(want, b) {
		mon.Fatalf("ORACLE-CONFLICT reference decode/encode not inverse on %x", b)
	}
	if p.IsIdentity() != bytes.Equal(b, zero32) {
		r.Violate("ristretto/IsIdentity", det(), x.c)
	}
}

func (x *ctx) lengths(rng *rand.Rand) {
	r := x.r
	for l := 0; l <= 70; l++ {
		if l == 32 {
			continue
		}
		for fill := 0; fill < 3; fill++ {
			var b []byte
			switch fill {
			case 0:
				b = make([]byte, l)
			case 1:
				b = bytes.Repeat([]byte{0xff}, l)
			default:
				b = make([]byte, l)
				copy(b, gEnc)
				if l > 32 {
					copy(b[32:], mon.Bytes(rng, l-32))
				}
			}
			det := func() string { return fmt.Sprintf("len=%d fill=%d", l, fill) }
			r.Eval([]byte(det()))
			r.Hist("lengths")
			p := x.loadedG()
			var err error
			if pan, msg := mon.Try(func() { err = p.UnmarshalBinary(b) }); pan {
				r.Violate("ristretto/RistrettoPoint.UnmarshalBinary/panic", msg+"; "+det(), x.c)
				continue
			}
			if err == nil {
				r.Violate("ristretto/RistrettoPoint.UnmarshalBinary/wrong-length-accepted", "nil error; "+det(), x.c)
			}
			if !p.IsIdentity() {
				r.Violate("ristretto/RistrettoPoint.UnmarshalBinary/receiver-after-length-error", det(), x.c)
			}
			var c curve.CompressedRistretto
			copy(c[:], gEnc)
			if pan, msg := mon.Try(func() { err = c.UnmarshalBinary(b) }); pan {
				r.Violate("ristretto/CompressedRistretto.UnmarshalBinary/panic", msg+"; "+det(), x.c)
				continue
			}
			if err == nil {
				r.Violate("ristretto/CompressedRistretto.UnmarshalBinary/wrong-length-accepted", "nil error; "+det(), x.c)
			}
			if !bytes.Equal(c[:], zero32) {
				r.Violate("ristretto/CompressedRistretto.UnmarshalBinary/receiver-after-length-error", det(), x.c)
			}
			var c2 curve.CompressedRistretto
			if res, err := c2.SetBytes(b); err == nil || res != nil {
				r.Violate("ristretto/CompressedRistretto.SetBytes/wrong-length-accepted", det(), x.c)
			}
			if l != 64 {
				if res, err := x.h.R().SetUniformBytes(b); err == nil || res != nil {
					r.Violate("ristretto/SetUniformBytes/wrong-length-accepted", det(), x.c)
				}
			}
		}
	}
}

// cosets: all internal representatives of one element encode identically and compare equal.
func (x *ctx) cosets(rng *rand.Rand) {
	mixedDone := false
	r := x.r
	if !gx.Available {
		r.HookMissing("curve graft (coset representatives)")
		return
	}
	cat := gen.ScalarCatalogue()
	var prev *curve.RistrettoPoint
	var prevK *big.Int
	for i := 0; i < 12; i++ {
		k := new(big.Int).Mod(gen.RandScalar(rng, cat), ref.L)
		base := ref.B.Mul(k)
		want := ref.RistrettoEncode(base)
		det := func() string { return fmt.Sprintf("element [%x]B", k) }
		r.Eval([]byte("coset" + k.String()))
		var reps []*curve.RistrettoPoint
		for j := 0; j < 8; j += 2 { // E[4] = even multiples of the E[8] generator
			ep := gen.LibPoint(ref.Encode(base.Add(gen.Tors[j])))
			for s := 0; s < 3; s++ {
				rp := gx.RistrettoFromEdwards(gx.Rescale(ep, rng))
				reps = append(reps, rp)
				r.Eval(nil)
				r.Hist(fmt.Sprintf("coset/torsion%d", j))
				if got := renc(rp); !bytes.Equal(got, want) {
					r.Violate("ristretto/encode/coset-dependent", fmt.Sprintf("representative +T_%d encodes to %x, RFC encoding %x; %s", j, got, want, det()), x.c)
				}
				if rp.IsIdentity() != (k.Sign() == 0) {
					r.Violate("ristretto/IsIdentity/coset", det(), x.c)
				}
			}
		}
		for a := range reps {
			for b := range reps {
				r.Eval(nil)
				if reps[a].Equal(reps[b]) != 1 {
					r.Violate("ristretto/Equal/representatives-unequal", fmt.Sprintf("representatives %d and %d; %s", a, b, det()), x.c)
				}
			}
		}
		if prev != nil && prevK.Cmp(k) != 0 {
			for _, rp := range reps {
				r.Eval(nil)
				if rp.Equal(prev) == 1 {
					r.Violate("ristretto/Equal/distinct-elements-equal", det(), x.c)
				}
			}
		}
		// P vs P + (order-8 point) is a different element of the quotient... not a valid representative; P vs -P differ unless 2P=O
		if k.Sign() != 0 {
			neg := x.h.R().Neg(reps[0])
			if neg.Equal(reps[1]) == 1 {
				r.Violate("ristretto/Equal/P-equals-minus-P", det(), x.c)
			}
		}
		// group operations agree with the reference
		k2 := new(big.Int).Mod(gen.RandScalar(rng, cat), ref.L)
		other := gx.RistrettoFromEdwards(gen.LibPoint(ref.Encode(ref.B.Mul(k2).Add(gen.Tors[2*rng.IntN(4)]))))
		sum := x.h.R().Add(reps[rng.IntN(len(reps))], other)
		if !bytes.Equal(renc(sum), ref.RistrettoEncode(ref.B.Mul(new(big.Int).Add(k, k2)))) {
			r.Violate("ristretto/Add", det(), x.c)
		}
		diff := x.h.R().Sub(reps[rng.IntN(len(reps))], other)
		if !bytes.Equal(renc(diff), ref.RistrettoEncode(ref.B.Mul(new(big.Int).Mod(new(big.Int).Sub(k, k2), ref.L)))) {
			r.Violate("ristretto/Sub", det(), x.c)
		}
		s3 := x.h.R().Sum([]*curve.RistrettoPoint{reps[0], other, reps[len(reps)-1]})
		if !bytes.Equal(renc(s3), ref.RistrettoEncode(ref.B.Mul(new(big.Int).Add(new(big.Int).Lsh(k, 1), k2)))) {
			r.Violate("ristretto/Sum", det(), x.c)
		}
		sc, _ := scalar.NewFromBits(ref.LE32(k2))
		mul := x.h.R().Mul(reps[rng.IntN(len(reps))], sc)
		if !bytes.Equal(renc(mul), ref.RistrettoEncode(ref.B.Mul(new(big.Int).Mod(new(big.Int).Mul(k, k2), ref.L)))) {
			r.Violate("ristretto/Mul", det(), x.c)
		}
		for ch := 0; ch < 2; ch++ {
			t := x.h.R()
			t.ConditionalSelect(reps[0], other, ch)
			w := want
			if ch == 1 {
				w = ref.RistrettoEncode(ref.B.Mul(k2))
			}
			if !bytes.Equal(renc(t), w) {
				r.Violate("ristretto/ConditionalSelect", det(), x.c)
			}
		}
		// representatives produced by each scalar-multiplication algorithm: they must encode to the RFC bytes and
		// behave as operands (their extended coordinates, incl. T, are consumed by encoding and addition)
		kk := new(big.Int).Mod(new(big.Int).Mul(k, k2), ref.L)
		one := scalar.One()
		zero := scalar.New()
		rbase := reps[0]
		algos := map[string]func() *curve.RistrettoPoint{
			"Mul":                             func() *curve.RistrettoPoint { return x.h.R().Mul(rbase, sc) },
			"DoubleScalarMulBasepointVartime": func() *curve.RistrettoPoint { return x.h.R().DoubleScalarMulBasepointVartime(sc, rbase, zero) },
			"ExpandedDoubleScalarMulBasepointVartime": func() *curve.RistrettoPoint {
				return x.h.R().ExpandedDoubleScalarMulBasepointVartime(sc, curve.NewExpandedRistrettoPoint(rbase), zero)
			},
			"MultiscalarMul": func() *curve.RistrettoPoint {
				return x.h.R().MultiscalarMul([]*scalar.Scalar{sc}, []*curve.RistrettoPoint{rbase})
			},
			"MultiscalarMulVartime": func() *curve.RistrettoPoint {
				return x.h.R().MultiscalarMulVartime([]*scalar.Scalar{sc, zero}, []*curve.RistrettoPoint{rbase, other})
			},
			"ExpandedMultiscalarMulVartime": func() *curve.RistrettoPoint {
				return x.h.R().ExpandedMultiscalarMulVartime([]*scalar.Scalar{sc}, []*curve.ExpandedRistrettoPoint{curve.NewExpandedRistrettoPoint(rbase)}, nil, nil)
			},
			"MulBasepoint(custom table)": func() *curve.RistrettoPoint { return x.h.R().MulBasepoint(curve.NewRistrettoBasepointTable(rbase), sc) },
			"in-place MultiscalarMul(acc among the points)": func() *curve.RistrettoPoint {
				acc := x.h.R().Set(rbase)
				return acc.MultiscalarMul([]*scalar.Scalar{sc, zero}, []*curve.RistrettoPoint{acc, other})
			},
			"in-place MultiscalarMulVartime(acc among the points)": func() *curve.RistrettoPoint {
				acc := x.h.R().Set(rbase)
				return acc.MultiscalarMulVartime([]*scalar.Scalar{zero, sc}, []*curve.RistrettoPoint{other, acc})
			},
			"in-place Mul/Add/Sub/Neg": func() *curve.RistrettoPoint {
				acc := x.h.R().Set(rbase)
				acc.Mul(acc, sc)
				acc.Add(acc, acc)
				acc.Sub(acc, x.h.R().Mul(rbase, sc))
				acc.Neg(acc)
				return acc.Neg(acc)
			},
		}
		wantKK := ref.RistrettoEncode(ref.B.Mul(kk))
		wantSum := ref.RistrettoEncode(ref.B.Mul(new(big.Int).Add(kk, k2)))
		// the expanded multiscalar routine with different static and dynamic lists on both sides of the algorithm
		// switch (the element is [sum]B: all points are known multiples of B)
		if !mixedDone && len(x.c.Stream)%2 == 0 {
			mixedDone = true
			var pk []*big.Int
			var pp []*curve.RistrettoPoint
			for i := 0; i < 12; i++ {
				kv := new(big.Int).Mod(gen.RandScalar(rng, cat), ref.L)
				pk = append(pk, kv)
				pp = append(pp, gx.RistrettoFromEdwards(gen.LibPoint(ref.Encode(ref.B.Mul(kv)))))
			}
			for _, split := range [][2]int{{3, 5}, {90, 101}, {100, 100}, {1, 199}, {120, 80}, {260, 20}} {
				var ss, ds []*scalar.Scalar
				var sp []*curve.ExpandedRistrettoPoint
				var dp []*curve.RistrettoPoint
				total := new(big.Int)
				for i := 0; i < split[0]+split[1]; i++ {
					kv, pt := pk[i%12], pp[i%12]
					sv := new(big.Int).Mod(gen.RandScalar(rng, cat), ref.L)
					sl, _ := scalar.NewFromCanonicalBytes(ref.LE32(sv))
					total.Add(total, new(big.Int).Mul(kv, sv))
					if i < split[0] {
						ss, sp = append(ss, sl), append(sp, curve.NewExpandedRistrettoPoint(pt))
					} else {
						ds, dp = append(ds, sl), append(dp, pt)
					}
				}
				wantM := ref.RistrettoEncode(ref.B.Mul(total.Mod(total, ref.L)))
				var got *curve.RistrettoPoint
				pan, msg := mon.Try(func() { got = x.h.R().ExpandedMultiscalarMulVartime(ss, sp, ds, dp) })
				r.Eval(nil)
				r.Hist(fmt.Sprintf("ExpandedMultiscalarMulVartime/static=%d/dynamic=%d", split[0], split[1]))
				if pan || !bytes.Equal(renc(got), wantM) {
					r.Violate("ristretto/ExpandedMultiscalarMulVartime/mixed-lists", fmt.Sprintf("static=%d dynamic=%d: panic=%v %s got %x want %x", split[0], split[1], pan, msg, renc(got), wantM), x.c)
				}
			}
		}
		// a table and an expansion built from a point object that the caller changes before their first use
		{
			src := x.h.RVal(rbase)
			rt := curve.NewRistrettoBasepointTable(src)
			rx := curve.NewExpandedRistrettoPoint(src)
			src.Add(src, other)
			algos["NewRistrettoBasepointTable(P); P changed; MulBasepoint"] = func() *curve.RistrettoPoint { return x.h.R().MulBasepoint(rt, sc) }
			algos["NewExpandedRistrettoPoint(P); P changed; ExpandedDoubleScalarMulBasepointVartime"] = func() *curve.RistrettoPoint {
				return x.h.R().ExpandedDoubleScalarMulBasepointVartime(sc, rx, zero)
			}
			r.Eval(nil)
			if got := renc(rt.Basepoint()); !bytes.Equal(got, renc(rbase)) {
				r.Violate("ristretto/NewRistrettoBasepointTable/tracks-its-argument", fmt.Sprintf("Basepoint() = %x after the caller changed its point, the table was built for %x; %s", got, renc(rbase), det()), x.c)
			}
		}
		// an expansion whose object used to stand for another element, a value copy of which is still alive
		xq, oldCopy, oldPoint := x.h.XR(rbase)
		algos["ExpandedDoubleScalarMulBasepointVartime(re-targeted expansion)"] = func() *curve.RistrettoPoint {
			return x.h.R().ExpandedDoubleScalarMulBasepointVartime(sc, xq, zero)
		}
		algos["ExpandedMultiscalarMulVartime(re-targeted expansion)"] = func() *curve.RistrettoPoint {
			return x.h.R().ExpandedMultiscalarMulVartime([]*scalar.Scalar{sc}, []*curve.ExpandedRistrettoPoint{xq}, nil, nil)
		}
		r.Eval(nil)
		if got := renc(x.h.R().ExpandedDoubleScalarMulBasepointVartime(one, oldCopy, zero)); !bytes.Equal(got, renc(oldPoint)) || !bytes.Equal(renc(oldCopy.Point()), renc(oldPoint)) {
			r.Violate("ristretto/ExpandedRistrettoPoint/value-copy-changed-by-re-targeting-the-original", fmt.Sprintf("[1]copy = %x, the copy's element %x; %s", got, renc(oldPoint), det()), x.c)
		}
		var names []string
		for name := range algos {
			names = append(names, name)
		}
		sort.Strings(names)
		for _, name := range names {
			f := algos[name]
			var res *curve.RistrettoPoint
			pan, msg := mon.Try(func() { res = f() })
			r.Eval(nil)
			r.Hist("algorithm-output/" + name)
			if pan {
				r.Violate("ristretto/"+name+"/panic", msg+"; "+det(), x.c)
				continue
			}
			if got := renc(res); !bytes.Equal(got, wantKK) {
				r.Violate("ristretto/"+name+"/encoding", fmt.Sprintf("result of %s encodes to %x, RFC encoding of the element %x; %s", name, got, wantKK, det()), x.c)
				continue
			}
			if got := renc(x.h.R().Add(res, other)); !bytes.Equal(got, wantSum) {
				r.Violate("ristretto/"+name+"/as-operand", fmt.Sprintf("result of %s used as an operand of Add gives %x, want %x; %s", name, got, wantSum, det()), x.c)
			}
			if res.Equal(x.h.R().Mul(rbase, sc)) != 1 {
				r.Violate("ristretto/"+name+"/Equal", det(), x.c)
			}
		}
		_ = one
		r.EvalN(6)
		prev, prevK = reps[0], k
	}
}

func (x *ctx) uniform(rng *rand.Rand) {
	r := x.r
	halves := [][]byte{make([]byte, 32), bytes.Repeat([]byte{0xff}, 32), ref.LE32(big.NewInt(1)), ref.LE32(new(big.Int).Sub(ref.P, big.NewInt(1))), ref.LE32(ref.P), ref.LE32(new(big.Int).Sub(gen.Two255, big.NewInt(1))), ref.LE32(ref.SqrtM1)}
	var ins [][]byte
	for _, a := range halves {
		for _, b := range halves {
			ins = append(ins, append(append([]byte{}, a...), b...))
		}
	}
	for i := 0; i < 60; i++ {
		ins = append(ins, mon.Bytes(rng, 64))
	}
	for _, in := range ins {
		det := func() string { return fmt.Sprintf("in=%x", in) }
		r.Eval(in)
		r.Hist("uniform")
		p, err := x.h.R().SetUniformBytes(in)
		if err != nil {
			r.Violate("ristretto/SetUniformBytes/error", det(), x.c)
			continue
		}
		want := ref.RistrettoEncode(ref.RistrettoFromUniform(in))
		if got := renc(p); !bytes.Equal(got, want) {
			r.Violate("ristretto/SetUniformBytes/value", fmt.Sprintf("got %x want %x; %s", got, want, det()), x.c)
		}
		p2, err := x.h.R().SetRandom(bytes.NewReader(in))
		if err != nil || !bytes.Equal(renc(p2), want) {
			r.Violate("ristretto/SetRandom/value", det(), x.c)
		}
	}
	if _, err := x.h.R().SetRandom(bytes.NewReader(make([]byte, 63))); err == nil {
		r.Violate("ristretto/SetRandom/short-entropy", "63 bytes accepted", x.c)
	}
}

func sString(v *big.Int, top uint) []byte {
	w := new(big.Int).Set(v)
	w.SetBit(w, 255, top)
	return ref.LE32(w)
}

// entropyCase: the entropy-consuming APIs of this property behind differently behaving readers (package entropy).
func entropyCase(r *mon.Run, c Case) {
	entropy.Check(r, "C11", r.Rng(c.Stream), func(sig, what string) { r.Violate(sig, what, c) })
}

// mixedLists: the expanded multiscalar routine with different static and dynamic lists on both sides of the algorithm
// switch, through the exported API only (points are [k]G made with Mul and checked against the reference encoding), so
// that it also runs when the in-package observers do not fit the tree under test.
func (x *ctx) mixedLists(rng *rand.Rand) {
	r := x.r
	cat := gen.ScalarCatalogue()
	var pk []*big.Int
	var pp []*curve.RistrettoPoint
	for i := 0; i < 12; i++ {
		kv := new(big.Int).Mod(gen.RandScalar(rng, cat), ref.L)
		ks, _ := scalar.NewFromCanonicalBytes(ref.LE32(kv))
		pt := curve.NewRistrettoPoint().Mul(curve.RISTRETTO_BASEPOINT_POINT, ks)
		if !bytes.Equal(renc(pt), ref.RistrettoEncode(ref.B.Mul(kv))) {
			r.Violate("ristretto/Mul", fmt.Sprintf("[k]G for k=%x", kv), x.c)
			return
		}
		pk, pp = append(pk, kv), append(pp, pt)
	}
	// the scalars of one call share a SHAPE (an implementation may look at all of them before choosing how many digit
	// columns to process): full-size, all below 2^128 with the top bit of that range set in some, all below 2^127,
	// 2^64, all multiples of 2^128, all equal; the term counts reach over every window switch (190, 500, 800)
	shapeNames := []string{"catalogue", "<2^128", "<2^127", "<2^64", "multiples of 2^128", "all equal", "<2^129", "<2^136"}
	for si, split := range [][2]int{{3, 5}, {90, 101}, {100, 100}, {1, 199}, {120, 80}, {260, 20}, {300, 250}, {0, 800}, {400, 405}, {799, 2}, {0, 520}} {
		shape := (si + len(x.c.Stream)) % len(shapeNames)
		if split[0]+split[1] >= 500 {
			shape = 1 + (si+len(x.c.Stream))%2*5 // the two shapes around 2^128 for the widest window
		}
		same := new(big.Int).Mod(gen.RandScalar(rng, cat), ref.L)
		shaped := func() *big.Int {
			v := new(big.Int).Mod(gen.RandScalar(rng, cat), ref.L)
			r128 := new(big.Int).SetBytes(mon.Bytes(rng, 17))
			switch shape {
			case 1:
				v = r128.Rsh(r128, 8)
				if rng.IntN(3) == 0 {
					v.SetBit(v, 127, 1)
				}
			case 2:
				v = r128.Rsh(r128, 9)
			case 3:
				v = r128.Rsh(r128, 72)
			case 4:
				v = new(big.Int).Mod(new(big.Int).Lsh(r128.Rsh(r128, 20), 128), ref.L)
				v.Rsh(v, 128).Lsh(v, 128)
			case 5:
				v = same
			case 6:
				v = r128.Rsh(r128, 7)
			case 7:
				v = r128
			}
			return v
		}
		var ss, ds []*scalar.Scalar
		var sp []*curve.ExpandedRistrettoPoint
		var dp []*curve.RistrettoPoint
		total := new(big.Int)
		for i := 0; i < split[0]+split[1]; i++ {
			kv, pt := pk[i%12], pp[i%12]
			sv := shaped()
			sl, _ := scalar.NewFromCanonicalBytes(ref.LE32(sv))
			total.Add(total, new(big.Int).Mul(kv, sv))
			if i < split[0] {
				ss, sp = append(ss, sl), append(sp, curve.NewExpandedRistrettoPoint(pt))
			} else {
				ds, dp = append(ds, sl), append(dp, pt)
			}
		}
		wantM := ref.RistrettoEncode(ref.B.Mul(total.Mod(total, ref.L)))
		var got, got2 *curve.RistrettoPoint
		pan, msg := mon.Try(func() {
			got = x.h.R().ExpandedMultiscalarMulVartime(ss, sp, ds, dp)
			got2 = x.h.R().MultiscalarMulVartime(append(append([]*scalar.Scalar{}, ss...), ds...), append(append([]*curve.RistrettoPoint{}, pp[:0]...), func() []*curve.RistrettoPoint {
				var all []*curve.RistrettoPoint
				for i := 0; i < split[0]+split[1]; i++ {
					all = append(all, pp[i%12])
				}
				return all
			}()...))
		})
		r.EvalN(2)
		r.Hist(fmt.Sprintf("ExpandedMultiscalarMulVartime/static=%d/dynamic=%d", split[0], split[1]))
		r.Hist("multiscalar-scalar-shape/" + shapeNames[shape])
		if pan || !bytes.Equal(renc(got), wantM) || !bytes.Equal(renc(got2), wantM) {
			r.Violate("ristretto/ExpandedMultiscalarMulVartime/mixed-lists", fmt.Sprintf("static=%d dynamic=%d scalars %s: panic=%v %s expanded %x plain %x want %x", split[0], split[1], shapeNames[shape], pan, msg, renc(got), renc(got2), wantM), x.c)
		}
	}
}

func runCase(r *mon.Run, c Case) {
	if c.Kind == "fluent" {
		fluentCheck(r)
		return
	}
	if c.Kind == "entropy" {
		entropyCase(r, c)
		return
	}
	x := &ctx{r: r, c: c, h: hist.New(r.Rng(c.Stream + "/receivers"))}
	defer func() { r.HistN("receivers-with-a-past", x.h.Uses) }()
	rng := r.Rng(c.Stream)
	switch c.Kind {
	case "mixed-lists":
		x.mixedLists(rng)
	case "string":
		x.decodeString(mon.UnHex(c.In))
	case "srange":
		for s := c.Lo; s < c.Hi; s++ {
			for top := uint(0); top < 2; top++ {
				x.decodeString(sString(big.NewInt(int64(s)), top))
				x.decodeString(sString(new(big.Int).Sub(gen.Two255, big.NewInt(int64(s+1))), top))
				x.decodeString(sString(new(big.Int).Sub(ref.P, big.NewInt(int64(s+1))), top))
			}
		}
	case "classes":
		// constructed members of each RFC failure class: negative s, non-canonical s, non-square, negative t, y = 0
		n := 0
		for n < 200 {
			b := mon.Bytes(rng, 32)
			b[31] &= 0x7f
			x.decodeString(b)
			// its negation (negative s) and its +p form where representable
			v := ref.FromLE(b)
			if v.Cmp(ref.P) < 0 {
				x.decodeString(ref.LE32(new(big.Int).Sub(ref.P, v)))
			}
			n++
		}
		// valid encodings and their neighbours
		for i := 0; i < 60; i++ {
			k := gen.RandModL(rng)
			e := ref.RistrettoEncode(ref.B.Mul(k))
			x.decodeString(e)
			f := append([]byte{}, e...)
			f[31] |= 0x80
			x.decodeString(f)
			g := append([]byte{}, e...)
			g[rng.IntN(32)] ^= 1 << uint(rng.IntN(8))
			x.decodeString(g)
			v := ref.FromLE(e)
			if vp := new(big.Int).Add(v, ref.P); vp.BitLen() <= 255 {
				x.decodeString(ref.LE32(vp))
			}
			x.decodeString(ref.LE32(new(big.Int).Sub(ref.P, v)))
		}
	case "lengths":
		x.lengths(rng)
	case "cosets":
		x.cosets(rng)
	case "uniform":
		x.uniform(rng)
	}
}

func main() {
	r := mon.Start("C11", "strings: s in [0,N), [p-N,p) and [2^255-N,2^255) x bit 255 clear/set (N = 768 quick, 65536 thorough), PRNG strings with their negations and +p forms, valid encodings with bit flips / bit 255 / +p / negation; lengths 0..70 with pre-loaded receivers; for elements [k]B (k catalogue + PRNG): all 4 coset representatives x 3 projective scalings through the graft must encode to the RFC bytes and be pairwise Equal, distinct elements unequal; Add/Sub/Sum/Mul/ConditionalSelect through encodings; SetUniformBytes/SetRandom on halves {0, ff, 1, p-1, p, 2^255-1, sqrt(-1)}^2 + PRNG vs the RFC one-way map; non-trivial = a string / element / 64-byte input; distinct = SHA-256 of it")
	r.Observe("graft", gx.Available)
	var c Case
	if r.LoadReplay(&c) {
		runCase(r, c)
		r.Finish()
		return
	}
	var cases []Case
	n := r.Pick(768, 65536)
	for lo := 0; lo < n; lo += 32 {
		cases = append(cases, Case{Kind: "srange", Lo: lo, Hi: lo + 32})
	}
	cases = append(cases, Case{Kind: "lengths", Stream: "c11/lengths"})
	for i := 0; i < r.Pick(2, 12); i++ {
		cases = append(cases, Case{Kind: "mixed-lists", Stream: fmt.Sprintf("c11/mixed-lists/%d", i)})
	}
	for i := 0; i < r.Pick(8, 300); i++ {
		cases = append(cases, Case{Kind: "classes", Stream: fmt.Sprintf("c11/classes/%d", i)})
	}
	for i := 0; i < r.Pick(30, 800); i++ {
		cases = append(cases, Case{Kind: "cosets", Stream: fmt.Sprintf("c11/cosets/%d", i)})
	}
	for i := 0; i < r.Pick(10, 300); i++ {
		cases = append(cases, Case{Kind: "uniform", Stream: fmt.Sprintf("c11/uniform/%d", i)})
	}
	r.Parallel(len(cases), func(i int) { runCase(r, cases[i]) })
	r.Sample("case", cases[0])
	r.Sample("case", cases[len(cases)-1])
	r.Sample("valid-encoding", mon.Hex(gEnc))
	if r.HistGet("decode/accept=true/bit255=false") == 0 {
		r.Inconclusive("no accepted encoding observed")
	}
	for i := 0; i < r.Pick(6, 60); i++ {
		entropyCase(r, Case{Kind: "entropy", Stream: fmt.Sprintf("c11/entropy/%d", i)})
	}
	fluentCheck(r)
	r.Finish()
}

// fluentCheck: every "sets the receiver and returns it" method of this property's types must return its receiver
// (package fluent).
func fluentCheck(r *mon.Run) {
	fluent.Check(r, Case{Kind: "fluent"}, (*curve.RistrettoPoint)(nil), (*curve.CompressedRistretto)(nil), (*curve.ExpandedRistrettoPoint)(nil), (*curve.RistrettoBasepointTable)(nil))
}
