//go:build verif

package main

import (
	"strings"

	"github.com/oasisprotocol/curve25519-voi/primitives/ed25519/extra/cache"
	"github.com/oasisprotocol/curve25519-voi/zzverif/mon"
)

func inspect(r *mon.Run, c cache.Cache, capacity int, fail func(sig, what string)) {
	snap, ok := cache.VerifInspect(c)
	if !ok {
		return
	}
	r.Max("cache/max-entries-minus-capacity", int64(snap.ListLen-capacity))
	if snap.ListLen == capacity {
		r.Hist("cache/inspections-at-capacity")
	}
	if len(snap.Problems) > 0 {
		fail("cache/structure/"+snap.Problems[0], strings.Join(snap.Problems, "; "))
	}
}
