// C09: batch, expanded-key and cached verification agree with single verification.
// Monitor: model-based history checking. PRNG programs over the BatchVerifier API run on a
// real verifier and on a model that is the list of entries since the last Reset, each with
// its single-verification verdict; cache programs run on a real LRU behind a recording
// wrapper and each decision is compared with plain verification.
package main

import (
	"bytes"
	"crypto"
	"fmt"
	"math/big"
	"strings"

	"github.com/oasisprotocol/curve25519-voi/curve"
	"github.com/oasisprotocol/curve25519-voi/primitives/ed25519"
	"github.com/oasisprotocol/curve25519-voi/primitives/ed25519/extra/cache"
	"github.com/oasisprotocol/curve25519-voi/zzverif/disturb"
	"github.com/oasisprotocol/curve25519-voi/zzverif/entropy"
	"github.com/oasisprotocol/curve25519-voi/zzverif/gen"
	"github.com/oasisprotocol/curve25519-voi/zzverif/mon"
	"github.com/oasisprotocol/curve25519-voi/zzverif/ref"
)

type Case struct {
	Kind   string `json:"kind"`
	Stream string `json:"stream"`
	Size   int    `json:"size"`
	Mode   string `json:"mode"`
}

type item struct {
	c        gen.EdCase
	pk       []byte
	msg, sig []byte
	exp      *ed25519.ExpandedPublicKey
	validDef bool // valid under the default options (cofactored)
}

var pool []item
var validPool []int

func optsFor(c gen.EdCase, fl int) *ed25519.Options {
	f := ref.FlagsFromBits(fl)
	o := &ed25519.Options{Context: string(mon.UnHex(c.Ctx)), Verify: &ed25519.VerifyOptions{AllowSmallOrderA: f.SmallA, AllowSmallOrderR: f.SmallR, AllowNonCanonicalA: f.NonCanonA, AllowNonCanonicalR: f.NonCanonR, CofactorlessVerify: f.Cofactorless}}
	if c.Variant == 2 {
		o.Hash = crypto.SHA512
	}
	return o
}

func single(pk, msg, sig []byte, o *ed25519.Options) (ok, panicked bool) {
	panicked, _ = mon.Try(func() { ok = ed25519.VerifyWithOptions(pk, msg, sig, o) })
	return ok && !panicked, panicked
}

func singleExpanded(exp *ed25519.ExpandedPublicKey, msg, sig []byte, o *ed25519.Options) (ok, panicked bool) {
	if exp == nil {
		return false, true
	}
	panicked, _ = mon.Try(func() { ok = ed25519.VerifyExpandedWithOptions(exp, msg, sig, o) })
	return ok && !panicked, panicked
}

func buildPool(r *mon.Run) {
	rng := r.Rng("c09/pool")
	cases := gen.EdFamilies(rng, r.Pick(12, 40), r.Pick(60, 300))
	for _, c := range cases {
		it := item{c: c, pk: mon.UnHex(c.PK), msg: mon.UnHex(c.Msg), sig: mon.UnHex(c.Sig)}
		it.exp, _ = ed25519.NewExpandedPublicKey(it.pk)
		it.validDef, _ = single(it.pk, it.msg, it.sig, optsFor(c, 2))
		pool = append(pool, it)
		if it.validDef {
			validPool = append(validPool, len(pool)-1)
		}
	}
	r.Observe("pool_entries", len(pool))
	r.Observe("pool_valid_under_default", len(validPool))
}

type modelEntry struct {
	bit          bool
	cofactorless bool
}

// history runs one batch program.
func history(r *mon.Run, c Case) {
	rng := r.Rng(c.Stream)
	var bv *ed25519.BatchVerifier
	switch rng.IntN(3) {
	case 0:
		bv = ed25519.NewBatchVerifierWithCapacity(c.Size)
	case 1:
		bv = ed25519.NewBatchVerifierWithCapacity(rng.IntN(8))
	default:
		bv = ed25519.NewBatchVerifier()
	}
	var model []modelEntry
	var trace []string
	step := func(s string) {
		trace = append(trace, s)
		r.Journal("c09 %s %s", c.Stream, s)
	}
	fail := func(sig, what string) {
		t := trace
		if len(t) > 40 {
			t = append([]string{fmt.Sprintf("... %d earlier steps ...", len(t)-40)}, t[len(t)-40:]...)
		}
		r.Violate(sig, what, map[string]any{"case": c, "trace_tail": t})
	}
	entropy := func() *bytes.Reader {
		switch rng.IntN(3) {
		case 0:
			return nil
		case 1:
			return bytes.NewReader(make([]byte, 64))
		}
		return bytes.NewReader(mon.Bytes(rng, 64))
	}
	check := func() {
		// Verify
		var all bool
		var bits []bool
		var rd1, rd2 = entropy(), entropy()
		// one check in three is immediately preceded by an operation that fails (package disturb)
		if d := rng.IntN(3 * disturb.NEd25519); d < disturb.NEd25519 {
			step("disturbance: " + disturb.Ed25519(d))
			r.Hist("disturbed-before-batch-verify")
		}
		pan, msg := mon.Try(func() {
			if rd1 == nil {
				all, bits = bv.Verify(nil)
			} else {
				all, bits = bv.Verify(rd1)
			}
		})
		r.Eval(nil)
		step(fmt.Sprintf("Verify (entries=%d)", len(model)))
		if pan {
			fail("batch/Verify/panic", msg)
			return
		}
		wantAll := len(model) > 0
		nCof := 0
		for _, m := range model {
			wantAll = wantAll && m.bit
			if m.cofactorless {
				nCof++
			}
		}
		r.Hist(fmt.Sprintf("batch/Verify/size-class=%s/all=%v/cofactorless=%v", sizeClass(len(model)), wantAll, nCof > 0))
		if len(bits) != len(model) {
			fail("batch/Verify/length", fmt.Sprintf("%d bits for %d entries", len(bits), len(model)))
			return
		}
		for i := range model {
			if bits[i] != model[i].bit {
				fail(fmt.Sprintf("batch/Verify/bit/want=%v", model[i].bit), fmt.Sprintf("entry %d of %d: batch says %v, single verification says %v", i, len(model), bits[i], model[i].bit))
				break
			}
		}
		if all != wantAll {
			fail(fmt.Sprintf("batch/Verify/overall/want=%v", wantAll), fmt.Sprintf("%d entries: overall %v", len(model), all))
		}
		// VerifyBatchOnly: non-empty, all valid, no cofactorless entry
		var only bool
		pan, msg = mon.Try(func() {
			if rd2 == nil {
				only = bv.VerifyBatchOnly(nil)
			} else {
				only = bv.VerifyBatchOnly(rd2)
			}
		})
		r.Eval(nil)
		step("VerifyBatchOnly")
		wantOnly := wantAll && nCof == 0
		r.Hist(fmt.Sprintf("batch/VerifyBatchOnly/size-class=%s/want=%v", sizeClass(len(model)), wantOnly))
		if pan {
			fail("batch/VerifyBatchOnly/panic", msg)
		} else if only != wantOnly {
			fail(fmt.Sprintf("batch/VerifyBatchOnly/want=%v", wantOnly), fmt.Sprintf("%d entries (%d cofactorless): got %v", len(model), nCof, only))
		}
	}
	sharedOpts := &ed25519.Options{}
	var keyBuf [32]byte
	// cancelling forgeries: k individually invalid entries (R_i, S_i + d_i) with d_1 + ... + d_k = 0 (mod L) built from
	// valid signatures without any secret. A sound batch equation weights every entry with its own unpredictable
	// coefficient and rejects them; one whose coefficients coincide (or repeat with a period) accepts the set.
	addCancelling := func() {
		k := 2 + rng.IntN(2)
		deltas := make([]*big.Int, k)
		sum := new(big.Int)
		for i := 0; i < k-1; i++ {
			deltas[i] = big.NewInt(int64(1 + rng.IntN(1000)))
			if rng.IntN(2) == 0 {
				deltas[i].Neg(deltas[i])
			}
			sum.Add(sum, deltas[i])
		}
		deltas[k-1] = new(big.Int).Neg(sum)
		for i := 0; i < k; i++ {
			if deltas[i].Sign() == 0 {
				deltas[i].SetInt64(1)
				deltas[0].Sub(deltas[0], big.NewInt(1))
			}
		}
		for i := 0; i < k; i++ {
			it := pool[validPool[rng.IntN(len(validPool))]]
			sv := ref.FromLE(it.sig[32:])
			sv.Add(sv, deltas[i])
			sv.Mod(sv, ref.L)
			fsig := append(append([]byte{}, it.sig[:32]...), ref.LE32(sv)...)
			o := optsFor(it.c, 2)
			bit, _ := single(it.pk, it.msg, fsig, o)
			bv.AddWithOptions(it.pk, it.msg, fsig, o)
			r.Eval(fsig)
			r.Hist("entry/cancelling-forgery")
			step(fmt.Sprintf("Add(cancelling forgery %d of %d, delta %v, single=%v)", i+1, k, deltas[i], bit))
			model = append(model, modelEntry{bit: bit})
		}
	}
	// an earlier valid entry comes back: as an exact copy (valid), or with only S altered (same A, same message, same
	// R; invalid). Entries are judged one by one.
	addRepeat := func(mode string) {
		it := pool[validPool[rng.IntN(len(validPool))]]
		o := optsFor(it.c, 2)
		sig := it.sig
		bv.AddWithOptions(it.pk, it.msg, sig, o)
		model = append(model, modelEntry{bit: true})
		step("Add(valid entry, to be repeated)")
		for k := 0; k < 1+rng.IntN(2); k++ {
			s2 := append([]byte{}, sig...)
			if mode != "valid" && rng.IntN(2) == 0 {
				sv := ref.FromLE(s2[32:])
				sv.Add(sv, big.NewInt(int64(1+rng.IntN(50))))
				sv.Mod(sv, ref.L)
				copy(s2[32:], ref.LE32(sv))
			}
			bit, _ := single(it.pk, it.msg, s2, o)
			bv.AddWithOptions(it.pk, it.msg, s2, o)
			r.Eval(s2)
			r.Hist(fmt.Sprintf("entry/repeat-of-an-earlier-entry/single=%v", bit))
			step(fmt.Sprintf("Add(repeat of the previous entry, single=%v)", bit))
			model = append(model, modelEntry{bit: bit})
		}
	}
	add := func(mode string) {
		if len(validPool) > 0 && rng.IntN(14) == 0 {
			addRepeat(mode)
			return
		}
		if mode != "valid" && len(validPool) > 0 && rng.IntN(10) == 0 {
			addCancelling()
			return
		}
		var it item
		fl := 2 // default options
		switch mode {
		case "valid":
			it = pool[validPool[rng.IntN(len(validPool))]]
			if rng.IntN(3) == 0 {
				fl = []int{2, 3, 7, 15}[rng.IntN(4)] // other cofactored presets that accept at least what the default accepts
			}
		default:
			it = pool[rng.IntN(len(pool))]
			fl = rng.IntN(32)
			if rng.IntN(2) == 0 {
				fl = []int{2, 3, 7, 15, 23}[rng.IntN(5)]
			}
		}
		o := optsFor(it.c, fl)
		pk, msg, sig := it.pk, it.msg, it.sig
		exp := it.exp
		malformed := ""
		if mode != "valid" && rng.IntN(12) == 0 {
			switch rng.IntN(5) {
			case 0:
				pk, exp, malformed = pk[:31], nil, "31-byte key"
			case 1:
				o.Hash, malformed = crypto.SHA512, "ph with wrong message length"
				if len(msg) == 64 {
					msg = msg[:63]
				}
			case 2:
				o.Context, malformed = string(make([]byte, 256)), "256-byte context"
			case 3:
				sig, malformed = sig[:min(len(sig), 63)], "short signature"
			default:
				exp, pk, malformed = nil, nil, "nil key"
			}
		}
		useDefault := fl == 2 && it.c.Variant == 0 && malformed == "" && rng.IntN(2) == 0
		expanded := rng.IntN(2) == 0
		var bit, pan bool
		// the verifier gets the caller's own buffers and option struct, which the caller overwrites as soon as Add has
		// returned: an entry stands for the values it was added with. (A cofactorless entry keeps the caller's signature
		// slice by design - it needs R's bytes for the final comparison - so that one buffer is left alone.)
		clone := func(b []byte) []byte {
			if b == nil {
				return nil
			}
			return append(make([]byte, 0, len(b)+8), b...)
		}
		cpk, cmsg, csig := ed25519.PublicKey(clone(pk)), clone(msg), clone(sig)
		recycled := len(pk) == 32 && rng.IntN(2) == 0
		if recycled {
			// ... or the caller keeps ONE key buffer for the whole history and copies each key into it before Add
			copy(keyBuf[:], pk)
			cpk = ed25519.PublicKey(keyBuf[:])
		}
		co := *o
		pco := &co
		reuse := rng.IntN(2) == 0
		if reuse {
			// ... or the caller keeps ONE option struct for the whole history and rewrites its fields before each Add
			*sharedOpts = *o
			pco = sharedOpts
		}
		if expanded {
			bit, pan = singleExpanded(exp, msg, sig, o)
			if useDefault {
				bv.AddExpanded(exp, cmsg, csig)
			} else {
				bv.AddExpandedWithOptions(exp, cmsg, csig, pco)
			}
		} else {
			bit, pan = single(pk, msg, sig, o)
			if useDefault {
				bv.Add(cpk, cmsg, csig)
			} else {
				bv.AddWithOptions(cpk, cmsg, csig, pco)
			}
		}
		for _, b := range [][]byte{cpk, cmsg} {
			if recycled && len(b) > 0 && &b[0] == &keyBuf[0] {
				continue // left as it is until the next key is copied in
			}
			for i := range b {
				b[i] ^= 0xff
			}
		}
		if o.Verify == nil || !o.Verify.CofactorlessVerify {
			for i := range csig {
				csig[i] ^= 0xff
			}
		}
		if !reuse {
			co.Context, co.Hash, co.Verify = "overwritten after Add", crypto.SHA512, ed25519.VerifyOptionsStdLib
		}
		r.Eval(it.c.Key())
		r.Hist(fmt.Sprintf("entry/%s/bit=%v/expanded=%v", famClass(it.c.Fam, malformed), bit, expanded))
		step(fmt.Sprintf("Add(expanded=%v fam=%s flags=%02d malformed=%q single=%v single-panics=%v)", expanded, it.c.Fam, fl, malformed, bit, pan))
		model = append(model, modelEntry{bit: bit, cofactorless: o.Verify.CofactorlessVerify && !(o.Verify.AllowNonCanonicalR)})
		// an entry whose options are the incompatible pair is invalid and counts as cofactorless only if the library says so;
		// batch-only is false either way because the entry is invalid
	}
	fill := func(n int, mode string) {
		forceAt := -1
		if rng.IntN(3) == 0 {
			forceAt = rng.IntN(n + 1)
		}
		for i := 0; i < n; i++ {
			if i == forceAt {
				bv.ForceNoPublicKeyExpansion()
				step("ForceNoPublicKeyExpansion")
			}
			add(mode)
			if n <= 8 && rng.IntN(4) == 0 {
				check()
			}
		}
		if forceAt == n {
			bv.ForceNoPublicKeyExpansion()
			step("ForceNoPublicKeyExpansion")
		}
	}
	fill(c.Size, c.Mode)
	check()
	if rng.IntN(2) == 0 {
		// keep adding to the same batch
		fill(1+rng.IntN(4), "mixed")
		check()
	}
	bv.Reset()
	model = nil
	step("Reset")
	check() // empty
	fill(1+rng.IntN(max(1, c.Size/2)), []string{"valid", "mixed"}[rng.IntN(2)])
	check()
	bv.Reset()
	model = nil
	step("Reset")
	fill(1+rng.IntN(3), "valid")
	check()
}

func sizeClass(n int) string {
	switch {
	case n == 0:
		return "0"
	case n < 94:
		return "1..93"
	case n < 95:
		return "94"
	case n < 190:
		return "95..189"
	default:
		return ">=190"
	}
}

func famClass(f, malformed string) string {
	if malformed != "" {
		return "malformed"
	}
	if len(f) > 3 && (f[:3] == "R+T" || f[:3] == "A+T") {
		return f[:3]
	}
	if len(f) > 6 && f[:6] == "siglen" {
		return "siglen"
	}
	return f
}

// recording wrapper around the real LRU
type recCache struct {
	inner              cache.Cache
	hits, misses, puts int
	wrongKey           int
}

func (c *recCache) Get(k *curve.CompressedEdwardsY) *ed25519.ExpandedPublicKey {
	e := c.inner.Get(k)
	if e == nil {
		c.misses++
	} else {
		c.hits++
		if e.CompressedY() != *k {
			c.wrongKey++
		}
	}
	return e
}

func (c *recCache) Put(k *curve.CompressedEdwardsY, e *ed25519.ExpandedPublicKey) {
	c.puts++
	c.inner.Put(k, e)
}

func cacheProgram(r *mon.Run, c Case) {
	rng := r.Rng(c.Stream)
	capacity := 1 + rng.IntN(4)
	rc := &recCache{inner: cache.NewLRUCache(capacity)}
	v := cache.NewVerifier(rc)
	// key universe: capacity+1..+3 signers (their entries from the pool share keys), plus special keys
	nKeys := capacity + 1 + rng.IntN(3)
	var universe []item
	seen := map[string]bool{}
	for len(seen) < nKeys {
		it := pool[rng.IntN(len(pool))]
		if len(it.pk) != 32 {
			continue
		}
		seen[string(it.pk)] = true
	}
	for _, it := range pool {
		if seen[string(it.pk)] {
			universe = append(universe, it)
		}
	}
	// look-alikes: decodable keys that agree with a key of the universe on a whole byte range (the first 8, 16, 24
	// bytes; the last 8, 16, 24 bytes; all but one byte) - a cache that identifies keys by less than all 32 bytes
	// confuses them. They carry the signature of the key they resemble (so plain verification says no).
	base := len(universe)
	for li := 0; li < 6 && base > 0; li++ {
		src := universe[rng.IntN(base)]
		for try := 0; try < 40; try++ {
			lk := append([]byte{}, src.pk...)
			switch li {
			case 0, 1, 2: // same first 8/16/24 bytes
				copy(lk[8*(li+1):], mon.Bytes(rng, 32-8*(li+1)))
			case 3, 4: // same last 8/16 bytes
				copy(lk[:32-8*(li-2)], mon.Bytes(rng, 32-8*(li-2)))
			default: // one byte differs
				lk[rng.IntN(31)] ^= byte(1 + rng.IntN(255))
			}
			if bytes.Equal(lk, src.pk) || !ref.Decode(lk).OK {
				continue
			}
			la := src
			la.pk = lk
			la.exp, _ = ed25519.NewExpandedPublicKey(lk)
			universe = append(universe, la)
			r.Hist("cache/look-alike-keys")
			break
		}
	}
	var trace []string
	fail := func(sig, what string) {
		t := trace
		if len(t) > 40 {
			t = t[len(t)-40:]
		}
		r.Violate(sig, what, map[string]any{"case": c, "capacity": capacity, "trace_tail": t})
	}
	for op := 0; op < 60; op++ {
		it := universe[rng.IntN(len(universe))]
		if op%7 == 3 && len(universe) > base {
			// a look-alike right after the key it resembles was used
			it = universe[base+rng.IntN(len(universe)-base)]
		}
		fl := []int{2, 3, 7, 15, 23, rng.IntN(32)}[rng.IntN(6)]
		o := optsFor(it.c, fl)
		pk := it.pk
		if rng.IntN(15) == 0 {
			pk = pk[:rng.IntN(32)]
		}
		want, wantPan := single(pk, it.msg, it.sig, o)
		r.Eval(nil)
		switch rng.IntN(5) {
		case 0, 1, 2:
			var got bool
			pan, _ := mon.Try(func() {
				if fl == 0 && it.c.Variant == 0 && false {
					got = v.Verify(pk, it.msg, it.sig)
				} else {
					kbuf := append(make([]byte, 0, len(pk)+8), pk...)
					got = v.VerifyWithOptions(kbuf, it.msg, it.sig, o)
					for i := range kbuf {
						kbuf[i] ^= 0xff
					}
				}
			})
			trace = append(trace, fmt.Sprintf("VerifyWithOptions(key=%x.. fam=%s flags=%02d) plain=%v cache=%v", pk[:min(4, len(pk))], it.c.Fam, fl, want, got))
			r.Hist(fmt.Sprintf("cache/VerifyWithOptions/plain=%v", want))
			if (got && !pan) != want {
				fail(fmt.Sprintf("cache/VerifyWithOptions/want=%v", want), fmt.Sprintf("cached verification %v (panic=%v), plain verification %v (panic=%v) for family %s flags %02d", got, pan, want, wantPan, it.c.Fam, fl))
			}
			if it.c.Variant == 0 && len(pk) == 32 {
				d, _ := single(pk, it.msg, it.sig, &ed25519.Options{})
				var g bool
				p2, _ := mon.Try(func() { g = v.Verify(pk, it.msg, it.sig) })
				if (g && !p2) != d {
					fail(fmt.Sprintf("cache/Verify/want=%v", d), "cached default verification differs from plain")
				}
			}
		case 3:
			bv := ed25519.NewBatchVerifier()
			it2 := universe[rng.IntN(len(universe))]
			o2 := optsFor(it2.c, 2)
			w2, _ := single(it2.pk, it2.msg, it2.sig, o2)
			pan, msg := mon.Try(func() {
				v.AddWithOptions(bv, pk, it.msg, it.sig, o)
				v.AddWithOptions(bv, it2.pk, it2.msg, it2.sig, o2)
			})
			if pan {
				fail("cache/AddWithOptions/panic", msg)
				continue
			}
			_, bits := bv.Verify(nil)
			trace = append(trace, fmt.Sprintf("AddWithOptions x2 -> bits %v want [%v %v]", bits, want, w2))
			r.Hist("cache/AddWithOptions")
			if len(bits) != 2 || bits[0] != want || bits[1] != w2 {
				fail("cache/AddWithOptions/bits", fmt.Sprintf("batch through the cache %v, plain [%v %v]", bits, want, w2))
			}
		default:
			// the cache gets the caller's own key buffer, which the caller overwrites once the call has returned
			kbuf := append(make([]byte, 0, len(pk)+8), pk...)
			pan, msg := mon.Try(func() { v.AddPublicKey(kbuf) })
			for i := range kbuf {
				kbuf[i] ^= 0xff
			}
			trace = append(trace, fmt.Sprintf("AddPublicKey(%x..)", pk[:min(4, len(pk))]))
			r.Hist("cache/AddPublicKey")
			if pan {
				fail("cache/AddPublicKey/panic", msg)
			}
		}
		if rc.wrongKey > 0 {
			fail("cache/Get/expansion-of-a-different-key", "the cache returned an expanded key whose CompressedY differs from the key asked for")
			rc.wrongKey = 0
		}
		inspect(r, rc.inner, capacity, fail)
	}
	r.HistN("cache/observed-hits", int64(rc.hits))
	r.HistN("cache/observed-misses", int64(rc.misses))
	r.HistN("cache/observed-puts", int64(rc.puts))
}

// entropyCase: the entropy-consuming APIs of this property behind differently behaving readers (package entropy).
func entropyCase(r *mon.Run, c Case) {
	entropy.Check(r, "C09", r.Rng(c.Stream), func(sig, what string) { r.Violate(sig, what, c) })
}

// sweep: every pool entry under every one of the 32 option sets, through every alternative path, compared with plain
// verification: expanded key, caching verifier (miss, then hit), batch of two (with Add and with AddExpanded, next to
// a valid entry). The PRNG programs reach these combinations only by chance; the sweep reaches all of them always.
func sweep(r *mon.Run, c Case) {
	it := pool[c.Size]
	var other *item
	if len(validPool) > 0 {
		other = &pool[validPool[c.Size%len(validPool)]]
	}
	for fl := 0; fl < 32; fl++ {
		o := optsFor(it.c, fl)
		want, wpan := single(it.pk, it.msg, it.sig, o)
		fail := func(path string, got bool, pan bool) {
			r.Violate("sweep/"+path+fmt.Sprintf("/want=%v", want), fmt.Sprintf("family %s, option set %02d: %s says %v (panic=%v), plain verification says %v (panic=%v)", it.c.Fam, fl, path, got, pan, want, wpan), map[string]any{"case": c})
		}
		r.Eval(it.c.Key())
		r.Hist(fmt.Sprintf("sweep/%s", famClass(it.c.Fam, "")))
		if it.exp != nil {
			if got, pan := singleExpanded(it.exp, it.msg, it.sig, o); got != want || (pan != wpan) {
				fail("VerifyExpandedWithOptions", got, pan)
			}
		}
		if len(it.pk) == 32 {
			cv := cache.NewVerifier(cache.NewLRUCache(1))
			for pass := 0; pass < 2; pass++ {
				var got bool
				pan, _ := mon.Try(func() { got = cv.VerifyWithOptions(it.pk, it.msg, it.sig, o) })
				// where plain verification documents a panic the cached verifier may panic or refuse; it must not accept
				if (wpan && !pan && got) || (!wpan && (pan || got != want)) {
					fail(fmt.Sprintf("cache.VerifyWithOptions(pass %d)", pass), got, pan)
				}
			}
		}
		// two things wrong at once: the same inputs under option sets that are themselves unacceptable (a pre-hash
		// identifier the scheme does not know, a pre-hash of the wrong length for this message, an over-long context). Plain
		// verification documents a panic for them whatever else is wrong with the key or the signature; verification with
		// the expanded key must decide the same way (panic for panic, false for false), whichever check it runs first
		if it.exp != nil && fl%4 == 1 {
			for bi, bo := range []ed25519.Options{{Hash: crypto.SHA256}, {Hash: crypto.SHA512}, {Context: strings.Repeat("c", 256)}, {Hash: crypto.SHA512, Context: strings.Repeat("c", 256)}} {
				bo.Verify = o.Verify
				if bi == 1 && len(it.msg) == 64 {
					continue // a 64-byte message is a well-formed pre-hash
				}
				bw, bwpan := single(it.pk, it.msg, it.sig, &bo)
				bg, bgpan := singleExpanded(it.exp, it.msg, it.sig, &bo)
				r.Eval(nil)
				r.Hist(fmt.Sprintf("sweep/unacceptable-options/plain-panics=%v", bwpan))
				if bg != bw || bgpan != bwpan {
					r.Violate("sweep/unacceptable-options/expanded-differs-from-plain", fmt.Sprintf("family %s, option set %02d, unacceptable options #%d: VerifyExpandedWithOptions says %v (panic=%v), VerifyWithOptions says %v (panic=%v)", it.c.Fam, fl, bi, bg, bgpan, bw, bwpan), map[string]any{"case": c})
				}
			}
		}
		if wpan || other == nil {
			continue
		}
		od := optsFor(other.c, 2)
		for _, expanded := range []bool{false, true} {
			if expanded && it.exp == nil {
				continue
			}
			var bits []bool
			var all, only bool
			pan, _ := mon.Try(func() {
				bv := ed25519.NewBatchVerifier()
				if expanded {
					bv.AddExpandedWithOptions(it.exp, it.msg, it.sig, o)
				} else {
					bv.AddWithOptions(it.pk, it.msg, it.sig, o)
				}
				bv.AddWithOptions(other.pk, other.msg, other.sig, od)
				only = bv.VerifyBatchOnly(nil)
				all, bits = bv.Verify(nil)
			})
			r.Eval(nil)
			cofactorless := o.Verify.CofactorlessVerify
			switch {
			case pan:
				fail(fmt.Sprintf("batch(expanded=%v)/panic", expanded), false, true)
			case len(bits) != 2 || bits[0] != want || !bits[1] || all != want:
				fail(fmt.Sprintf("batch(expanded=%v).Verify", expanded), len(bits) == 2 && bits[0], false)
			case only != (want && !cofactorless):
				fail(fmt.Sprintf("batch(expanded=%v).VerifyBatchOnly", expanded), only, false)
			}
		}
	}
}

// sweepOptionOrders: ONE entry (same key bytes, message, signature) added again and again to one batch under changing
// option sets - every non-panicking set of the 32 in a PRNG order, then in the reverse order - so that every set
// follows every kind of other set directly, on the plain, the non-expanding and the expanded add path. Each bit must
// equal the single verification under that entry's own options: nothing decided for one entry may carry over to the
// next one because the key bytes are the same.
func sweepOptionOrders(r *mon.Run, c Case) {
	it := pool[c.Size]
	if len(it.pk) != 32 {
		return
	}
	rng := r.Rng(fmt.Sprintf("c09/option-orders/%d", c.Size))
	var fls []int
	var wants []bool
	for _, fl := range rng.Perm(32) {
		w, wpan := single(it.pk, it.msg, it.sig, optsFor(it.c, fl))
		if wpan {
			continue
		}
		fls = append(fls, fl)
		wants = append(wants, w)
	}
	for _, reverse := range []bool{false, true} {
		for mode := 0; mode < 3; mode++ {
			if mode == 2 && it.exp == nil {
				continue
			}
			order := append([]int{}, fls...)
			ws := append([]bool{}, wants...)
			if reverse {
				for i, j := 0, len(order)-1; i < j; i, j = i+1, j-1 {
					order[i], order[j] = order[j], order[i]
					ws[i], ws[j] = ws[j], ws[i]
				}
			}
			var bits []bool
			var all bool
			pan, pmsg := mon.Try(func() {
				bv := ed25519.NewBatchVerifier()
				if mode == 1 {
					bv.ForceNoPublicKeyExpansion()
				}
				kbuf := make([]byte, 32)
				for _, fl := range order {
					copy(kbuf, it.pk) // the same bytes in the caller's recycled buffer
					if mode == 2 {
						bv.AddExpandedWithOptions(it.exp, it.msg, it.sig, optsFor(it.c, fl))
					} else {
						bv.AddWithOptions(kbuf, it.msg, it.sig, optsFor(it.c, fl))
					}
					for i := range kbuf {
						kbuf[i] = 0
					}
				}
				all, bits = bv.Verify(nil)
			})
			r.Eval(nil)
			r.Hist(fmt.Sprintf("sweep/option-orders/mode%d", mode))
			wantAll := true
			for _, w := range ws {
				wantAll = wantAll && w
			}
			bad := pan || len(bits) != len(ws) || all != wantAll
			for i := 0; !bad && i < len(ws); i++ {
				bad = bits[i] != ws[i]
			}
			if bad {
				r.Violate("sweep/one-entry-under-changing-options", fmt.Sprintf("family %s, mode %d (0 plain, 1 no expansion, 2 expanded), option sets in order %v: batch says %v %v (panic=%v %s), single verification says %v", it.c.Fam, mode, order, all, bits, pan, pmsg, ws), map[string]any{"case": c})
			}
		}
	}
}

func runCase(r *mon.Run, c Case) {
	if c.Kind == "entropy" {
		entropyCase(r, c)
		return
	}
	switch c.Kind {
	case "sweep":
		sweep(r, c)
		sweepOptionOrders(r, c)
	case "history":
		history(r, c)
	case "cache":
		cacheProgram(r, c)
	}
}

func main() {
	r := mon.Start("C09", "batch histories: PRNG programs over {NewBatchVerifier(WithCapacity), Add, AddWithOptions, AddExpanded, AddExpandedWithOptions, ForceNoPublicKeyExpansion at a random position, Verify, VerifyBatchOnly, Reset, reuse} with first-batch sizes {1..8,37,38,63,64,93,94,95,96,189,190,191 (+249..251,399..401,1000 thorough)} in all-valid and mixed modes; entries from the C01 adversarial families (valid, S+kL, torsion-perturbed R and A, small-order, non-canonical, undecodable, bad lengths) + malformed adds (31-byte/nil key, bad ph length, 256-byte context, short signature), per-entry options from all 32 flag sets, entropy nil/zeros/PRNG; model = list of single-verification verdicts since the last Reset. Cache programs: capacities 1..4, key universes capacity+1..+3, 60 operations over {VerifyWithOptions, Verify, AddWithOptions into a batch, AddPublicKey} with truncated keys, compared with plain verification, structure inspected after every operation; non-trivial = one program; distinct = SHA-256 of the entries it adds")
	buildPool(r)
	var c Case
	if r.Replay != "" {
		var w struct {
			Case Case `json:"case"`
		}
		if r.LoadReplay(&w) {
			runCase(r, w.Case)
		}
		r.Finish()
		return
	}
	sizes := []int{1, 2, 3, 4, 5, 6, 7, 8, 37, 38, 63, 64, 93, 94, 95, 96, 189, 190, 191}
	if !r.Quick {
		sizes = append(sizes, 249, 250, 251, 399, 400, 401, 1000)
	}
	var cases []Case
	for rep := 0; rep < r.Pick(6, 60); rep++ {
		for _, s := range sizes {
			for _, mode := range []string{"valid", "mixed"} {
				if s >= 249 && rep > 1 {
					continue
				}
				cases = append(cases, Case{Kind: "history", Stream: fmt.Sprintf("c09/history/%d/%s/%d", s, mode, rep), Size: s, Mode: mode})
			}
		}
	}
	for i := 0; i < r.Pick(400, 10000); i++ {
		cases = append(cases, Case{Kind: "cache", Stream: fmt.Sprintf("c09/cache/%d", i)})
	}
	for i := range pool {
		cases = append(cases, Case{Kind: "sweep", Size: i})
	}
	_ = c
	r.Parallel(len(cases), func(i int) { runCase(r, cases[i]) })
	r.Sample("case", cases[0])
	r.Sample("case", cases[len(cases)/2])
	r.Sample("case", cases[len(cases)-1])
	for _, b := range []string{"batch/VerifyBatchOnly/size-class=1..93/want=true", "batch/VerifyBatchOnly/size-class=95..189/want=true", "batch/VerifyBatchOnly/size-class=>=190/want=true", "batch/VerifyBatchOnly/size-class=1..93/want=false"} {
		if r.HistGet(b) == 0 {
			r.Inconclusive("workload never reached " + b)
		}
	}
	if r.HistGet("cache/observed-hits") == 0 || r.HistGet("cache/observed-misses") == 0 {
		r.Inconclusive("cache workload observed no hits or no misses")
	}
	for i := 0; i < r.Pick(6, 60); i++ {
		entropyCase(r, Case{Kind: "entropy", Stream: fmt.Sprintf("c09/entropy/%d", i)})
	}
	r.Finish()
}
