//go:build verif

// situ: in-situ contract monitors. The library is built from a scratch copy in which the vinstr instrumenter
// wrapped selected functions with Pre/Post boundary hooks; this driver registers a handler for those hooks and
// runs the whole-library workload, so that every value that flows through the hooked functions during realistic
// use is checked:
//
//	-monitor field    every field operation is shadowed with math/big (exactness on the representations the library
//	                  actually produces) and the largest limb each operand position ever held is recorded (C04)
//	-monitor digits   every digit vector produced by a recoding and every table-lookup argument is range-checked
//	                  where it is produced / consumed (C17)
//	-monitor lattice  the short-vector postcondition is checked for every scalar that reaches FindShortVector (C16)
package main

import (
	"bytes"
	"flag"
	"fmt"
	"math/big"
	"math/bits"
	"strings"

	"github.com/oasisprotocol/curve25519-voi/curve/scalar"
	"github.com/oasisprotocol/curve25519-voi/internal/field"
	"github.com/oasisprotocol/curve25519-voi/internal/lattice"
	"github.com/oasisprotocol/curve25519-voi/internal/zzverifrt"
	"github.com/oasisprotocol/curve25519-voi/zzverif/mon"
	"github.com/oasisprotocol/curve25519-voi/zzverif/ref"
	"github.com/oasisprotocol/curve25519-voi/zzverif/workload"
)

var monitor = flag.String("monitor", "field", "field|digits|lattice")

// sink sees every top-level API call of the workload complete; it is used to sample which calls are shadowed
// (1 of every `every` calls, deterministically), because the field shadow costs a big-integer computation per
// field operation and one signature verification is thousands of them.
type sink struct{ r *mon.Run }

var (
	calls   int
	every   = 1
	enabled = true
)

func (s sink) Out(op string, parts ...[]byte) {
	calls++
	enabled = calls%every == 0
	if enabled {
		run.Hist("shadowed-api-calls")
	}
}

type frame struct {
	name string
	vals []*big.Int // operand values captured before the call (aliasing-safe)
	raw  [][]uint64
}

var (
	run     *mon.Run
	stack   []frame
	P       = ref.P
	weights = field.VerifLimbWeights()
	busy    bool // the handler itself uses library code (ToBytes of scalars): do not recurse
)

func mod(v *big.Int) *big.Int { return new(big.Int).Mod(v, P) }

func feVal(fe *field.Element) (*big.Int, []uint64) {
	l := field.VerifLimbs(fe)
	v := new(big.Int)
	for i, x := range l {
		v.Add(v, new(big.Int).Lsh(new(big.Int).SetUint64(x), weights[i]))
	}
	return v, l
}

func short(name string) string { return name[strings.Index(name, ":")+1:] }

func envelope(op string, pos int, limbs []uint64) {
	for i, l := range limbs {
		// excess over the nominal limb width, in 1/1000 bit
		width := 51.0
		if len(limbs) == 10 {
			width = 26 - float64(i%2)
		}
		if l == 0 {
			continue
		}
		ex := int64((log2(l) - width) * 1000)
		run.Max(fmt.Sprintf("limb-excess-millibits/%s/operand%d", op, pos), ex)
	}
}

func log2(x uint64) float64 {
	n := bits.Len64(x)
	// n-1 + log2(mantissa)
	f := float64(x) / float64(uint64(1)<<uint(n-1))
	return float64(n-1) + ln2(f)
}

func ln2(f float64) float64 { // log2 on [1,2)
	// few terms are enough for reporting purposes
	y := (f - 1) / (f + 1)
	y2 := y * y
	return 2 * y * (1 + y2/3 + y2*y2/5 + y2*y2*y2/7) / 0.6931471805599453
}

func violate(sig, what string) {
	run.Violate(sig, what, map[string]any{"monitor": *monitor, "hook": sig})
}

func handler(name string, phase int, args []interface{}) {
	if busy || !enabled {
		if !enabled {
			stack = stack[:0]
		}
		return
	}
	busy = true
	defer func() { busy = false }()
	op := short(name)
	switch {
	case strings.HasPrefix(op, "Element."):
		if *monitor == "field" {
			fieldHook(strings.TrimPrefix(op, "Element."), phase, args)
		}
	case strings.HasPrefix(op, "Scalar."):
		if *monitor == "digits" && phase == 1 {
			digitHook(strings.TrimPrefix(op, "Scalar."), args)
		}
	case strings.HasSuffix(op, ".Lookup"):
		if *monitor == "digits" && phase == 0 {
			lookupHook(op, args)
		}
	case op == ".FindShortVector":
		if *monitor == "lattice" && phase == 1 {
			latticeHook(args)
		}
	}
}

func fieldHook(m string, phase int, args []interface{}) {
	if phase == 0 {
		f := frame{name: m}
		pos := 0
		for _, a := range args {
			if fe, ok := a.(*field.Element); ok && fe != nil {
				v, l := feVal(fe)
				f.vals = append(f.vals, v)
				f.raw = append(f.raw, l)
				if pos > 0 || m == "ToBytes" || m == "IsNegative" || m == "IsZero" || m == "Equal" || strings.HasPrefix(m, "Conditional") {
					envelope(m, pos, l)
				}
				pos++
			}
		}
		stack = append(stack, f)
		return
	}
	if len(stack) == 0 {
		return
	}
	f := stack[len(stack)-1]
	stack = stack[:len(stack)-1]
	if f.name != m {
		stack = stack[:0] // a panic unwound through wrappers: resynchronise
		return
	}
	recv, _ := args[0].(*field.Element)
	if recv == nil {
		return
	}
	run.EvalN(1)
	run.Hist("hook/field." + m)
	got, outLimbs := feVal(recv)
	check := func(want *big.Int) {
		if mod(got).Cmp(mod(want)) != 0 {
			violate("field-shadow/"+m, fmt.Sprintf("%s: result limbs %x (value %x) but operands %x give %x", m, outLimbs, mod(got), f.raw, mod(want)))
		}
	}
	v := f.vals // v[0] is the receiver before the call
	switch m {
	case "Add":
		check(new(big.Int).Add(v[1], v[2]))
	case "Sub":
		check(new(big.Int).Sub(v[1], v[2]))
	case "Neg":
		check(new(big.Int).Neg(v[1]))
	case "Mul":
		check(new(big.Int).Mul(v[1], v[2]))
	case "Square":
		check(new(big.Int).Mul(v[1], v[1]))
	case "Square2":
		check(new(big.Int).Lsh(new(big.Int).Mul(v[1], v[1]), 1))
	case "Mul121666":
		check(new(big.Int).Mul(v[1], big.NewInt(121666)))
	case "Pow2k":
		k, _ := args[2].(uint)
		check(new(big.Int).Exp(mod(v[1]), new(big.Int).Lsh(big.NewInt(1), k), P))
	case "Invert":
		inv := new(big.Int)
		if mod(v[1]).Sign() != 0 {
			inv.ModInverse(mod(v[1]), P)
		}
		check(inv)
	case "SqrtRatioI":
		was, root := ref.SqrtRatioM1(mod(v[1]), mod(v[2]))
		check(root)
		if flag, ok := args[len(args)-1].(int); ok && (flag == 1) != was {
			violate("field-shadow/SqrtRatioI/flag", fmt.Sprintf("flag %d for u=%x v=%x", flag, mod(v[1]), mod(v[2])))
		}
	case "ToBytes":
		if out, ok := args[1].([]byte); ok && len(out) == 32 {
			if !bytes.Equal(out, ref.LE32(mod(v[0]))) {
				violate("field-shadow/ToBytes", fmt.Sprintf("limbs %x encode to %x, canonical value %x", f.raw[0], out, mod(v[0])))
			}
		}
	case "SetBytes":
		if in, ok := args[1].([]byte); ok && len(in) == 32 {
			w := ref.FromLE(in)
			w.And(w, ref.Mask255)
			check(w)
		}
	case "SetBytesWide":
		if in, ok := args[1].([]byte); ok && len(in) == 64 {
			check(ref.FromLE(in))
		}
	case "ConditionalSelect":
		ch, _ := args[3].(int)
		check(v[1+ch])
	case "ConditionalAssign":
		ch, _ := args[2].(int)
		if ch == 1 {
			check(v[1])
		} else {
			check(v[0])
		}
	case "ConditionalNegate":
		ch, _ := args[1].(int)
		if ch == 1 {
			check(new(big.Int).Neg(v[0]))
		} else {
			check(v[0])
		}
	case "ConditionalSwap":
		ch, _ := args[2].(int)
		other, _ := args[1].(*field.Element)
		ov, _ := feVal(other)
		if ch == 1 {
			check(v[1])
			if mod(ov).Cmp(mod(v[0])) != 0 {
				violate("field-shadow/ConditionalSwap", "other operand wrong after swap")
			}
		} else {
			check(v[0])
		}
	case "IsNegative":
		if res, ok := args[len(args)-1].(int); ok && (res == 1) != (mod(v[0]).Bit(0) == 1) {
			violate("field-shadow/IsNegative", fmt.Sprintf("limbs %x: %d", f.raw[0], res))
		}
	case "IsZero":
		if res, ok := args[len(args)-1].(int); ok && (res == 1) != (mod(v[0]).Sign() == 0) {
			violate("field-shadow/IsZero", fmt.Sprintf("limbs %x: %d", f.raw[0], res))
		}
	case "Equal":
		if res, ok := args[len(args)-1].(int); ok && (res == 1) != (mod(v[0]).Cmp(mod(v[1])) == 0) {
			violate("field-shadow/Equal", fmt.Sprintf("limbs %x vs %x: %d", f.raw[0], f.raw[1], res))
		}
	}
	envelope(m+"/result", 0, outLimbs)
}

func scalarValue(s *scalar.Scalar) *big.Int {
	var b [32]byte
	s.ToBytes(b[:])
	return ref.FromLE(b[:])
}

func digitHook(m string, args []interface{}) {
	s, _ := args[0].(*scalar.Scalar)
	if s == nil {
		return
	}
	v := scalarValue(s)
	run.EvalN(1)
	run.Hist("hook/scalar." + m)
	acc := new(big.Int)
	switch m {
	case "ToRadix16":
		d, ok := args[len(args)-1].([64]int8)
		if !ok {
			return
		}
		for i := 63; i >= 0; i-- {
			acc.Lsh(acc, 4)
			acc.Add(acc, big.NewInt(int64(d[i])))
			if d[i] < -8 || d[i] > 8 || (i < 63 && d[i] == 8) {
				violate("digits-in-situ/ToRadix16/range", fmt.Sprintf("digit %d at %d for scalar %x", d[i], i, v))
			}
		}
		if acc.Cmp(v) != 0 {
			violate("digits-in-situ/ToRadix16/value", fmt.Sprintf("scalar %x", v))
		}
	case "NonAdjacentForm":
		w, _ := args[1].(uint)
		d, ok := args[len(args)-1].([256]int8)
		if !ok {
			return
		}
		last := -1000
		for i := 255; i >= 0; i-- {
			acc.Lsh(acc, 1)
			acc.Add(acc, big.NewInt(int64(d[i])))
		}
		for i := 0; i < 256; i++ {
			x := int(d[i])
			if x == 0 {
				continue
			}
			if x%2 == 0 || x >= 1<<(w-1) || x <= -(1<<(w-1)) || i-last < int(w) {
				violate(fmt.Sprintf("digits-in-situ/NonAdjacentForm(%d)/range", w), fmt.Sprintf("digit %d at %d for scalar %x", x, i, v))
			}
			last = i
		}
		if acc.Cmp(v) != 0 {
			violate(fmt.Sprintf("digits-in-situ/NonAdjacentForm(%d)/value", w), fmt.Sprintf("scalar %x", v))
		}
	case "ToRadix2w":
		w, _ := args[1].(uint)
		d, ok := args[len(args)-1].([43]int8)
		if !ok {
			return
		}
		hint := int(scalar.ToRadix2wSizeHint(w))
		half := 1 << (w - 1)
		for i := 42; i >= 0; i-- {
			acc.Lsh(acc, w)
			acc.Add(acc, big.NewInt(int64(d[i])))
			x := int(d[i])
			switch {
			case i >= hint:
				if x != 0 {
					violate(fmt.Sprintf("digits-in-situ/ToRadix2w(%d)/beyond-size-hint", w), fmt.Sprintf("scalar %x", v))
				}
			case w == 8 && i == hint-1:
				if x != 0 && x != 1 {
					violate("digits-in-situ/ToRadix2w(8)/terminal-carry", fmt.Sprintf("scalar %x", v))
				}
			case w < 8 && i == hint-1:
				if x < -half || x >= half+(1<<w) {
					violate(fmt.Sprintf("digits-in-situ/ToRadix2w(%d)/range", w), fmt.Sprintf("last digit %d for scalar %x", x, v))
				}
			default:
				if x < -half || x >= half {
					violate(fmt.Sprintf("digits-in-situ/ToRadix2w(%d)/range", w), fmt.Sprintf("digit %d at %d for scalar %x", x, i, v))
				}
			}
		}
		if acc.Cmp(v) != 0 {
			violate(fmt.Sprintf("digits-in-situ/ToRadix2w(%d)/value", w), fmt.Sprintf("scalar %x", v))
		}
	case "Bits":
		d, ok := args[len(args)-1].([256]byte)
		if !ok {
			return
		}
		for i := 255; i >= 0; i-- {
			acc.Lsh(acc, 1)
			acc.Add(acc, big.NewInt(int64(d[i])))
			if d[i] > 1 {
				violate("digits-in-situ/Bits/range", fmt.Sprintf("scalar %x", v))
			}
		}
		if acc.Cmp(v) != 0 {
			violate("digits-in-situ/Bits/value", fmt.Sprintf("scalar %x", v))
		}
	}
}

func lookupHook(op string, args []interface{}) {
	run.EvalN(1)
	run.Hist("hook/" + op)
	x := args[len(args)-1]
	switch d := x.(type) {
	case int8: // constant-time tables of [1..8]P with a signed digit
		run.Max("lookup/max-abs-signed-digit", int64(max(int(d), -int(d))))
		if d < -8 || d > 8 {
			violate("lookup-in-situ/"+op, fmt.Sprintf("signed digit %d outside [-8, 8]", d))
		}
	case uint8: // odd-multiple tables: index x/2
		size := 8
		if strings.Contains(op, "affineNielsPointNafLookupTable") || strings.Contains(op, "NafLookupTable8") {
			size = 64
		}
		if d%2 == 0 || int(d)/2 >= size {
			violate("lookup-in-situ/"+op, fmt.Sprintf("NAF digit %d is not an odd value below %d", d, 2*size))
		}
	}
}

func latticeHook(args []interface{}) {
	k, _ := args[0].(*scalar.Scalar)
	d0, ok0 := args[1].(lattice.Int128)
	d1, ok1 := args[2].(lattice.Int128)
	if k == nil || !ok0 || !ok1 {
		return
	}
	run.EvalN(1)
	run.Hist("hook/lattice.FindShortVector")
	kv := scalarValue(k)
	toBig := func(x lattice.Int128) *big.Int {
		hi, lo := lattice.VerifParts(x)
		v := new(big.Int).Lsh(big.NewInt(hi), 64)
		return v.Add(v, new(big.Int).SetUint64(lo))
	}
	b0, b1 := toBig(d0), toBig(d1)
	run.Max("lattice/max-bits", int64(max(b0.BitLen(), b1.BitLen())))
	L := ref.L
	switch {
	case b0.Sign() == 0 && b1.Sign() == 0:
		violate("short-vector-in-situ/zero-vector", fmt.Sprintf("k=%x", kv))
	case new(big.Int).Mod(b0, L).Cmp(new(big.Int).Mod(new(big.Int).Mul(b1, kv), L)) != 0:
		violate("short-vector-in-situ/congruence", fmt.Sprintf("k=%x d0=%d d1=%d", kv, b0, b1))
	case new(big.Int).Mod(b1, L).Sign() == 0:
		violate("short-vector-in-situ/d1-not-invertible", fmt.Sprintf("k=%x d0=%d d1=%d", kv, b0, b1))
	}
}

func main() {
	rules := map[string]string{
		"field":   "in-situ field shadow: the whole-library workload runs on a build whose field operations are wrapped with boundary hooks; every call's operands are decoded limb-wise before the call and the result's value mod p is compared with math/big afterwards; the largest limb excess per operand position is recorded; non-trivial = one hooked call",
		"digits":  "in-situ digit and lookup monitor: every digit vector returned by a recoding during the whole-library workload is reconstructed and range-checked, every table-lookup argument is range-checked at the lookup; non-trivial = one hooked call",
		"lattice": "in-situ short-vector monitor: the postcondition of FindShortVector is checked for every scalar that reaches it during the whole-library workload (real challenge hashes); non-trivial = one hooked call",
	}
	prop := map[string]string{"field": "C04", "digits": "C17", "lattice": "C16"}
	if !flag.Parsed() {
		flag.Parse()
	}
	run = mon.Start(prop[*monitor], rules[*monitor])
	run.Workers = 1
	zzverifrt.Handler = handler
	rng := run.Rng("situ/" + *monitor)
	workload.Light = *monitor == "field" || run.Quick
	if *monitor == "field" {
		every = run.Pick(24, 3)
	}
	// the workload runs under one loop-iteration budget (every loop head of the instrumented library ticks): a call
	// that never returns ends the run with a verdict on logical steps instead of the wall-clock watchdog
	budget := int64(run.Pick(2, 40)) * 1_000_000_000
	zzverifrt.Arm(budget)
	func() {
		defer func() {
			if e := recover(); e != nil {
				if _, ok := e.(zzverifrt.BudgetExceeded); ok {
					run.Violate("in-situ/workload-does-not-terminate", fmt.Sprintf("the whole-library workload executed more than %d loop iterations (a complete run takes about 1/100 of that): some call does not return", budget), map[string]any{"monitor": *monitor})
					return
				}
				panic(e)
			}
		}()
		workload.All(sink{run}, rng, run.Pick(1, 2), nil)
	}()
	run.Max("in-situ/loop-ticks", zzverifrt.Ticks())
	zzverifrt.Arm(0)
	zzverifrt.Handler = nil
	run.Sample("hook", map[string]any{"monitor": *monitor, "note": "events are hooked calls inside the library during the workload"})
	run.Sample("hook-counts", "see histogram hook/*")
	run.Finish()
}
