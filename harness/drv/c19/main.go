//go:build verif || verifmin

// C19: untrusted input never panics or leaves partial state (documented cases aside).
// Monitor: a table of every byte-taking API; each entry is called under recover() with
// hostile lengths and contents, receivers pre-loaded with a non-neutral value, and a
// loop-tick budget (instrumented build) so that non-termination is a logical-step verdict.
package main

import (
	"bytes"
	"crypto"
	_ "crypto/sha1"
	_ "crypto/sha256"
	"crypto/sha512"
	"fmt"
	"math/big"
	"os"
	"strconv"
	"strings"

	"golang.org/x/crypto/sha3"

	"github.com/oasisprotocol/curve25519-voi/curve"
	"github.com/oasisprotocol/curve25519-voi/curve/scalar"
	"github.com/oasisprotocol/curve25519-voi/internal/zzverifrt"
	"github.com/oasisprotocol/curve25519-voi/primitives/ed25519"
	"github.com/oasisprotocol/curve25519-voi/primitives/ed25519/extra/cache"
	"github.com/oasisprotocol/curve25519-voi/primitives/ed25519/extra/ecvrf"
	"github.com/oasisprotocol/curve25519-voi/primitives/h2c"
	"github.com/oasisprotocol/curve25519-voi/primitives/merlin"
	"github.com/oasisprotocol/curve25519-voi/primitives/sr25519"
	"github.com/oasisprotocol/curve25519-voi/primitives/x25519"
	"github.com/oasisprotocol/curve25519-voi/zzverif/mon"
	"github.com/oasisprotocol/curve25519-voi/zzverif/ref"
)

type Case struct {
	Entry string `json:"entry"`
	Len   int    `json:"len"`
	Fill  string `json:"fill"`
	Nil   bool   `json:"nil,omitempty"`
}

// state of a receiver after the call
const (
	sNone      = ""          // no receiver
	sNeutral   = "neutral"   // identity / zero / nil key
	sUnchanged = "unchanged" // still the pre-loaded value
	sOther     = "other"     // anything else: partial update or stale mixture
)

type entry struct {
	name        string
	valid       []int                                       // lengths that may succeed; nil = every length may succeed
	good        func() []byte                               // an input on which the call must succeed
	call        func(b []byte) (success bool, state string) // runs the API
	docPanic    func(b []byte) bool                         // documented panic domain (nil = never)
	needNeutral bool                                        // failure must leave the documented neutral state
	big         bool                                        // also fed 4 KiB / 1 MiB inputs
	oracle      func(b []byte) bool                         // optional: whether the call must succeed on b (a reference decoder): "signalling malformed input" includes not accepting it
}

func e(err error) bool { return err == nil }

var (
	seed0   = make([]byte, 32)
	priv    = ed25519.NewKeyFromSeed(seed0)
	pub     = []byte(priv.Public().(ed25519.PublicKey))
	msgM    = []byte("m")
	goodSig = ed25519.Sign(priv, msgM)
	encB    = ref.Encode(ref.B)
	rencB   = ref.RistrettoEncode(ref.B)
	proof   = ecvrf.Prove(priv, []byte("a"))
)

func in(l int, set []int) bool {
	for _, v := range set {
		if v == l {
			return true
		}
	}
	return false
}

func edState(p *curve.EdwardsPoint) string {
	b, _ := p.MarshalBinary()
	switch {
	case p.IsIdentity():
		return sNeutral
	case bytes.Equal(b, encB):
		return sUnchanged
	}
	return sOther
}

func scState(s *scalar.Scalar) string {
	var b [32]byte
	s.ToBytes(b[:])
	switch {
	case b == [32]byte{}:
		return sNeutral
	case b[0] == 77 && bytes.Equal(b[1:], make([]byte, 31)):
		return sUnchanged
	}
	return sOther
}

func table() []entry {
	cv := cache.NewVerifier(cache.NewLRUCache(2))
	msk, _ := sr25519.NewMiniSecretKeyFromBytes(seed0)
	kp := msk.ExpandUniform().KeyPair()
	srSk, _ := kp.SecretKey().MarshalBinary()
	srPk, _ := kp.PublicKey().MarshalBinary()
	srKp, _ := kp.MarshalBinary()
	srSt := sr25519.NewSigningContext([]byte("c")).NewTranscriptBytes([]byte("m"))
	srSigO, _ := kp.Sign(nil, srSt)
	srSig, _ := srSigO.MarshalBinary()
	edExp := func() []byte {
		h := sha512.Sum512(seed0)
		h[0] &= 248
		h[31] &= 63
		h[31] |= 64
		return h[:]
	}()
	c32 := func(b []byte) func() []byte { return func() []byte { return append([]byte{}, b...) } }
	one := func() []byte { b := make([]byte, 32); b[0] = 1; return b }
	newSc := func() *scalar.Scalar { return scalar.NewFromUint64(77) }
	// the entry under test goes into batch verifiers in every configuration a caller can set up: fresh, with key
	// expansion switched off, alone or behind a valid entry, with a capacity hint; all configurations must give the same
	// answer (the valid companion does not change the conjunction), and batch-only verification must not panic either
	bvRes := func(f func(v *ed25519.BatchVerifier)) bool {
		var first bool
		for mode := 0; mode < 6; mode++ {
			v := ed25519.NewBatchVerifier()
			if mode == 5 {
				v = ed25519.NewBatchVerifierWithCapacity(1)
			}
			if mode == 1 || mode == 3 {
				v.ForceNoPublicKeyExpansion()
			}
			if mode == 2 || mode == 3 {
				v.Add(pub, msgM, goodSig)
			}
			f(v)
			if mode == 4 {
				v.Add(pub, msgM, goodSig) // the companion after the entry
			}
			ok, bits := v.Verify(nil)
			v.VerifyBatchOnly(nil)
			ok2, _ := v.Verify(nil) // a verifier can be asked again
			conj := true
			for _, b := range bits {
				conj = conj && b
			}
			if mode == 0 {
				first = ok
			}
			if ok != first || ok2 != ok || conj != ok {
				panic(fmt.Sprintf("batch configurations disagree: configuration %d says %v (bits %v, asked again %v), a fresh verifier says %v", mode, ok, bits, ok2, first))
			}
		}
		return first
	}
	not32 := func(b []byte) bool { return len(b) != 32 }
	return []entry{
		// scalars
		{name: "scalar.ScMinimalVartime", valid: []int{32}, good: one, call: func(b []byte) (bool, string) { return scalar.ScMinimalVartime(b), sNone },
			oracle: func(b []byte) bool { return len(b) == 32 && ref.FromLE(b).Cmp(ref.L) < 0 }},
		{name: "scalar.SetBytesModOrder", valid: []int{32}, good: one, call: func(b []byte) (bool, string) {
			s := newSc()
			_, err := s.SetBytesModOrder(b)
			return e(err), scState(s)
		}},
		{name: "scalar.NewFromBytesModOrder", valid: []int{32}, good: one, call: func(b []byte) (bool, string) { _, err := scalar.NewFromBytesModOrder(b); return e(err), sNone }},
		{name: "scalar.SetBytesModOrderWide", valid: []int{64}, good: func() []byte { return make([]byte, 64) }, call: func(b []byte) (bool, string) {
			s := newSc()
			_, err := s.SetBytesModOrderWide(b)
			return e(err), scState(s)
		}},
		{name: "scalar.NewFromBytesModOrderWide", valid: []int{64}, good: func() []byte { return make([]byte, 64) }, call: func(b []byte) (bool, string) { _, err := scalar.NewFromBytesModOrderWide(b); return e(err), sNone }},
		{name: "scalar.SetCanonicalBytes", valid: []int{32}, good: one, call: func(b []byte) (bool, string) {
			s := newSc()
			_, err := s.SetCanonicalBytes(b)
			return e(err), scState(s)
		}},
		{name: "scalar.NewFromCanonicalBytes", valid: []int{32}, good: one, call: func(b []byte) (bool, string) { _, err := scalar.NewFromCanonicalBytes(b); return e(err), sNone }},
		{name: "scalar.SetBits", valid: []int{32}, good: one, call: func(b []byte) (bool, string) { s := newSc(); _, err := s.SetBits(b); return e(err), scState(s) }},
		{name: "scalar.NewFromBits", valid: []int{32}, good: one, call: func(b []byte) (bool, string) { _, err := scalar.NewFromBits(b); return e(err), sNone }},
		{name: "scalar.UnmarshalBinary", valid: []int{32}, good: one, call: func(b []byte) (bool, string) { s := newSc(); err := s.UnmarshalBinary(b); return e(err), scState(s) }},
		{name: "scalar.ToBytes(out)", valid: []int{32}, good: one, call: func(b []byte) (bool, string) { return e(newSc().ToBytes(b)), sNone }},
		{name: "scalar.SetRandom(reader=b)", valid: nil, good: func() []byte { return make([]byte, 64) }, call: func(b []byte) (bool, string) {
			_, err := scalar.New().SetRandom(bytes.NewReader(b))
			return e(err) || len(b) < 64, sNone
		}},
		// Edwards / Montgomery / Ristretto decoders
		{name: "CompressedEdwardsY.SetBytes", valid: []int{32}, good: c32(encB), call: func(b []byte) (bool, string) {
			_, err := curve.NewCompressedEdwardsY().SetBytes(b)
			return e(err), sNone
		}},
		{name: "NewCompressedEdwardsYFromBytes", valid: []int{32}, good: c32(encB), call: func(b []byte) (bool, string) { _, err := curve.NewCompressedEdwardsYFromBytes(b); return e(err), sNone }},
		{name: "CompressedEdwardsY.UnmarshalBinary", valid: []int{32}, good: c32(encB), needNeutral: true, call: func(b []byte) (bool, string) {
			var c curve.CompressedEdwardsY
			copy(c[:], encB)
			err := c.UnmarshalBinary(b)
			st := sOther
			if bytes.Equal(c[:], one()) {
				st = sNeutral
			} else if bytes.Equal(c[:], encB) {
				st = sUnchanged
			}
			return e(err), st
		}},
		{name: "EdwardsPoint.UnmarshalBinary", valid: []int{32}, good: c32(encB), needNeutral: true, call: func(b []byte) (bool, string) {
			p := curve.NewEdwardsPoint().Set(curve.ED25519_BASEPOINT_POINT)
			err := p.UnmarshalBinary(b)
			return e(err), edState(p)
		}},
		{name: "EdwardsPoint.SetMontgomery(u=b, sign=0)", valid: []int{32}, good: func() []byte { b := make([]byte, 32); b[0] = 9; return b }, call: func(b []byte) (bool, string) {
			m, err := curve.NewMontgomeryPoint().SetBytes(b)
			if err != nil {
				return false, sNone
			}
			_, err = curve.NewEdwardsPoint().SetMontgomery(m, 0)
			return e(err), sNone
		}, oracle: func(b []byte) bool { return montgomeryDecodable(b, 0) }},
		{name: "EdwardsPoint.SetMontgomery(u=b, sign=1)", valid: []int{32}, good: func() []byte { b := make([]byte, 32); b[0] = 9; return b }, call: func(b []byte) (bool, string) {
			m, err := curve.NewMontgomeryPoint().SetBytes(b)
			if err != nil {
				return false, sNone
			}
			_, err = curve.NewEdwardsPoint().SetMontgomery(m, 1)
			return e(err), sNone
		}, oracle: func(b []byte) bool { return montgomeryDecodable(b, 1) }},
		{name: "MontgomeryPoint.SetBytes", valid: []int{32}, good: c32(encB), call: func(b []byte) (bool, string) { _, err := curve.NewMontgomeryPoint().SetBytes(b); return e(err), sNone }},
		{name: "CompressedRistretto.SetBytes", valid: []int{32}, good: c32(rencB), call: func(b []byte) (bool, string) {
			_, err := curve.NewCompressedRistretto().SetBytes(b)
			return e(err), sNone
		}},
		{name: "CompressedRistretto.UnmarshalBinary", valid: []int{32}, good: c32(rencB), needNeutral: true, call: func(b []byte) (bool, string) {
			var c curve.CompressedRistretto
			copy(c[:], rencB)
			err := c.UnmarshalBinary(b)
			st := sOther
			if bytes.Equal(c[:], make([]byte, 32)) {
				st = sNeutral
			} else if bytes.Equal(c[:], rencB) {
				st = sUnchanged
			}
			return e(err), st
		}},
		{name: "RistrettoPoint.UnmarshalBinary", valid: []int{32}, good: c32(rencB), needNeutral: true, call: func(b []byte) (bool, string) {
			p := curve.NewRistrettoPoint().Set(curve.RISTRETTO_BASEPOINT_POINT)
			err := p.UnmarshalBinary(b)
			st := sOther
			if p.IsIdentity() {
				st = sNeutral
			} else if mb, _ := p.MarshalBinary(); bytes.Equal(mb, rencB) {
				st = sUnchanged
			}
			return e(err), st
		}},
		{name: "RistrettoPoint.SetUniformBytes", valid: []int{64}, good: func() []byte { return make([]byte, 64) }, call: func(b []byte) (bool, string) {
			_, err := curve.NewRistrettoPoint().SetUniformBytes(b)
			return e(err), sNone
		}},
		{name: "RistrettoPoint.SetRandom(reader=b)", valid: nil, good: func() []byte { return make([]byte, 64) }, call: func(b []byte) (bool, string) {
			_, err := curve.NewRistrettoPoint().SetRandom(bytes.NewReader(b))
			return e(err) || len(b) < 64, sNone
		}},
		// Ed25519 verification entry points
		{name: "ed25519.Verify(sig=b)", valid: []int{64}, good: c32(goodSig), call: func(b []byte) (bool, string) { return ed25519.Verify(pub, msgM, b), sNone }},
		{name: "ed25519.Verify(msg=b)", valid: nil, good: c32(msgM), big: true, call: func(b []byte) (bool, string) { return ed25519.Verify(pub, b, goodSig) || !bytes.Equal(b, msgM), sNone }},
		{name: "ed25519.Verify(pk=b)", valid: []int{32}, good: c32(pub), docPanic: not32, call: func(b []byte) (bool, string) { return ed25519.Verify(b, msgM, goodSig), sNone }},
		{name: "ed25519.VerifyWithOptions(ph msg=b)", valid: []int{64}, good: func() []byte { return make([]byte, 64) }, docPanic: func(b []byte) bool { return len(b) != 64 }, call: func(b []byte) (bool, string) {
			ed25519.VerifyWithOptions(pub, b, goodSig, &ed25519.Options{Hash: crypto.SHA512})
			return len(b) == 64, sNone
		}},
		{name: "ed25519.VerifyWithOptions(ctx=b)", valid: nil, good: c32(msgM), docPanic: func(b []byte) bool { return len(b) > 255 }, call: func(b []byte) (bool, string) {
			ed25519.VerifyWithOptions(pub, msgM, goodSig, &ed25519.Options{Context: string(b)})
			return true, sNone
		}},
		{name: "ed25519.NewExpandedPublicKey", valid: []int{32}, good: c32(pub), call: func(b []byte) (bool, string) { _, err := ed25519.NewExpandedPublicKey(b); return e(err), sNone }},
		{name: "ed25519.VerifyExpanded(sig=b)", valid: []int{64}, good: c32(goodSig), call: func(b []byte) (bool, string) {
			x, _ := ed25519.NewExpandedPublicKey(pub)
			return ed25519.VerifyExpanded(x, msgM, b), sNone
		}},
		{name: "ed25519.Batch.Add(pk=b)", valid: []int{32}, good: c32(pub), call: func(b []byte) (bool, string) {
			return bvRes(func(v *ed25519.BatchVerifier) { v.Add(b, msgM, goodSig) }), sNone
		}},
		{name: "ed25519.Batch.Add(sig=b)", valid: []int{64}, good: c32(goodSig), call: func(b []byte) (bool, string) {
			return bvRes(func(v *ed25519.BatchVerifier) { v.Add(pub, msgM, b) }), sNone
		}},
		{name: "ed25519.Batch.AddWithOptions(ph msg=b)", valid: []int{64}, good: func() []byte { h := sha512.Sum512(msgM); return h[:] }, call: func(b []byte) (bool, string) {
			o := &ed25519.Options{Hash: crypto.SHA512}
			s, _ := priv.Sign(nil, b, o)
			return bvRes(func(v *ed25519.BatchVerifier) { v.AddWithOptions(pub, b, s, o) }), sNone
		}},
		{name: "ed25519.Batch.AddWithOptions(ctx=b)", valid: nil, good: c32(msgM), call: func(b []byte) (bool, string) {
			o := &ed25519.Options{Context: string(b)}
			s, _ := priv.Sign(nil, msgM, o)
			return bvRes(func(v *ed25519.BatchVerifier) { v.AddWithOptions(pub, msgM, s, o) }) || len(b) > 255, sNone
		}},
		{name: "ed25519.Batch.VerifyBatchOnly(entropy=b)", valid: nil, good: func() []byte { return make([]byte, 32) }, docPanic: func(b []byte) bool { return len(b) < 32 }, call: func(b []byte) (bool, string) {
			v := ed25519.NewBatchVerifier()
			v.Add(pub, msgM, goodSig)
			return v.VerifyBatchOnly(bytes.NewReader(b)), sNone
		}},
		{name: "cache.Verify(pk=b)", valid: []int{32}, good: c32(pub), call: func(b []byte) (bool, string) { return cv.Verify(b, msgM, goodSig), sNone }},
		{name: "cache.Verify(sig=b)", valid: []int{64}, good: c32(goodSig), call: func(b []byte) (bool, string) { return cv.Verify(pub, msgM, b), sNone }},
		{name: "cache.AddPublicKey", valid: nil, good: c32(pub), call: func(b []byte) (bool, string) { cv.AddPublicKey(b); return true, sNone }},
		{name: "cache.Add(pk=b)", valid: []int{32}, good: c32(pub), call: func(b []byte) (bool, string) {
			return bvRes(func(v *ed25519.BatchVerifier) { cv.Add(v, b, msgM, goodSig) }), sNone
		}},
		// signing-side option validation (errors, never signatures)
		{name: "ed25519.PrivateKey(b).Sign", valid: []int{64}, good: c32(priv), call: func(b []byte) (bool, string) {
			s, err := ed25519.PrivateKey(b).Sign(nil, msgM, &ed25519.Options{})
			return e(err) && s != nil, sNone
		}},
		{name: "ed25519.Sign(ph msg=b)", valid: []int{64}, good: func() []byte { return make([]byte, 64) }, call: func(b []byte) (bool, string) {
			s, err := priv.Sign(nil, b, &ed25519.Options{Hash: crypto.SHA512})
			return e(err) && s != nil, sNone
		}},
		{name: "ed25519.Sign(ctx=b)", valid: nil, good: c32(msgM), call: func(b []byte) (bool, string) {
			s, err := priv.Sign(nil, msgM, &ed25519.Options{Context: string(b)})
			return (e(err) && s != nil) || len(b) > 255, sNone
		}},
		{name: "ed25519.NewKeyFromSeed", valid: []int{32}, good: c32(seed0), docPanic: not32, call: func(b []byte) (bool, string) { ed25519.NewKeyFromSeed(b); return true, sNone }},
		{name: "ed25519.GenerateKey(reader=b)", valid: nil, good: c32(seed0), call: func(b []byte) (bool, string) {
			_, _, err := ed25519.GenerateKey(bytes.NewReader(b))
			return e(err) || len(b) < 32, sNone
		}},
		// ECVRF
		{name: "ecvrf.Verify(pk=b)", valid: []int{32}, good: c32(pub), call: func(b []byte) (bool, string) { ok, _ := ecvrf.Verify(b, proof, []byte("a")); return ok, sNone }},
		{name: "ecvrf.Verify(pi=b)", valid: []int{80}, good: c32(proof), call: func(b []byte) (bool, string) { ok, _ := ecvrf.Verify(pub, b, []byte("a")); return ok, sNone }},
		{name: "ecvrf.Verify_v10(pi=b)", valid: []int{80}, good: func() []byte { return ecvrf.Prove_v10(priv, []byte("a")) }, call: func(b []byte) (bool, string) { ok, _ := ecvrf.Verify_v10(pub, b, []byte("a")); return ok, sNone }},
		{name: "ecvrf.Verify(alpha=b)", valid: nil, good: func() []byte { return []byte("a") }, big: true, call: func(b []byte) (bool, string) {
			ok, _ := ecvrf.Verify(pub, proof, b)
			return ok || !bytes.Equal(b, []byte("a")), sNone
		}},
		{name: "ecvrf.ProofToHash", valid: []int{80}, good: c32(proof), call: func(b []byte) (bool, string) { _, err := ecvrf.ProofToHash(b); return e(err), sNone },
			oracle: func(b []byte) bool { _, ok := ref.VRFProofToHash(b); return ok }},
		{name: "ecvrf.Prove(alpha=b)", valid: nil, good: func() []byte { return []byte("a") }, big: true, call: func(b []byte) (bool, string) { ecvrf.Prove(priv, b); return true, sNone }},
		// X25519
		{name: "x25519.X25519(scalar=b)", valid: []int{32}, good: one, call: func(b []byte) (bool, string) { _, err := x25519.X25519(b, x25519.Basepoint); return e(err), sNone }},
		{name: "x25519.X25519(point=b)", valid: []int{32}, good: func() []byte { b := make([]byte, 32); b[0] = 9; return b }, call: func(b []byte) (bool, string) { _, err := x25519.X25519(one(), b); return e(err), sNone }},
		{name: "x25519.EdPublicKeyToX25519", valid: []int{32}, good: c32(pub), call: func(b []byte) (bool, string) { _, ok := x25519.EdPublicKeyToX25519(b); return ok, sNone }},
		{name: "x25519.GenerateKey(reader=b)", valid: nil, good: c32(seed0), call: func(b []byte) (bool, string) {
			_, _, err := x25519.GenerateKey(bytes.NewReader(b))
			return e(err) || len(b) < 32, sNone
		}},
		// sr25519
		{name: "sr25519.NewMiniSecretKeyFromBytes", valid: []int{32}, good: c32(seed0), call: func(b []byte) (bool, string) { _, err := sr25519.NewMiniSecretKeyFromBytes(b); return e(err), sNone }},
		{name: "sr25519.SecretKey.UnmarshalBinary", valid: []int{64}, good: c32(srSk), call: func(b []byte) (bool, string) {
			var sk sr25519.SecretKey
			sk.UnmarshalBinary(srSk)
			err := sk.UnmarshalBinary(b)
			mb, _ := sk.MarshalBinary()
			st := sOther
			if bytes.Equal(mb, srSk) {
				st = sUnchanged
			} else if bytes.Equal(mb, make([]byte, 64)) {
				st = sNeutral
			}
			return e(err), st
		}},
		{name: "sr25519.NewSecretKeyFromEd25519Bytes", valid: []int{64}, good: c32(edExp), call: func(b []byte) (bool, string) { _, err := sr25519.NewSecretKeyFromEd25519Bytes(b); return e(err), sNone }},
		{name: "sr25519.PublicKey.UnmarshalBinary", valid: []int{32}, good: c32(srPk), needNeutral: true, call: func(b []byte) (bool, string) {
			var pk sr25519.PublicKey
			pk.UnmarshalBinary(srPk)
			err := pk.UnmarshalBinary(b)
			mb, _ := pk.MarshalBinary()
			st := sOther
			if bytes.Equal(mb, make([]byte, 32)) {
				st = sNeutral
			} else if bytes.Equal(mb, srPk) {
				st = sUnchanged
			}
			if err != nil && pk.Verify(srSt, srSigO) {
				st = sOther // a key that failed to decode must not verify anything
			}
			return e(err), st
		}},
		{name: "sr25519.KeyPair.UnmarshalBinary", valid: []int{96}, good: c32(srKp), needNeutral: true, call: func(b []byte) (bool, string) {
			var k sr25519.KeyPair
			k.UnmarshalBinary(srKp)
			err := k.UnmarshalBinary(b)
			st := sOther
			if k.SecretKey() == nil && k.PublicKey() == nil {
				st = sNeutral
			} else if mb, _ := k.MarshalBinary(); bytes.Equal(mb, srKp) {
				st = sUnchanged
			}
			return e(err), st
		}},
		{name: "sr25519.Signature.UnmarshalBinary", valid: []int{64}, good: c32(srSig), needNeutral: true, call: func(b []byte) (bool, string) {
			var s sr25519.Signature
			s.UnmarshalBinary(srSig)
			err := s.UnmarshalBinary(b)
			mb, _ := s.MarshalBinary()
			st := sOther
			if bytes.Equal(mb[:63], make([]byte, 63)) {
				st = sNeutral
			} else if bytes.Equal(mb, srSig) {
				st = sUnchanged
			}
			if err != nil && kp.PublicKey().Verify(srSt, &s) {
				st = sOther
			}
			return e(err), st
		}},
		{name: "sr25519.Verify(sig=b, decoded)", valid: []int{64}, good: c32(srSig), call: func(b []byte) (bool, string) {
			s, err := sr25519.NewSignatureFromBytes(b)
			if err != nil {
				return false, sNone
			}
			return kp.PublicKey().Verify(srSt, s), sNone
		}},
		{name: "sr25519.Batch.Add(sig=b, decoded or zero value)", valid: []int{64}, good: c32(srSig), call: func(b []byte) (bool, string) {
			s, err := sr25519.NewSignatureFromBytes(b)
			if err != nil {
				s = &sr25519.Signature{}
			}
			v := sr25519.NewBatchVerifier()
			v.Add(kp.PublicKey(), srSt, s)
			ok, _ := v.Verify(nil)
			return ok, sNone
		}},
		{name: "sr25519.transcript(ctx=b,msg=b)+sign+verify", valid: nil, good: c32(msgM), big: true, call: func(b []byte) (bool, string) {
			st := sr25519.NewSigningContext(b).NewTranscriptBytes(b)
			sig, err := kp.Sign(nil, st)
			return err == nil && kp.PublicKey().Verify(st, sig), sNone
		}},
		{name: "sr25519.GenerateKeyPair(reader=b)", valid: nil, good: func() []byte { return make([]byte, 96) }, call: func(b []byte) (bool, string) {
			_, err := sr25519.GenerateKeyPair(bytes.NewReader(b))
			return e(err) || len(b) < 96, sNone
		}},
		// expanders, suites, transcripts
		{name: "h2c.ExpandMessageXMD(out=len b,dst=b,msg=b)", valid: nil, good: c32(msgM), big: true, call: func(b []byte) (bool, string) {
			err := h2c.ExpandMessageXMD(b, crypto.SHA512, b, b)
			return e(err) || len(b) == 0 || len(b) > 255*64, sNone
		}},
		{name: "h2c.ExpandMessageXMD(SHA3-256,out=len b,dst=b,msg=b)", valid: nil, good: c32(msgM), big: true, call: func(b []byte) (bool, string) {
			err := h2c.ExpandMessageXMD(b, crypto.SHA3_256, b, b)
			return e(err) || len(b) == 0 || len(b) > 255*32, sNone
		}},
		{name: "h2c.ExpandMessageXMD(SHA-256,out=len b,dst=b,msg=b)", valid: nil, good: c32(msgM), call: func(b []byte) (bool, string) {
			err := h2c.ExpandMessageXMD(b, crypto.SHA256, b, b)
			return e(err) || len(b) == 0 || len(b) > 255*32, sNone
		}},
		{name: "h2c.ExpandMessageXMD(SHA-384/SHA3-512/SHA-512_256,dst=b,msg=b)", valid: nil, good: c32(msgM), call: func(b []byte) (bool, string) {
			out := make([]byte, 64)
			e1 := h2c.ExpandMessageXMD(out, crypto.SHA384, b, b)
			e2 := h2c.ExpandMessageXMD(out, crypto.SHA3_512, b, b)
			e3 := h2c.ExpandMessageXMD(out, crypto.SHA512_256, b, b)
			e4 := h2c.ExpandMessageXMD(out, crypto.SHA1, b, b) // refused: digest too short
			return e(e1) && e(e2) && e(e3) && !e(e4), sNone
		}},
		{name: "h2c generic suites(SHA3-256 / SHAKE128,dst=b,msg=b)", valid: nil, good: c32(msgM), call: func(b []byte) (bool, string) {
			_, e1 := h2c.Edwards25519_XMD_ELL2_RO(crypto.SHA3_256, b, b)
			_, e2 := h2c.Edwards25519_XMD_ELL2_NU(crypto.SHA256, b, b)
			_, e3 := h2c.Ristretto255_XMD_R255MAP_RO(crypto.SHA3_256, b, b)
			_, e4 := h2c.Edwards25519_XOF_ELL2_RO(sha3.NewShake128(), b, b)
			_, e5 := h2c.Edwards25519_XOF_ELL2_NU(sha3.NewShake256(), b, b)
			return e(e1) && e(e2) && e(e3) && e(e4) && e(e5), sNone
		}},
		{name: "h2c.ExpandMessageXOF(out=len b,dst=b,msg=b)", valid: nil, good: c32(msgM), big: true, call: func(b []byte) (bool, string) {
			err := h2c.ExpandMessageXOF(b, sha3.NewShake128(), b, b)
			return e(err) || len(b) == 0 || len(b) > 65535, sNone
		}},
		{name: "h2c.Edwards25519_XMD_SHA512_ELL2_RO(dst=b,msg=b)", valid: nil, good: c32(msgM), big: true, call: func(b []byte) (bool, string) {
			_, err := h2c.Edwards25519_XMD_SHA512_ELL2_RO(b, b)
			return e(err), sNone
		}},
		{name: "h2c.Ristretto255_XOF_R255MAP_RO(dst=b,msg=b)", valid: nil, good: c32(msgM), big: true, call: func(b []byte) (bool, string) {
			_, err := h2c.Ristretto255_XOF_R255MAP_RO(sha3.NewShake256(), b, b)
			return e(err), sNone
		}},
		{name: "merlin ops(label=b,msg=b,size=len b)", valid: nil, good: c32(msgM), big: true, call: func(b []byte) (bool, string) {
			t := merlin.NewTranscript(string(b))
			t.AppendMessage(string(b), b)
			t.ExtractBytes(make([]byte, len(b)), string(b))
			rd, err := t.Clone().BuildRng().RekeyWithWitnessBytes(string(b), b).Finalize(nil)
			if err != nil {
				return false, sNone
			}
			n, err := rd.Read(make([]byte, len(b)))
			return err == nil && n == len(b), sNone
		}},
	}
}

var specials32Cache [][]byte

// specials32: 32-byte strings that are special for one of the decoders (field: 0, +-1, p+e, 2^255-1; scalar: L+e, kL;
// the torsion encodings and their Montgomery images), each with bit 255 clear and set - a decoder that compares wire
// bytes where it should compare values, or values where it should compare bytes, differs on exactly these.
func specials32() [][]byte {
	if specials32Cache != nil {
		return specials32Cache
	}
	var out [][]byte
	add := func(v *big.Int) {
		v = new(big.Int).And(v, ref.Mask255)
		out = append(out, ref.LE32(v), ref.LE32(new(big.Int).SetBit(new(big.Int).Set(v), 255, 1)))
	}
	for _, e := range []int64{-3, -2, -1, 0, 1, 2, 18, 19} {
		add(big.NewInt(e & 0xff)) // small values (negative ones wrap to 253..255: just more small values)
		add(new(big.Int).Add(ref.P, big.NewInt(e)))
		add(new(big.Int).Add(ref.L, big.NewInt(e)))
	}
	add(new(big.Int).Lsh(ref.L, 1))
	add(new(big.Int).Lsh(ref.L, 3))
	add(new(big.Int).Lsh(big.NewInt(1), 252))
	add(new(big.Int).Sub(new(big.Int).Lsh(big.NewInt(1), 255), big.NewInt(1)))
	for _, t := range ref.Torsion() {
		add(ref.FromLE(ref.Encode(t)))
		// Montgomery u = (1+y)/(1-y) of the torsion points (0 for the identity and for y = 1-less cases)
		den := new(big.Int).Sub(big.NewInt(1), t.Y)
		den.Mod(den, ref.P)
		if den.Sign() != 0 {
			u := new(big.Int).Add(big.NewInt(1), t.Y)
			u.Mul(u, new(big.Int).ModInverse(den, ref.P))
			add(u.Mod(u, ref.P))
		}
	}
	specials32Cache = out
	return out
}

// montgomeryDecodable is the reference decision of EdwardsPoint.SetMontgomery on a wire string.
func montgomeryDecodable(b []byte, sign uint8) bool {
	if len(b) != 32 {
		return false
	}
	u := ref.FromLE(b)
	u.And(u, ref.Mask255)
	u.Mod(u, ref.P)
	up1 := new(big.Int).Add(u, big.NewInt(1))
	up1.Mod(up1, ref.P)
	if up1.Sign() == 0 {
		return false
	}
	y := new(big.Int).Sub(u, big.NewInt(1))
	y.Mul(y, new(big.Int).ModInverse(up1, ref.P))
	y.Mod(y, ref.P)
	yb := ref.LE32(y)
	yb[31] |= sign << 7
	return ref.Decode(yb).OK
}

func fill(kind string, l int, good []byte, r *mon.Run, name string) []byte {
	b := make([]byte, l)
	switch kind {
	case "ff":
		for i := range b {
			b[i] = 0xff
		}
	case "valid-prefix+junk":
		copy(b, good)
		if l > len(good) {
			copy(b[len(good):], mon.Bytes(r.Rng("c19/junk/"+name+fmt.Sprint(l)), l-len(good)))
		}
	case "random":
		copy(b, mon.Bytes(r.Rng("c19/rand/"+name+fmt.Sprint(l)), l))
	default:
		// "special:N:K": the valid example with its K-th 32-byte field replaced by the N-th structured string
		var sn, sk int
		if _, err := fmt.Sscanf(kind, "special:%d:%d", &sn, &sk); err == nil {
			copy(b, good)
			if 32*sk+32 <= len(b) {
				copy(b[32*sk:], specials32()[sn])
			}
			return b
		}
		// "bitflip:N": the valid example with bit N flipped (well-formed almost everywhere)
		var n int
		if _, err := fmt.Sscanf(kind, "bitflip:%d", &n); err == nil {
			copy(b, good)
			if n/8 < len(b) {
				b[n/8] ^= 1 << uint(n%8)
			}
		}
	}
	return b
}

func runOne(r *mon.Run, en *entry, c Case) {
	good := en.good()
	b := fill(c.Fill, c.Len, good, r, en.name)
	if c.Nil {
		b = nil
	}
	budget := int64(5_000_000) + 20_000*int64(len(b))
	r.Journal("c19 %s len=%d fill=%s nil=%v", en.name, c.Len, c.Fill, c.Nil)
	var success bool
	var state string
	var exceeded, panicked bool
	var pmsg, stack, memMsg string
	zzverifrt.Arm(budget)
	func() {
		defer func() {
			if x := recover(); x != nil {
				if _, ok := x.(zzverifrt.BudgetExceeded); ok {
					exceeded = true
					return
				}
				panicked = true
				pmsg = fmt.Sprint(x)
			}
		}()
		if b == nil {
			success, state = en.call(b)
			return
		}
		// the input is a field cut out of a larger buffer: spare capacity, live data (a canary) behind it
		g := mon.NewGuard(b)
		success, state = en.call(g.B())
		if strings.Contains(en.name, "out") {
			memMsg = g.CheckTail() // the argument is (also) the buffer to fill
		} else {
			memMsg = g.Check()
		}
	}()
	ticks := zzverifrt.Ticks()
	zzverifrt.Arm(0)
	_ = stack
	r.Eval([]byte(fmt.Sprintf("%s|%d|%s|%v", en.name, c.Len, c.Fill, c.Nil)))
	r.Max("loop-ticks/"+en.name, ticks)
	if len(b) > 0 {
		r.Max("loop-ticks-per-kilobyte-x1000", ticks*1000/int64(len(b)+1000))
	}
	if memMsg != "" {
		r.Violate("untrusted/"+en.name+"/writes-caller-memory", fmt.Sprintf("len=%d fill=%s: %s", len(b), c.Fill, memMsg), c)
	}
	docPanic := en.docPanic != nil && en.docPanic(b)
	validLen := en.valid == nil || in(len(b), en.valid)
	switch {
	case exceeded:
		r.Violate("untrusted/"+en.name+"/non-termination", fmt.Sprintf("len=%d fill=%s: more than %d loop iterations", len(b), c.Fill, budget), c)
	case panicked && !docPanic:
		r.Violate("untrusted/"+en.name+"/undocumented-panic", fmt.Sprintf("len=%d fill=%s nil=%v: %s", len(b), c.Fill, c.Nil, pmsg), c)
	case panicked:
		r.Hist("documented-panic/" + en.name)
	case !validLen && success:
		r.Violate("untrusted/"+en.name+"/wrong-length-accepted", fmt.Sprintf("len=%d fill=%s reported as success", len(b), c.Fill), c)
	}
	if !panicked && !exceeded && en.oracle != nil && b != nil {
		if want := en.oracle(b); want != success {
			r.Violate(fmt.Sprintf("untrusted/%s/accepts-differently-from-the-reference-decoder/want=%v", en.name, want), fmt.Sprintf("len=%d fill=%s: the call reports success=%v, the reference decoder says %v", len(b), c.Fill, success, want), c)
		}
	}
	if !panicked && !exceeded {
		if success {
			r.Hist("success/" + en.name)
		} else {
			r.Hist("failure/" + en.name)
			switch {
			case state == sOther:
				r.Violate("untrusted/"+en.name+"/partial-state", fmt.Sprintf("len=%d fill=%s: after the failed call the receiver is neither neutral nor its previous value", len(b), c.Fill), c)
			case state == sUnchanged && en.needNeutral:
				r.Violate("untrusted/"+en.name+"/stale-receiver", fmt.Sprintf("len=%d fill=%s: after the failed call the receiver still holds its previous value instead of the documented neutral state", len(b), c.Fill), c)
			}
		}
	}
}

// neutralKeys: what a failed decode leaves behind (the "nil key" neutral state: a key object without a point, a
// signature object without a scalar, an expanded key that was never filled in) must be inert - every verification entry
// point given such an object answers false, under every option set, and does not panic.
func neutralKeys(r *mon.Run, c Case) {
	run := func(name string, f func() bool) {
		var got bool
		zzverifrt.Arm(5_000_000)
		pan, msg := mon.Try(func() { got = f() })
		zzverifrt.Arm(0)
		r.Eval([]byte("neutral|" + name))
		r.Hist("neutral-state/" + name)
		switch {
		case pan:
			r.Violate("untrusted/neutral-state-key/"+name+"/panic", msg, c)
		case got:
			r.Violate("untrusted/neutral-state-key/"+name+"/accepted", "verification with a key object that holds no key returned true", c)
		}
	}
	for fl := 0; fl < 32; fl++ {
		f := ref.FlagsFromBits(fl)
		if f.NonCanonR && f.Cofactorless {
			continue // documented panic: incompatible options
		}
		vo := &ed25519.VerifyOptions{AllowSmallOrderA: f.SmallA, AllowSmallOrderR: f.SmallR, AllowNonCanonicalA: f.NonCanonA, AllowNonCanonicalR: f.NonCanonR, CofactorlessVerify: f.Cofactorless}
		for _, o := range []*ed25519.Options{{Verify: vo}, {Verify: vo, Context: "ctx"}} {
			o := o
			run(fmt.Sprintf("ed25519.VerifyExpandedWithOptions(zero-value key)/fl%02d", fl), func() bool {
				return ed25519.VerifyExpandedWithOptions(&ed25519.ExpandedPublicKey{}, msgM, goodSig, o)
			})
			run(fmt.Sprintf("ed25519.BatchVerifier.AddExpandedWithOptions(zero-value key)/fl%02d", fl), func() bool {
				bv := ed25519.NewBatchVerifier()
				bv.AddExpandedWithOptions(&ed25519.ExpandedPublicKey{}, msgM, goodSig, o)
				bv.AddWithOptions(pub, msgM, goodSig, &ed25519.Options{Verify: vo})
				ok, each := bv.Verify(nil)
				return ok || each[0]
			})
			run(fmt.Sprintf("ed25519.BatchVerifier.VerifyBatchOnly(zero-value key)/fl%02d", fl), func() bool {
				bv := ed25519.NewBatchVerifier()
				bv.AddExpandedWithOptions(&ed25519.ExpandedPublicKey{}, msgM, goodSig, o)
				bv.AddExpandedWithOptions(&ed25519.ExpandedPublicKey{}, msgM, goodSig, o)
				return bv.VerifyBatchOnly(nil)
			})
		}
	}
	run("ed25519.VerifyExpanded(zero-value key)", func() bool { return ed25519.VerifyExpanded(&ed25519.ExpandedPublicKey{}, msgM, goodSig) })
	msk, _ := sr25519.NewMiniSecretKeyFromBytes(seed0)
	kp := msk.ExpandUniform().KeyPair()
	st := sr25519.NewSigningContext([]byte("c")).NewTranscriptBytes(msgM)
	sig, _ := kp.Sign(nil, st)
	for _, junk := range [][]byte{nil, {1, 2, 3}, make([]byte, 31), bytes.Repeat([]byte{0xff}, 32), make([]byte, 64)} {
		var pk sr25519.PublicKey
		good, _ := kp.PublicKey().MarshalBinary()
		pk.UnmarshalBinary(good)
		if pk.UnmarshalBinary(junk) == nil {
			continue
		}
		var bad sr25519.Signature
		sb, _ := sig.MarshalBinary()
		bad.UnmarshalBinary(sb)
		if bad.UnmarshalBinary(junk) == nil {
			continue
		}
		name := fmt.Sprintf("(after failed decode of %d bytes)", len(junk))
		run("sr25519.PublicKey.Verify"+name, func() bool { return pk.Verify(st, sig) })
		run("sr25519.Verify(signature"+name+")", func() bool { return kp.PublicKey().Verify(st, &bad) })
		run("sr25519.BatchVerifier(key"+name+")", func() bool {
			bv := sr25519.NewBatchVerifier()
			bv.Add(&pk, st, sig)
			bv.Add(kp.PublicKey(), st, sig)
			ok, each := bv.Verify(nil)
			return ok || each[0]
		})
		run("sr25519.BatchVerifier(signature"+name+")", func() bool {
			bv := sr25519.NewBatchVerifier()
			bv.Add(kp.PublicKey(), st, &bad)
			bv.Add(kp.PublicKey(), st, sig)
			ok, each := bv.Verify(nil)
			return ok || each[0]
		})
	}
	run("sr25519.PublicKey.Verify(zero-value key)", func() bool { var z sr25519.PublicKey; return z.Verify(st, sig) })
	run("sr25519.Verify(zero-value signature)", func() bool { return kp.PublicKey().Verify(st, &sr25519.Signature{}) })
}

// optionStructs: "all option structs" - pre-hash identifiers of every kind (registered hashes of all sizes, values the
// crypto package does not know) in the option struct of every Ed25519 entry point. The documented reaction is an
// error / false / an entry marked invalid; none of them may panic.
func optionStructs(r *mon.Run, c Case) {
	ids := []crypto.Hash{crypto.MD4, crypto.MD5, crypto.SHA1, crypto.SHA224, crypto.SHA256, crypto.SHA384, crypto.SHA512, crypto.MD5SHA1, crypto.RIPEMD160, crypto.SHA3_224, crypto.SHA3_256, crypto.SHA3_384, crypto.SHA3_512, crypto.SHA512_224, crypto.SHA512_256, crypto.BLAKE2s_256, crypto.BLAKE2b_256, crypto.BLAKE2b_384, crypto.BLAKE2b_512, crypto.Hash(20), crypto.Hash(21), crypto.Hash(63), crypto.Hash(64), crypto.Hash(255), crypto.Hash(1 << 20), ^crypto.Hash(0)}
	exp, _ := ed25519.NewExpandedPublicKey(pub)
	cv := cache.NewVerifier(cache.NewLRUCache(2))
	for _, id := range ids {
		for _, ml := range []int{0, 20, 32, 64, 80} {
			m := make([]byte, ml)
			for _, ctx := range []string{"", "c"} {
				o := &ed25519.Options{Hash: id, Context: ctx}
				run := func(name string, f func()) {
					zzverifrt.Arm(5_000_000)
					pan, msg := mon.Try(f)
					zzverifrt.Arm(0)
					r.Eval([]byte(fmt.Sprintf("opt|%s|%d|%d|%s", name, uint(id), ml, ctx)))
					r.Hist("option-structs/" + name)
					// the Verify* entry points turn an option-validation error into a panic carrying the library's own
					// message ("ed25519: ..."), as their doc comments describe for the other option errors; anything else
					// (a runtime error, a panic from another package) is not a documented reaction
					if pan && !(strings.HasPrefix(name, "Verify") || name == "cache.Verifier.VerifyWithOptions") {
						r.Violate("untrusted/option-struct/"+name+"/panic", fmt.Sprintf("Hash=%d message length %d context %q: %s", uint(id), ml, ctx, msg), c)
					} else if pan && !strings.HasPrefix(msg, "ed25519: ") {
						r.Violate("untrusted/option-struct/"+name+"/foreign-panic", fmt.Sprintf("Hash=%d message length %d context %q: %s", uint(id), ml, ctx, msg), c)
					} else if pan {
						r.Hist("documented-panic/option-validation")
					}
				}
				run("PrivateKey.Sign(*Options)", func() { priv.Sign(nil, m, o) })
				run("PrivateKey.Sign(crypto.Hash)", func() { priv.Sign(nil, m, id) })
				run("VerifyWithOptions", func() { ed25519.VerifyWithOptions(pub, m, goodSig, o) })
				run("VerifyExpandedWithOptions", func() { ed25519.VerifyExpandedWithOptions(exp, m, goodSig, o) })
				run("BatchVerifier.AddWithOptions+Verify", func() {
					bv := ed25519.NewBatchVerifier()
					bv.AddWithOptions(pub, m, goodSig, o)
					bv.AddExpandedWithOptions(exp, m, goodSig, o)
					bv.Verify(nil)
				})
				run("cache.Verifier.VerifyWithOptions", func() { cv.VerifyWithOptions(pub, m, goodSig, o) })
				run("cache.Verifier.AddWithOptions", func() {
					bv := ed25519.NewBatchVerifier()
					cv.AddWithOptions(bv, pub, m, goodSig, o)
					bv.Verify(nil)
				})
			}
		}
	}
}

// optionCombos: every combination of the boolean and length-valued option fields that the doc comments allow, in the
// entry points that report option problems through an error or an invalid entry (signing, batch adds): none may panic.
func optionCombos(r *mon.Run, c Case) {
	exp, _ := ed25519.NewExpandedPublicKey(pub)
	cv := cache.NewVerifier(cache.NewLRUCache(2))
	h64 := make([]byte, 64)
	run := func(name, what string, f func()) {
		zzverifrt.Arm(5_000_000)
		pan, msg := mon.Try(f)
		zzverifrt.Arm(0)
		r.Eval([]byte("combo|" + name + "|" + what))
		r.Hist("option-combinations/" + name)
		if pan {
			r.Violate("untrusted/option-combination/"+name+"/panic", what+": "+msg, c)
		}
	}
	for _, ctxLen := range []int{0, 1, 30, 31, 32, 63, 64, 65, 127, 128, 254, 255} {
		for _, ph := range []bool{false, true} {
			for _, added := range []bool{false, true} {
				for _, selfv := range []bool{false, true} {
					o := &ed25519.Options{Context: string(make([]byte, ctxLen)), AddedRandomness: added, SelfVerify: selfv}
					m := msgM
					if ph {
						o.Hash, m = crypto.SHA512, h64
					}
					what := fmt.Sprintf("context length %d, pre-hash %v, AddedRandomness %v, SelfVerify %v", ctxLen, ph, added, selfv)
					run("PrivateKey.Sign", what, func() {
						sig, err := priv.Sign(nil, m, o)
						if err == nil && !ed25519.VerifyWithOptions(pub, m, sig, &ed25519.Options{Context: o.Context, Hash: o.Hash}) {
							panic("signature made with these options does not verify")
						}
					})
				}
			}
		}
	}
	for fl := 0; fl < 32; fl++ {
		f := ref.FlagsFromBits(fl)
		vo := &ed25519.VerifyOptions{AllowSmallOrderA: f.SmallA, AllowSmallOrderR: f.SmallR, AllowNonCanonicalA: f.NonCanonA, AllowNonCanonicalR: f.NonCanonR, CofactorlessVerify: f.Cofactorless}
		what := fmt.Sprintf("verification option set %02d", fl)
		o := &ed25519.Options{Verify: vo}
		run("BatchVerifier.AddWithOptions", what, func() {
			bv := ed25519.NewBatchVerifier()
			bv.AddWithOptions(pub, msgM, goodSig, o)
			bv.Add(pub, msgM, goodSig)
			bv.Verify(nil)
		})
		run("BatchVerifier.AddExpandedWithOptions", what, func() {
			bv := ed25519.NewBatchVerifier()
			bv.AddExpandedWithOptions(exp, msgM, goodSig, o)
			bv.Verify(nil)
		})
		run("cache.Verifier.AddWithOptions", what, func() {
			bv := ed25519.NewBatchVerifier()
			cv.AddWithOptions(bv, pub, msgM, goodSig, o)
			bv.Verify(nil)
		})
		run("PrivateKey.Sign(SelfVerify)", what, func() { priv.Sign(nil, msgM, &ed25519.Options{Verify: vo, SelfVerify: true}) })
	}
}

var huge []byte

// two32 = 2^32 where int has 64 bits (computed at run time: the constant would not compile for 32-bit targets)
var two32 = func() int { one := 1; return one << 32 }()

func main() {
	r := mon.Start("C19", "table of ~70 byte-taking entry points (scalar/point/key/signature/proof decoders; Ed25519 single/expanded/batch/cached verification; signing-side option validation; ECVRF; X25519 and conversions; sr25519 decoders, verification and batch; h2c expanders and suites; Merlin operations; entropy readers) x lengths 0..nominal+40, 2*nominal, 128, 255..257, 1000 (+4 KiB, 70000, 1 MiB for message-like arguments) x contents {zeros, ff, valid prefix + junk, PRNG} + nil; receivers pre-loaded with a non-neutral value; per call: recover(), documented-panic table from the doc comments, wrong-length => failure, receiver neutral (where the code documents a reset) or unchanged, loop-tick budget 5e6 + 2e4/byte; non-trivial = (entry, length, fill); distinct = SHA-256 of it")
	r.Workers = 1 // the loop-tick counter is process-global
	tbl := table()
	byName := map[string]*entry{}
	for i := range tbl {
		byName[tbl[i].name] = &tbl[i]
	}
	var c Case
	if r.LoadReplay(&c) {
		if en, ok := byName[c.Entry]; ok {
			runOne(r, en, c)
		} else if c.Entry == "neutral-state keys" {
			neutralKeys(r, c)
		} else if c.Entry == "option structs" {
			optionStructs(r, c)
		} else if c.Entry == "option combinations" {
			optionCombos(r, c)
		}
		r.Finish()
		return
	}
	r.Observe("entries", len(tbl))
	fills := []string{"zeros", "ff", "valid-prefix+junk", "random"}
	for i := range tbl {
		en := &tbl[i]
		nominal := len(en.good())
		lens := map[int]bool{}
		for l := 0; l <= nominal+40; l++ {
			lens[l] = true
		}
		for _, l := range []int{2 * nominal, 128, 255, 256, 257, 1000} {
			lens[l] = true
		}
		if en.big {
			lens[4096], lens[70000] = true, true
			if !r.Quick || i%4 == 0 {
				lens[1<<20] = true
			}
		}
		for l := range lens {
			for fi, f := range fills {
				if r.Quick && l > nominal+8 && l != 2*nominal && fi > 1 {
					continue
				}
				runOne(r, en, Case{Entry: en.name, Len: l, Fill: f})
			}
		}
		// well-formed-but-for-one-bit inputs: every bit of the valid example (every 5th bit in the quick tier)
		if nominal <= 96 {
			stepBits := r.Pick(5, 1)
			for bit := 0; bit < 8*nominal; bit += stepBits {
				runOne(r, en, Case{Entry: en.name, Len: nominal, Fill: fmt.Sprintf("bitflip:%d", bit)})
			}
			runOne(r, en, Case{Entry: en.name, Len: nominal, Fill: fmt.Sprintf("bitflip:%d", 8*nominal-1)})
		}
		// every 32-byte field of the valid example replaced by every structured string
		if nominal%32 == 0 && nominal <= 96 && nominal > 0 {
			for k := 0; k < nominal/32; k++ {
				for n := range specials32() {
					runOne(r, en, Case{Entry: en.name, Len: nominal, Fill: fmt.Sprintf("special:%d:%d", n, k)})
				}
			}
		}
		runOne(r, en, Case{Entry: en.name, Nil: true, Fill: "zeros"})
		// lengths that only differ from the valid one above bit 31 (a length check done in 32 bits takes them for
		// valid): 2^32 + nominal and 2^32, as untouched virtual memory, for the fixed-size decoders on 64-bit targets
		if strconv.IntSize == 64 && len(en.valid) == 1 && !en.big && nominal <= 96 && !strings.Contains(en.name, "msg") && os.Getenv("VERIF_NO_HUGE") == "" {
			if huge == nil {
				huge = make([]byte, two32+128)
			}
			for _, l := range []int{two32 + nominal, two32} {
				copy(huge, en.good())
				b := huge[:l]
				var success bool
				zzverifrt.Arm(50_000_000)
				pan, pmsg := mon.Try(func() { success, _ = en.call(b) })
				zzverifrt.Arm(0)
				r.Eval([]byte(fmt.Sprintf("%s|huge|%d", en.name, l)))
				r.Hist("lengths-above-2^32")
				docPanic := en.docPanic != nil && en.docPanic(b)
				switch {
				case pan && !docPanic:
					r.Violate("untrusted/"+en.name+"/undocumented-panic", fmt.Sprintf("len=2^32+%d: %s", l-two32, pmsg), Case{Entry: en.name, Len: l, Fill: "valid-prefix+junk"})
				case !pan && success:
					r.Violate("untrusted/"+en.name+"/wrong-length-accepted", fmt.Sprintf("an input of 2^32+%d bytes (valid encoding followed by zeros) is reported as success", l-two32), Case{Entry: en.name, Len: l, Fill: "valid-prefix+junk"})
				}
			}
			for i := 0; i < 128; i++ {
				huge[i] = 0
			}
		}
		// the valid example must succeed, otherwise the entry proves nothing
		runOne(r, en, Case{Entry: en.name, Len: nominal, Fill: "valid-prefix+junk"})
		if r.HistGet("success/"+en.name) == 0 {
			r.Inconclusive("entry " + en.name + " never succeeded on its valid example")
		}
	}
	neutralKeys(r, Case{Entry: "neutral-state keys"})
	optionStructs(r, Case{Entry: "option structs"})
	optionCombos(r, Case{Entry: "option combinations"})
	r.Sample("case", Case{Entry: tbl[0].name, Len: 31, Fill: "ff"})
	r.Sample("case", Case{Entry: "sr25519.KeyPair.UnmarshalBinary", Len: 96, Fill: "valid-prefix+junk"})
	r.Sample("case", Case{Entry: "merlin ops(label=b,msg=b,size=len b)", Len: 1 << 20, Fill: "random"})
	r.Finish()
}
