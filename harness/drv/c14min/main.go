// c14min: a program that imports NOTHING of the harness and, of the library, only primitives/h2c: its link set is
// the one of an application that uses hash-to-curve and nothing else. It prints the results of the fixed-hash suites
// and of the expanders for one input; the C14 driver (which links everything) compares them with its own.
// Defects that depend on what else happens to be linked in (a hash registered by somebody else's blank import)
// show here and nowhere else.
package main

import (
	"crypto"
	"encoding/hex"
	"fmt"
	"os"

	"github.com/oasisprotocol/curve25519-voi/primitives/h2c"
)

func main() {
	dst := []byte("QUUX-V01-CS02-with-edwards25519_XMD:SHA-512_ELL2_RO_")
	msg := []byte("abcdef0123456789")
	fail := false
	show := func(name string, b []byte, err error) {
		if err != nil {
			fmt.Printf("%s error: %v\n", name, err)
			fail = true
			return
		}
		fmt.Printf("%s %s\n", name, hex.EncodeToString(b))
	}
	if p, err := h2c.Edwards25519_XMD_SHA512_ELL2_RO(dst, msg); err != nil {
		show("Edwards25519_XMD_SHA512_ELL2_RO", nil, err)
	} else {
		b, _ := p.MarshalBinary()
		show("Edwards25519_XMD_SHA512_ELL2_RO", b, nil)
	}
	if p, err := h2c.Edwards25519_XMD_SHA512_ELL2_NU(dst, msg); err != nil {
		show("Edwards25519_XMD_SHA512_ELL2_NU", nil, err)
	} else {
		b, _ := p.MarshalBinary()
		show("Edwards25519_XMD_SHA512_ELL2_NU", b, nil)
	}
	out := make([]byte, 48)
	show("ExpandMessageXMD(SHA-512)", out, h2c.ExpandMessageXMD(out, crypto.SHA512, dst, msg))
	if fail {
		os.Exit(1)
	}
}
