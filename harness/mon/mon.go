// Package mon is the small runtime shared by all drivers: deterministic PRNG
// streams, a write-ahead journal, evidence accumulators (evaluations, distinct
// non-trivial cases, histograms, maxima, samples) and violation records.
package mon

import (
	"bufio"
	"bytes"
	"crypto/sha256"
	"encoding/binary"
	"encoding/hex"
	"encoding/json"
	"flag"
	"fmt"
	"io"
	"math/rand/v2"
	"os"
	"runtime"
	"runtime/debug"
	"sort"
	"sync"
	"time"
)

// Violation is one observed refutation of the property, with a replayable witness.
type Violation struct {
	Sig    string          `json:"sig"` // stable identifier of the failing call + input class (matched by known_findings.json)
	What   string          `json:"what"`
	Config string          `json:"config"`
	Case   json.RawMessage `json:"case,omitempty"`
}

// Result is what a driver process writes for the orchestrator.
type Result struct {
	Property     string            `json:"property"`
	Config       string            `json:"config"`
	Tier         string            `json:"tier"`
	Seed         int64             `json:"seed"`
	Evaluations  int64             `json:"evaluations"`
	Distinct     int64             `json:"distinct_nontrivial"`
	Rule         string            `json:"rule"`
	Histo        map[string]int64  `json:"histogram,omitempty"`
	Max          map[string]int64  `json:"maxima,omitempty"`
	Observed     map[string]any    `json:"observed,omitempty"`
	Samples      []any             `json:"samples,omitempty"`
	Violations   []Violation       `json:"violations,omitempty"`
	NViolations  int64             `json:"n_violations"`
	Inconclusive []string          `json:"inconclusive,omitempty"`
	HooksMissing []string          `json:"hooks_missing,omitempty"`
	Digests      map[string]string `json:"digests,omitempty"` // C06: per-operation digest chains
	WallS        float64           `json:"wall_s"`
	Complete     bool              `json:"complete"`
}

// Run is the per-process monitor state. All methods are safe for concurrent use.
type Run struct {
	mu       sync.Mutex
	res      Result
	distinct map[[12]byte]struct{}
	journal  *bufio.Writer
	jf       *os.File
	out      string
	t0       time.Time
	Replay   string // path of a replay file, or ""
	Workers  int
	nsamples map[string]int
	Quick    bool
	violSeen map[string]int
}

var (
	fConfig  = flag.String("config", "default", "configuration name (informational)")
	fTier    = flag.String("tier", "quick", "quick|thorough")
	fSeed    = flag.Int64("seed", 1, "PRNG seed")
	fOut     = flag.String("out", "", "result JSON path")
	fJournal = flag.String("journal", "", "write-ahead journal path")
	fReplay  = flag.String("replay", "", "replay file")
	fWorkers = flag.Int("workers", 4, "worker goroutines")
)

// Start parses the common flags and opens the journal.
func Start(prop, rule string) *Run {
	if !flag.Parsed() {
		flag.Parse()
	}
	r := &Run{distinct: map[[12]byte]struct{}{}, out: *fOut, t0: time.Now(), Replay: *fReplay, Workers: *fWorkers, nsamples: map[string]int{}, violSeen: map[string]int{}}
	r.res = Result{Property: prop, Config: *fConfig, Tier: *fTier, Seed: *fSeed, Rule: rule,
		Histo: map[string]int64{}, Max: map[string]int64{}, Observed: map[string]any{}, Digests: map[string]string{}}
	r.Quick = *fTier != "thorough"
	if *fJournal != "" {
		f, err := os.Create(*fJournal)
		if err != nil {
			Fatalf("journal: %v", err)
		}
		r.jf = f
		r.journal = bufio.NewWriterSize(f, 1<<12)
	}
	return r
}

// Fatalf reports a harness error (exit 2): never a verdict about the library.
func Fatalf(format string, a ...any) {
	fmt.Fprintf(os.Stderr, "HARNESS-ERROR: "+format+"\n", a...)
	os.Exit(2)
}

func (r *Run) Config() string { return r.res.Config }
func (r *Run) Tier() string   { return r.res.Tier }
func (r *Run) Seed() int64    { return r.res.Seed }

// Pick returns q in the quick tier and t in the thorough tier.
func (r *Run) Pick(q, t int) int {
	if r.Quick {
		return q
	}
	return t
}

// Rng returns a deterministic generator for the named stream (function of seed and name only).
func (r *Run) Rng(stream string) *rand.Rand {
	h := sha256.Sum256([]byte(fmt.Sprintf("%d/%s", r.res.Seed, stream)))
	return rand.New(rand.NewChaCha8(h))
}

// Bytes fills n bytes from rng.
func Bytes(rng *rand.Rand, n int) []byte {
	b := make([]byte, n)
	for i := 0; i+8 <= n; i += 8 {
		binary.LittleEndian.PutUint64(b[i:], rng.Uint64())
	}
	if rem := n % 8; rem != 0 {
		var t [8]byte
		binary.LittleEndian.PutUint64(t[:], rng.Uint64())
		copy(b[n-rem:], t[:rem])
	}
	return b
}

// Journal records what is about to be executed, flushed to the OS before the call,
// so that a process-fatal error leaves the witness on disk.
func (r *Run) Journal(format string, a ...any) {
	if r.journal == nil {
		return
	}
	r.mu.Lock()
	fmt.Fprintf(r.journal, format+"\n", a...)
	r.journal.Flush()
	r.mu.Unlock()
}

// Eval counts one evaluation; key (if non-nil) identifies a non-trivial case for the distinct count.
func (r *Run) Eval(key []byte) {
	r.mu.Lock()
	r.res.Evaluations++
	if key != nil {
		h := sha256.Sum256(key)
		var k [12]byte
		copy(k[:], h[:12])
		r.distinct[k] = struct{}{}
	}
	r.mu.Unlock()
}

// EvalN counts n evaluations without distinct keys.
func (r *Run) EvalN(n int64) {
	r.mu.Lock()
	r.res.Evaluations += n
	r.mu.Unlock()
}

func (r *Run) Hist(bucket string) { r.HistN(bucket, 1) }
func (r *Run) HistN(bucket string, n int64) {
	r.mu.Lock()
	r.res.Histo[bucket] += n
	r.mu.Unlock()
}
func (r *Run) HistGet(bucket string) int64 {
	r.mu.Lock()
	defer r.mu.Unlock()
	return r.res.Histo[bucket]
}

func (r *Run) Max(key string, v int64) {
	r.mu.Lock()
	if cur, ok := r.res.Max[key]; !ok || v > cur {
		r.res.Max[key] = v
	}
	r.mu.Unlock()
}

func (r *Run) Observe(key string, v any) {
	r.mu.Lock()
	r.res.Observed[key] = v
	r.mu.Unlock()
}

// Sample keeps at most 3 literal samples per category.
func (r *Run) Sample(category string, v any) {
	r.mu.Lock()
	if r.nsamples[category] < 3 {
		r.nsamples[category]++
		r.res.Samples = append(r.res.Samples, map[string]any{"category": category, "case": v})
	}
	r.mu.Unlock()
}

// Violate records a violation (at most 5 witnesses per signature and 40 in total are kept; all are counted).
func (r *Run) Violate(sig, what string, c any) {
	r.mu.Lock()
	defer r.mu.Unlock()
	r.res.NViolations++
	r.violSeen[sig]++
	if r.violSeen[sig] > 5 || len(r.res.Violations) >= 40 {
		return
	}
	raw, err := json.Marshal(c)
	if err != nil {
		raw, _ = json.Marshal(fmt.Sprintf("%+v", c))
	}
	r.res.Violations = append(r.res.Violations, Violation{Sig: sig, What: what, Config: r.res.Config, Case: raw})
	fmt.Fprintf(os.Stderr, "violation[%s] %s: %s\n", r.res.Config, sig, what)
}

func (r *Run) NViolations() int64 {
	r.mu.Lock()
	defer r.mu.Unlock()
	return r.res.NViolations
}

func (r *Run) Inconclusive(why string) {
	r.mu.Lock()
	r.res.Inconclusive = append(r.res.Inconclusive, why)
	r.mu.Unlock()
}

func (r *Run) HookMissing(name string) {
	r.mu.Lock()
	r.res.HooksMissing = append(r.res.HooksMissing, name)
	r.mu.Unlock()
}

func (r *Run) Digest(op, hexdigest string) {
	r.mu.Lock()
	r.res.Digests[op] = hexdigest
	r.mu.Unlock()
}

// Finish writes the result file.
func (r *Run) Finish() {
	r.mu.Lock()
	r.res.Distinct = int64(len(r.distinct))
	r.res.WallS = time.Since(r.t0).Seconds()
	r.res.Complete = true
	if r.journal != nil {
		fmt.Fprintf(r.journal, "done\n")
		r.journal.Flush()
		r.jf.Close()
	}
	b, err := json.MarshalIndent(&r.res, "", " ")
	r.mu.Unlock()
	if err != nil {
		Fatalf("marshal result: %v", err)
	}
	if r.out == "" {
		os.Stdout.Write(b)
		os.Stdout.Write([]byte("\n"))
		return
	}
	if err := os.WriteFile(r.out, b, 0o644); err != nil {
		Fatalf("write result: %v", err)
	}
}

// LoadReplay decodes the case stored in a replay file into v; returns false when not replaying.
func (r *Run) LoadReplay(v any) bool {
	if r.Replay == "" {
		return false
	}
	b, err := os.ReadFile(r.Replay)
	if err != nil {
		Fatalf("replay: %v", err)
	}
	var f struct {
		Violation Violation `json:"violation"`
	}
	if err := json.Unmarshal(b, &f); err != nil {
		Fatalf("replay: %v", err)
	}
	if err := json.Unmarshal(f.Violation.Case, v); err != nil {
		Fatalf("replay case: %v", err)
	}
	return true
}

// Try runs f and turns a panic into a value (with the panic text and a short stack).
func Try(f func()) (panicked bool, msg string) {
	defer func() {
		if e := recover(); e != nil {
			panicked = true
			msg = fmt.Sprint(e)
			if len(msg) > 300 {
				msg = msg[:300]
			}
			_ = debug.Stack
		}
	}()
	f()
	return
}

// TryStack is Try but also returns the stack of the panic.
func TryStack(f func()) (panicked bool, msg string, stack string) {
	defer func() {
		if e := recover(); e != nil {
			panicked = true
			msg = fmt.Sprint(e)
			stack = string(debug.Stack())
			if len(stack) > 3000 {
				stack = stack[:3000]
			}
		}
	}()
	f()
	return
}

// Parallel runs fn(i) for i in [0,n) on r.Workers goroutines.
func (r *Run) Parallel(n int, fn func(i int)) {
	w := r.Workers
	if w < 1 {
		w = 1
	}
	if w > n {
		w = n
	}
	if w <= 1 {
		for i := 0; i < n; i++ {
			fn(i)
		}
		return
	}
	var wg sync.WaitGroup
	var next int64
	var mu sync.Mutex
	for g := 0; g < w; g++ {
		wg.Add(1)
		go func() {
			defer wg.Done()
			for {
				mu.Lock()
				i := int(next)
				next++
				mu.Unlock()
				if i >= n {
					return
				}
				fn(i)
			}
		}()
	}
	wg.Wait()
}

func Hex(b []byte) string { return hex.EncodeToString(b) }
func UnHex(s string) []byte {
	b, err := hex.DecodeString(s)
	if err != nil {
		Fatalf("bad hex %q", s)
	}
	return b
}

// SortedKeys returns the keys of a histogram in order.
func SortedKeys(m map[string]int64) []string {
	var ks []string
	for k := range m {
		ks = append(ks, k)
	}
	sort.Strings(ks)
	return ks
}

// Guard hands a byte-slice input to the library the way a caller parsing a frame does: as a sub-slice with spare
// capacity whose following bytes are live data (here a canary pattern). After the call neither the input bytes nor
// anything beyond them may have changed: code that appends to a caller's slice, or writes past its length, shows here.
type Guard struct {
	buf  []byte
	n    int
	orig []byte
}

const guardTail = 48

func NewGuard(b []byte) *Guard {
	g := &Guard{buf: make([]byte, len(b)+guardTail), n: len(b), orig: append([]byte{}, b...)}
	copy(g.buf, b)
	for i := 0; i < guardTail; i++ {
		g.buf[len(b)+i] = byte(0xA5 ^ i*7)
	}
	return g
}

// B is the guarded slice (len = len(input), cap = len + tail).
func (g *Guard) B() []byte { return g.buf[:g.n] }

// Check returns "" when the input and the bytes after it are intact.
func (g *Guard) Check() string {
	if !bytes.Equal(g.buf[:g.n], g.orig) {
		return "the input bytes were modified"
	}
	return g.CheckTail()
}

// CheckTail only looks at the memory after the slice (for buffers the call is meant to fill).
func (g *Guard) CheckTail() string {
	for i := 0; i < guardTail; i++ {
		if g.buf[g.n+i] != byte(0xA5^i*7) {
			return fmt.Sprintf("the caller's memory after the input was overwritten (byte %d past the end of a %d-byte slice)", i, g.n)
		}
	}
	return ""
}

// Guards checks several guards; names[i] labels guard i in the message.
func Guards(names []string, gs ...*Guard) string {
	for i, g := range gs {
		if m := g.Check(); m != "" {
			return names[i] + ": " + m
		}
	}
	return ""
}

// Frame lays the given inputs out back to back in one buffer, followed by a canary tail, and returns them as
// plain sub-slices (so each has spare capacity reaching over its successors, as fields cut out of a received
// frame do). check() reports any byte of the frame that changed: inputs are read-only to the library.
func Frame(parts ...[]byte) (slices [][]byte, check func() string) {
	total := 0
	for _, p := range parts {
		total += len(p)
	}
	buf := make([]byte, total+guardTail)
	off := 0
	for _, p := range parts {
		copy(buf[off:], p)
		slices = append(slices, buf[off:off+len(p)])
		off += len(p)
	}
	for i := 0; i < guardTail; i++ {
		buf[total+i] = byte(0xA5 ^ i*7)
	}
	snapshot := append([]byte{}, buf...)
	return slices, func() string {
		if bytes.Equal(buf, snapshot) {
			return ""
		}
		for i := range buf {
			if buf[i] != snapshot[i] {
				o := 0
				for pi, p := range parts {
					if i < o+len(p) {
						return fmt.Sprintf("byte %d of input %d (of %d inputs laid out back to back) was overwritten: the caller's memory is read-only to the library", i-o, pi, len(parts))
					}
					o += len(p)
				}
				return fmt.Sprintf("the caller's memory %d bytes past the last input was overwritten", i-total)
			}
		}
		return ""
	}
}

// Chunked wraps a reader so that each Read delivers at most n bytes; DataEOF delivers everything it has in one
// Read together with io.EOF. Both are within the io.Reader contract: an API that consumes k bytes of entropy must get
// the same k bytes from them as from a reader that fills the buffer at once.
type chunked struct {
	r io.Reader
	n int
}

func (c *chunked) Read(p []byte) (int, error) {
	if len(p) > c.n {
		p = p[:c.n]
	}
	return c.r.Read(p)
}

func Chunked(r io.Reader, n int) io.Reader { return &chunked{r, n} }

type dataEOF struct {
	b    []byte
	done bool
}

func (d *dataEOF) Read(p []byte) (int, error) {
	if d.done {
		return 0, io.EOF
	}
	n := copy(p, d.b)
	d.b = d.b[n:]
	if len(d.b) == 0 {
		d.done = true
		return n, io.EOF
	}
	return n, nil
}

func DataEOF(b []byte) io.Reader { return &dataEOF{b: append([]byte{}, b...)} }

// Readers returns the same byte string behind differently behaving readers (full, 1-, 7- and 31-byte chunks,
// data+EOF), with a label each.
func Readers(b []byte) map[string]func() io.Reader {
	return map[string]func() io.Reader{
		"full":     func() io.Reader { return bytes.NewReader(b) },
		"1-byte":   func() io.Reader { return Chunked(bytes.NewReader(b), 1) },
		"7-byte":   func() io.Reader { return Chunked(bytes.NewReader(b), 7) },
		"31-byte":  func() io.Reader { return Chunked(bytes.NewReader(b), 31) },
		"data+EOF": func() io.Reader { return DataEOF(b) },
	}
}

// GCNow forces a garbage collection and lets finalizers run: objects the caller has dropped are collected now, not
// at some later point a test never reaches. Used between the creation of a derived object and the next use of the
// object it was derived from (or the other way round).
func GCNow() {
	runtime.GC()
	runtime.Gosched()
	time.Sleep(300 * time.Microsecond)
	runtime.GC()
}
