package ref

import (
	"errors"
	"hash"
	"io"
	"math/big"
)

// ExpandXMD: RFC 9380 section 5.3.1 (+5.3.3 for long DSTs). newH returns a fresh hash.
func ExpandXMD(newH func() hash.Hash, msg, dst []byte, n int) ([]byte, error) {
	h := newH()
	b, s := h.Size(), h.BlockSize()
	if len(dst) > 255 {
		h.Write([]byte("H2C-OVERSIZE-DST-"))
		h.Write(dst)
		dst = h.Sum(nil)
	}
	ell := (n + b - 1) / b
	if ell > 255 || n > 65535 {
		return nil, errors.New("abort")
	}
	dstPrime := append(append([]byte{}, dst...), byte(len(dst)))
	H := func(parts ...[]byte) []byte {
		x := newH()
		for _, p := range parts {
			x.Write(p)
		}
		return x.Sum(nil)
	}
	b0 := H(make([]byte, s), msg, []byte{byte(n >> 8), byte(n)}, []byte{0}, dstPrime)
	bi := H(b0, []byte{1}, dstPrime)
	out := append([]byte{}, bi...)
	for i := 2; i <= ell; i++ {
		x := make([]byte, b)
		for j := range x {
			x[j] = b0[j] ^ bi[j]
		}
		bi = H(x, []byte{byte(i)}, dstPrime)
		out = append(out, bi...)
	}
	return out[:n], nil
}

// XOF is the minimal interface needed.
type XOF interface {
	io.Writer
	io.Reader
}

// ExpandXOF: RFC 9380 section 5.3.2 (+5.3.3), k = 128.
func ExpandXOF(newX func() XOF, msg, dst []byte, n int) ([]byte, error) {
	if n > 65535 {
		return nil, errors.New("abort")
	}
	if len(dst) > 255 {
		x := newX()
		x.Write([]byte("H2C-OVERSIZE-DST-"))
		x.Write(dst)
		d := make([]byte, 32)
		io.ReadFull(x, d)
		dst = d
	}
	x := newX()
	x.Write(msg)
	x.Write([]byte{byte(n >> 8), byte(n)})
	x.Write(dst)
	x.Write([]byte{byte(len(dst))})
	out := make([]byte, n)
	io.ReadFull(x, out)
	return out, nil
}

var (
	montJ = big.NewInt(486662)
	// c1 = sqrt(-486664) with sgn0 == 0
	sqrtNeg486664 = func() *big.Int {
		r, ok := Fsqrt(fneg(big.NewInt(486664)))
		if !ok {
			panic("ref: sqrt(-486664)")
		}
		return r // Fsqrt returns the even root
	}()
)

func isSquare(a *big.Int) bool {
	a = fmod(a)
	if a.Sign() == 0 {
		return true
	}
	e := new(big.Int).Rsh(new(big.Int).Sub(P, one), 1)
	return new(big.Int).Exp(a, e, P).Cmp(one) == 0
}

// Elligator2Curve25519: RFC 9380 section 6.7.1 with J=486662, K=1, Z=2. Returns (s,t).
func Elligator2Curve25519(u *big.Int) (*big.Int, *big.Int) {
	tv1 := fmul(two, fsq(u))
	if tv1.Cmp(fneg(one)) == 0 {
		tv1 = new(big.Int)
	}
	x1 := fmul(fneg(montJ), finv(fadd(tv1, one)))
	gx := func(x *big.Int) *big.Int { return fadd(fadd(fmul(fsq(x), x), fmul(montJ, fsq(x))), x) }
	gx1 := gx(x1)
	x2 := fsub(fneg(x1), montJ)
	gx2 := fmul(tv1, gx1)
	var x, y2 *big.Int
	e2 := isSquare(gx1)
	if e2 {
		x, y2 = x1, gx1
	} else {
		x, y2 = x2, gx2
	}
	y, ok := Fsqrt(y2)
	if !ok {
		panic("ref: elligator2 no sqrt")
	}
	// if e2 then sgn0(y) must be 1 else 0
	want := uint(0)
	if e2 {
		want = 1
	}
	if y.Bit(0) != want {
		y = fneg(y)
	}
	return x, y
}

// MapToEdwards: Elligator 2 followed by the rational map of RFC 9380 appendix D.1.
func MapToEdwards(u *big.Int) Pt {
	s, t := Elligator2Curve25519(u)
	if t.Sign() == 0 || fadd(s, one).Sign() == 0 {
		return Identity()
	}
	v := fmul(sqrtNeg486664, fdiv(s, t))
	w := fdiv(fsub(s, one), fadd(s, one))
	return Pt{v, w}
}

func osToField(b []byte) *big.Int { return fmod(new(big.Int).SetBytes(b)) }

// HashToCurve (RO) and EncodeToCurve (NU) given the uniform bytes.
func HashToCurveFromUniform(u96 []byte) Pt {
	q0 := MapToEdwards(osToField(u96[:48]))
	q1 := MapToEdwards(osToField(u96[48:]))
	return q0.Add(q1).Mul(big.NewInt(8))
}
func EncodeToCurveFromUniform(u48 []byte) Pt {
	return MapToEdwards(osToField(u48)).Mul(big.NewInt(8))
}
