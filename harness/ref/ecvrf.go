package ref

import (
	"crypto/sha512"
	"hash"
	"math/big"
)

var vrfDST = append([]byte("ECVRF_edwards25519_XMD:SHA-512_ELL2_NU_"), 0x04)

func vrfEncodeToCurve(salt, alpha []byte) Pt {
	msg := append(append([]byte{}, salt...), alpha...)
	u, err := ExpandXMD(func() hash.Hash { return sha512.New() }, msg, vrfDST, 48)
	if err != nil {
		panic(err)
	}
	return EncodeToCurveFromUniform(u)
}

func vrfChallenge(withY bool, pk []byte, pts ...Pt) *big.Int {
	h := sha512.New()
	h.Write([]byte{0x04, 0x02})
	if withY {
		h.Write(pk)
	}
	for _, p := range pts {
		h.Write(Encode(p))
	}
	h.Write([]byte{0x00})
	d := h.Sum(nil)
	return FromLE(d[:16])
}

// VRFProve returns pi (80 bytes). v10=true omits Y from the challenge. kOverride (optional) replaces the nonce,
// torsion (optional) is added to Gamma (malicious prover).
func VRFProve(seed, alpha []byte, v10 bool, kOverride *big.Int, torsion *Pt) ([]byte, *big.Int) {
	key := NewKey(seed)
	H := vrfEncodeToCurve(key.Pub, alpha)
	gamma := H.Mul(key.A)
	k := kOverride
	if k == nil {
		k = hashModL(key.Prefix, Encode(H))
	}
	kB, kH := B.Mul(k), H.Mul(k)
	if torsion != nil {
		gamma = gamma.Add(*torsion)
	}
	Y := Decode(key.Pub).Pt
	c := vrfChallenge(!v10, key.Pub, H, gamma, kB, kH)
	_ = Y
	s := new(big.Int).Mod(new(big.Int).Add(k, new(big.Int).Mul(c, key.A)), L)
	pi := append([]byte{}, Encode(gamma)...)
	pi = append(pi, LE32(c)[:16]...)
	pi = append(pi, LE32(s)...)
	return pi, c
}

func VRFProofToHash(pi []byte) ([]byte, bool) {
	if len(pi) != 80 {
		return nil, false
	}
	g := Decode(pi[:32])
	if !g.OK || !g.Canonical {
		return nil, false
	}
	if FromLE(pi[48:]).Cmp(L) >= 0 {
		return nil, false
	}
	h := sha512.New()
	h.Write([]byte{0x04, 0x03})
	h.Write(Encode(g.Pt.Mul(big.NewInt(8))))
	h.Write([]byte{0x00})
	return h.Sum(nil), true
}

func VRFVerify(pk, pi, alpha []byte, v10 bool) (bool, []byte) {
	y := Decode(pk)
	if !y.OK || !y.Canonical || y.SmallOrder {
		return false, nil
	}
	beta, ok := VRFProofToHash(pi)
	if !ok {
		return false, nil
	}
	gamma := Decode(pi[:32]).Pt
	c := FromLE(pi[32:48])
	s := FromLE(pi[48:])
	H := vrfEncodeToCurve(pk, alpha)
	U := B.Mul(s).Add(y.Pt.Mul(c).Neg())
	V := H.Mul(s).Add(gamma.Mul(c).Neg())
	if vrfChallenge(!v10, pk, H, gamma, U, V).Cmp(c) != 0 {
		return false, nil
	}
	return true, beta
}

// VRFForge builds the proof (Gamma, c, s = k) for an arbitrary public-key string and Gamma point, i.e. what a
// prover without a secret key can compute. It verifies (ignoring key validation) iff c*Y = O and c*Gamma' = O
// where Gamma' = Gamma - "xH" does not apply: with a small-order Y and small-order Gamma both terms vanish
// when c = 0 mod 8.
func VRFForge(pk []byte, gamma Pt, alpha []byte, v10 bool, k *big.Int) ([]byte, *big.Int) {
	H := vrfEncodeToCurve(pk, alpha)
	kB, kH := B.Mul(k), H.Mul(k)
	c := vrfChallenge(!v10, pk, H, gamma, kB, kH)
	pi := append([]byte{}, Encode(gamma)...)
	pi = append(pi, LE32(c)[:16]...)
	pi = append(pi, LE32(new(big.Int).Mod(k, L))...)
	return pi, c
}

// VRFNonce returns the deterministic nonce (or the added-randomness one when z != nil).
func VRFNonce(seed, alpha, z []byte) *big.Int {
	key := NewKey(seed)
	H := vrfEncodeToCurve(key.Pub, alpha)
	if z == nil {
		return hashModL(key.Prefix, Encode(H))
	}
	pad := make([]byte, 1024-(32+32))
	return hashModL(z, key.Prefix, pad, Encode(H))
}

// VRFProveMixedKey is the prover for a public key with a torsion component: Y = [x]B + T (canonical, not of small
// order, but outside the prime-order subgroup), Gamma = [x]H, s = k + c*x. RFC 9381 key validation (5.4.5) only
// rejects Y with [8]Y = O, so the proof verifies exactly when c*T = O (then s*B - c*Y = k*B). Returns pk, pi, c.
func VRFProveMixedKey(x *big.Int, t Pt, alpha []byte, v10 bool, k *big.Int) ([]byte, []byte, *big.Int) {
	pk := Encode(B.Mul(x).Add(t))
	H := vrfEncodeToCurve(pk, alpha)
	gamma := H.Mul(x)
	c := vrfChallenge(!v10, pk, H, gamma, B.Mul(k), H.Mul(k))
	s := new(big.Int).Mod(new(big.Int).Add(k, new(big.Int).Mul(c, x)), L)
	pi := append([]byte{}, Encode(gamma)...)
	pi = append(pi, LE32(c)[:16]...)
	pi = append(pi, LE32(s)...)
	return pk, pi, c
}
