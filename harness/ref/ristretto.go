package ref

import "math/big"

var (
	sqrtADMinusOne, _ = new(big.Int).SetString("25063068953384623474111414158702152701244531502492656460079210482610430750235", 10)
	invSqrtAMinusD, _ = new(big.Int).SetString("54469307008909316920995813868745141605393597292927456921205312896311721017578", 10)
	oneMinusDSq       = fsub(one, fsq(D))
	dMinusOneSq       = fsq(fsub(D, one))
)

func init() {
	if fsq(sqrtADMinusOne).Cmp(fsub(fneg(D), one)) != 0 {
		panic("ref: SQRT_AD_MINUS_ONE constant wrong")
	}
	if fmul(fsq(invSqrtAMinusD), fsub(fneg(one), D)).Cmp(one) != 0 {
		panic("ref: INVSQRT_A_MINUS_D constant wrong")
	}
}

func isNeg(a *big.Int) bool { return fmod(a).Bit(0) == 1 }
func fabs(a *big.Int) *big.Int {
	if isNeg(a) {
		return fneg(a)
	}
	return fmod(a)
}

// SqrtRatioM1: RFC 9496 section 4.2.
func SqrtRatioM1(u, v *big.Int) (bool, *big.Int) {
	v3 := fmul(fsq(v), v)
	v7 := fmul(fsq(v3), v)
	e := new(big.Int).Rsh(new(big.Int).Sub(P, big.NewInt(5)), 3)
	r := fmul(fmul(u, v3), new(big.Int).Exp(fmul(u, v7), e, P))
	check := fmul(v, fsq(r))
	correct := check.Cmp(fmod(u)) == 0
	flipped := check.Cmp(fneg(u)) == 0
	flippedI := check.Cmp(fmul(fneg(u), SqrtM1)) == 0
	if flipped || flippedI {
		r = fmul(r, SqrtM1)
	}
	return correct || flipped, fabs(r)
}

// RistrettoDecode: RFC 9496 section 4.3.1. Returns an internal representative.
func RistrettoDecode(b []byte) (Pt, bool) {
	if len(b) != 32 {
		return Pt{}, false
	}
	s := FromLE(b)
	if s.Cmp(P) >= 0 || isNeg(s) {
		return Pt{}, false
	}
	ss := fsq(s)
	u1 := fsub(one, ss)
	u2 := fadd(one, ss)
	u2s := fsq(u2)
	v := fsub(fneg(fmul(D, fsq(u1))), u2s)
	was, inv := SqrtRatioM1(one, fmul(v, u2s))
	denX := fmul(inv, u2)
	denY := fmul(fmul(inv, denX), v)
	x := fabs(fmul(fmul(two, s), denX))
	y := fmul(u1, denY)
	t := fmul(x, y)
	if !was || isNeg(t) || y.Sign() == 0 {
		return Pt{}, false
	}
	return Pt{x, y}, true
}

// RistrettoEncode: RFC 9496 section 4.3.2 on an affine representative.
func RistrettoEncode(p Pt) []byte {
	x0, y0, z0 := p.X, p.Y, big.NewInt(1)
	t0 := fmul(x0, y0)
	u1 := fmul(fadd(z0, y0), fsub(z0, y0))
	u2 := fmul(x0, y0)
	_, inv := SqrtRatioM1(one, fmul(u1, fsq(u2)))
	den1 := fmul(inv, u1)
	den2 := fmul(inv, u2)
	zInv := fmul(fmul(den1, den2), t0)
	ix0 := fmul(x0, SqrtM1)
	iy0 := fmul(y0, SqrtM1)
	ench := fmul(den1, invSqrtAMinusD)
	x, y, denInv := x0, y0, den2
	if isNeg(fmul(t0, zInv)) {
		x, y, denInv = iy0, ix0, ench
	}
	if isNeg(fmul(x, zInv)) {
		y = fneg(y)
	}
	return LE32(fabs(fmul(denInv, fsub(z0, y))))
}

func RistrettoEqual(p, q Pt) bool {
	return fmul(p.X, q.Y).Cmp(fmul(p.Y, q.X)) == 0 || fmul(p.Y, q.Y).Cmp(fmul(p.X, q.X)) == 0
}

func ristrettoMap(t *big.Int) Pt {
	r := fmul(SqrtM1, fsq(t))
	u := fmul(fadd(r, one), oneMinusDSq)
	v := fmul(fsub(fneg(one), fmul(r, D)), fadd(r, D))
	was, s := SqrtRatioM1(u, v)
	sPrime := fneg(fabs(fmul(s, t)))
	c := fneg(one)
	if !was {
		s = sPrime
		c = r
	}
	n := fsub(fmul(fmul(c, fsub(r, one)), dMinusOneSq), v)
	w0 := fmul(fmul(two, s), v)
	w1 := fmul(n, sqrtADMinusOne)
	w2 := fsub(one, fsq(s))
	w3 := fadd(one, fsq(s))
	X, Y, Z := fmul(w0, w3), fmul(w2, w1), fmul(w1, w3)
	zi := finv(Z)
	return Pt{fmul(X, zi), fmul(Y, zi)}
}

// RistrettoFromUniform: RFC 9496 section 4.3.4.
func RistrettoFromUniform(b []byte) Pt {
	t1 := fmod(new(big.Int).And(FromLE(b[:32]), Mask255))
	t2 := fmod(new(big.Int).And(FromLE(b[32:]), Mask255))
	return ristrettoMap(t1).Add(ristrettoMap(t2))
}
