package ref

import "math/big"

// X25519 per RFC 7748 section 5 (big-integer Montgomery ladder).
func X25519(k, u []byte) []byte {
	kk := append([]byte{}, k...)
	kk[0] &= 248
	kk[31] &= 127
	kk[31] |= 64
	sc := FromLE(kk)
	uu := append([]byte{}, u...)
	uu[31] &= 127
	x1 := fmod(FromLE(uu))
	x2, z2 := big.NewInt(1), big.NewInt(0)
	x3, z3 := new(big.Int).Set(x1), big.NewInt(1)
	swap := uint(0)
	a24 := big.NewInt(121665)
	for t := 254; t >= 0; t-- {
		kt := sc.Bit(t)
		swap ^= kt
		if swap == 1 {
			x2, x3 = x3, x2
			z2, z3 = z3, z2
		}
		swap = kt
		A := fadd(x2, z2)
		AA := fsq(A)
		Bv := fsub(x2, z2)
		BB := fsq(Bv)
		E := fsub(AA, BB)
		C := fadd(x3, z3)
		Dv := fsub(x3, z3)
		DA := fmul(Dv, A)
		CB := fmul(C, Bv)
		x3 = fsq(fadd(DA, CB))
		z3 = fmul(x1, fsq(fsub(DA, CB)))
		x2 = fmul(AA, BB)
		z2 = fmul(E, fadd(AA, fmul(a24, E)))
	}
	if swap == 1 {
		x2, x3 = x3, x2
		z2, z3 = z3, z2
	}
	return LE32(fmul(x2, finv(z2)))
}
