package ref

import "math/big"

// X25519 per RFC 7748 section 5 (big-integer Montgomery ladder).
func X25519(k, u []byte) []byte {
	kk := append([]byte{}, k...)
	kk[0] &= 248
	kk[31] &= 127
	kk[31] |= 64
	uu := append([]byte{}, u...)
	uu[31] &= 127
	return LE32(Ladder(FromLE(kk), FromLE(uu)))
}

// Ladder is the RFC 7748 ladder with an arbitrary (unclamped) scalar below 2^256: the u-coordinate of [sc]P for
// any P (on the curve or its twist) with u(P) = u, and 0 for the point at infinity.
func Ladder(sc, u *big.Int) *big.Int {
	x2, z2 := LadderXZ(sc, u)
	return fmul(x2, finv(z2))
}

// LadderXZ returns the projective result (X : Z); Z = 0 exactly for the point at infinity.
func LadderXZ(sc, u *big.Int) (*big.Int, *big.Int) {
	x1 := fmod(u)
	x2, z2 := big.NewInt(1), big.NewInt(0)
	x3, z3 := new(big.Int).Set(x1), big.NewInt(1)
	swap := uint(0)
	a24 := big.NewInt(121665)
	for t := 255; t >= 0; t-- {
		kt := sc.Bit(t)
		swap ^= kt
		if swap == 1 {
			x2, x3 = x3, x2
			z2, z3 = z3, z2
		}
		swap = kt
		A := fadd(x2, z2)
		AA := fsq(A)
		Bv := fsub(x2, z2)
		BB := fsq(Bv)
		E := fsub(AA, BB)
		C := fadd(x3, z3)
		Dv := fsub(x3, z3)
		DA := fmul(Dv, A)
		CB := fmul(C, Bv)
		x3 = fsq(fadd(DA, CB))
		z3 = fmul(x1, fsq(fsub(DA, CB)))
		x2 = fmul(AA, BB)
		z2 = fmul(E, fadd(AA, fmul(a24, E)))
	}
	if swap == 1 {
		x2, x3 = x3, x2
		z2, z3 = z3, z2
	}
	return x2, z2
}

// TwistOrder is the prime l' with #twist = 4*l'.
var TwistOrder = func() *big.Int {
	n := new(big.Int).Add(new(big.Int).Lsh(P, 1), big.NewInt(2))
	n.Sub(n, new(big.Int).Lsh(L, 3))
	return n.Rsh(n, 2)
}()

// X25519Preimage returns a u-coordinate q with X25519(k, q) = target exactly, or nil if target is not the
// u-coordinate of a point of prime order on the curve or on its twist (then no clamped scalar can produce it).
func X25519Preimage(k []byte, target *big.Int) []byte {
	kk := append([]byte{}, k...)
	kk[0] &= 248
	kk[31] &= 127
	kk[31] |= 64
	c := FromLE(kk)
	if target.Sign() == 0 || target.Cmp(P) >= 0 {
		return nil
	}
	for _, ord := range []*big.Int{L, TwistOrder} {
		// [ord]P must be the point at infinity itself (Z = 0), not the 2-torsion point (0,0) whose u is also 0
		if _, z := LadderXZ(ord, target); z.Sign() != 0 {
			continue
		}
		inv := new(big.Int).ModInverse(new(big.Int).Mod(c, ord), ord)
		if inv == nil {
			return nil
		}
		q := Ladder(inv, target)
		return LE32(q)
	}
	return nil
}
