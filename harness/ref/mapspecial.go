package ref

import "math/big"

// MapSpecialInputs: field elements that are special for Elligator 2 + the rational map: 0, +-small, +-sqrt(-1) and the
// roots (where they exist) of the equations that make an intermediate quantity 0 or -1.
func MapSpecialInputs() []*big.Int {
	P := P
	mod := func(v *big.Int) *big.Int { return new(big.Int).Mod(v, P) }
	inv := func(v *big.Int) *big.Int { return new(big.Int).ModInverse(mod(v), P) }
	var us []*big.Int
	for _, v := range []int64{0, 1, 2, 3, 4, 5, 486662, 486664, 121665, 121666} {
		us = append(us, big.NewInt(v), mod(big.NewInt(-v)))
	}
	us = append(us, SqrtM1, mod(new(big.Int).Neg(SqrtM1)))
	J := big.NewInt(486662)
	half := inv(big.NewInt(2))
	// candidates for exceptional cases: 1+2u^2 = 0 (inv0), s = -1 via x1 or x2, t = 0
	cands := []*big.Int{
		mod(new(big.Int).Neg(half)),                                                       // u^2 = -1/2
		mod(new(big.Int).Mul(new(big.Int).Sub(J, big.NewInt(1)), half)),                   // x1 = -1
		mod(new(big.Int).Mul(inv(new(big.Int).Sub(J, big.NewInt(1))), half)),              // x2 = -1
		mod(new(big.Int).Mul(new(big.Int).Sub(new(big.Int).Neg(J), big.NewInt(1)), half)), // 1+2u^2 = -J
		mod(new(big.Int).Mul(new(big.Int).Sub(inv(J), big.NewInt(1)), half)),
	}
	for _, sq := range cands {
		if rt, ok := Fsqrt(sq); ok {
			us = append(us, rt, mod(new(big.Int).Neg(rt)))
		}
	}
	return us
}

