// Package ref: independent big-integer reference implementations (prototype).
package ref

import "math/big"

var (
	P       = new(big.Int).Sub(new(big.Int).Lsh(big.NewInt(1), 255), big.NewInt(19))
	L, _    = new(big.Int).SetString("7237005577332262213973186563042994240857116359379907606001950938285454250989", 10)
	one     = big.NewInt(1)
	two     = big.NewInt(2)
	D       = fdiv(fneg(big.NewInt(121665)), big.NewInt(121666))
	SqrtM1  = new(big.Int).Exp(two, new(big.Int).Rsh(new(big.Int).Sub(P, one), 2), P)
	Mask255 = new(big.Int).Sub(new(big.Int).Lsh(one, 255), one)
)

func fmod(a *big.Int) *big.Int    { return new(big.Int).Mod(a, P) }
func fadd(a, b *big.Int) *big.Int { return fmod(new(big.Int).Add(a, b)) }
func fsub(a, b *big.Int) *big.Int { return fmod(new(big.Int).Sub(a, b)) }
func fmul(a, b *big.Int) *big.Int { return fmod(new(big.Int).Mul(a, b)) }
func fneg(a *big.Int) *big.Int    { return fmod(new(big.Int).Neg(a)) }
func finv(a *big.Int) *big.Int {
	if fmod(a).Sign() == 0 {
		return new(big.Int)
	}
	return new(big.Int).ModInverse(fmod(a), P)
}
func fdiv(a, b *big.Int) *big.Int { return fmul(a, finv(b)) }
func fsq(a *big.Int) *big.Int     { return fmul(a, a) }

// Fsqrt returns the even ("non-negative") square root of a, if any.
func Fsqrt(a *big.Int) (*big.Int, bool) {
	a = fmod(a)
	e := new(big.Int).Rsh(new(big.Int).Add(P, big.NewInt(3)), 3)
	x := new(big.Int).Exp(a, e, P)
	if fsq(x).Cmp(a) != 0 {
		x = fmul(x, SqrtM1)
	}
	if fsq(x).Cmp(a) != 0 {
		return nil, false
	}
	if x.Bit(0) == 1 {
		x = fneg(x)
	}
	return x, true
}

// LE32 encodes v (< 2^256) little-endian.
func LE32(v *big.Int) []byte {
	b := v.FillBytes(make([]byte, 32))
	for i, j := 0, 31; i < j; i, j = i+1, j-1 {
		b[i], b[j] = b[j], b[i]
	}
	return b
}

// FromLE decodes a little-endian integer.
func FromLE(b []byte) *big.Int {
	c := make([]byte, len(b))
	for i := range b {
		c[len(b)-1-i] = b[i]
	}
	return new(big.Int).SetBytes(c)
}
