package ref

// KeccakF1600 is a plain reference permutation (FIPS 202, section 3), lanes A[x+5y].
func KeccakF1600(a *[25]uint64) {
	// round constants via LFSR
	rc := func(t int) uint64 {
		r := uint64(1)
		for i := 0; i < t%255; i++ {
			r <<= 1
			if r&0x100 != 0 {
				r ^= 0x171
			}
		}
		return r & 1
	}
	rot := func(v uint64, n uint) uint64 {
		n %= 64
		if n == 0 {
			return v
		}
		return v<<n | v>>(64-n)
	}
	for round := 0; round < 24; round++ {
		// theta
		var c, d [5]uint64
		for x := 0; x < 5; x++ {
			c[x] = a[x] ^ a[x+5] ^ a[x+10] ^ a[x+15] ^ a[x+20]
		}
		for x := 0; x < 5; x++ {
			d[x] = c[(x+4)%5] ^ rot(c[(x+1)%5], 1)
		}
		for i := 0; i < 25; i++ {
			a[i] ^= d[i%5]
		}
		// rho + pi
		var b [25]uint64
		x, y := 1, 0
		b[0] = a[0]
		cur := a[x+5*y]
		for t := 0; t < 24; t++ {
			nx, ny := y, (2*x+3*y)%5
			off := uint((t + 1) * (t + 2) / 2)
			b[nx+5*ny] = rot(cur, off)
			x, y = nx, ny
			cur = a[x+5*y]
		}
		// chi
		for yy := 0; yy < 5; yy++ {
			for xx := 0; xx < 5; xx++ {
				a[xx+5*yy] = b[xx+5*yy] ^ (^b[(xx+1)%5+5*yy] & b[(xx+2)%5+5*yy])
			}
		}
		// iota
		var k uint64
		for j := 0; j < 7; j++ {
			if rc(j+7*round) == 1 {
				k |= 1 << (uint(1)<<uint(j) - 1)
			}
		}
		a[0] ^= k
	}
}

func keccakBytes(st *[200]byte) {
	var a [25]uint64
	for i := 0; i < 25; i++ {
		for j := 0; j < 8; j++ {
			a[i] |= uint64(st[8*i+j]) << (8 * uint(j))
		}
	}
	KeccakF1600(&a)
	for i := 0; i < 25; i++ {
		for j := 0; j < 8; j++ {
			st[8*i+j] = byte(a[i] >> (8 * uint(j)))
		}
	}
}

// Shake128 is only used to validate the permutation against x/crypto/sha3.
func Shake128(msg []byte, outLen int) []byte {
	const rate = 168
	var st [200]byte
	pos := 0
	for _, b := range msg {
		st[pos] ^= b
		pos++
		if pos == rate {
			keccakBytes(&st)
			pos = 0
		}
	}
	st[pos] ^= 0x1f
	st[rate-1] ^= 0x80
	keccakBytes(&st)
	out := make([]byte, 0, outLen)
	pos = 0
	for len(out) < outLen {
		if pos == rate {
			keccakBytes(&st)
			pos = 0
		}
		out = append(out, st[pos])
		pos++
	}
	return out
}
