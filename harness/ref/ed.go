package ref

import (
	"crypto/sha512"
	"math/big"
)

// Pt is an affine point on edwards25519.
type Pt struct{ X, Y *big.Int }

func Identity() Pt { return Pt{new(big.Int), big.NewInt(1)} }

func (p Pt) Equal(q Pt) bool  { return p.X.Cmp(q.X) == 0 && p.Y.Cmp(q.Y) == 0 }
func (p Pt) IsIdentity() bool { return p.X.Sign() == 0 && p.Y.Cmp(one) == 0 }
func (p Pt) Neg() Pt          { return Pt{fneg(p.X), new(big.Int).Set(p.Y)} }

func OnCurve(p Pt) bool {
	xx, yy := fsq(p.X), fsq(p.Y)
	return fsub(yy, xx).Cmp(fadd(one, fmul(D, fmul(xx, yy)))) == 0
}

// Add: complete affine addition law for a = -1.
func (p Pt) Add(q Pt) Pt {
	x1y2 := fmul(p.X, q.Y)
	y1x2 := fmul(p.Y, q.X)
	y1y2 := fmul(p.Y, q.Y)
	x1x2 := fmul(p.X, q.X)
	dxy := fmul(D, fmul(x1x2, y1y2))
	x3 := fdiv(fadd(x1y2, y1x2), fadd(one, dxy))
	y3 := fdiv(fadd(y1y2, x1x2), fsub(one, dxy))
	return Pt{x3, y3}
}

type proj struct{ X, Y, Z *big.Int }

func toProj(p Pt) proj { return proj{new(big.Int).Set(p.X), new(big.Int).Set(p.Y), big.NewInt(1)} }
func (p proj) affine() Pt {
	zi := finv(p.Z)
	return Pt{fmul(p.X, zi), fmul(p.Y, zi)}
}
func (p proj) add(q proj) proj {
	a := fmul(p.Z, q.Z)
	b := fsq(a)
	c := fmul(p.X, q.X)
	d := fmul(p.Y, q.Y)
	e := fmul(D, fmul(c, d))
	f := fsub(b, e)
	g := fadd(b, e)
	x3 := fmul(fmul(a, f), fsub(fsub(fmul(fadd(p.X, p.Y), fadd(q.X, q.Y)), c), d))
	y3 := fmul(fmul(a, g), fadd(d, c))
	z3 := fmul(f, g)
	return proj{x3, y3, z3}
}

// Mul returns [k]p for any integer k >= 0.
func (p Pt) Mul(k *big.Int) Pt {
	if k.Sign() < 0 {
		return p.Neg().Mul(new(big.Int).Neg(k))
	}
	acc := toProj(Identity())
	base := toProj(p)
	for i := k.BitLen() - 1; i >= 0; i-- {
		acc = acc.add(acc)
		if k.Bit(i) == 1 {
			acc = acc.add(base)
		}
	}
	return acc.affine()
}

var B = func() Pt {
	y := fdiv(big.NewInt(4), big.NewInt(5))
	p, ok := pointFromY(y, 0)
	if !ok {
		panic("ref: basepoint")
	}
	return p
}()

func pointFromY(y *big.Int, sign uint) (Pt, bool) {
	yy := fsq(y)
	u := fsub(yy, one)
	v := fadd(fmul(D, yy), one)
	x, ok := Fsqrt(fdiv(u, v))
	if !ok {
		return Pt{}, false
	}
	if sign == 1 {
		x = fneg(x)
	}
	return Pt{x, fmod(y)}, true
}

// DecodeInfo describes how a 32-byte string decodes.
type DecodeInfo struct {
	OK         bool // masked y (mod p) is on the curve
	Pt         Pt
	Canonical  bool // y < p and not (x == 0 with sign bit set)
	SmallOrder bool
}

func Decode(b []byte) DecodeInfo {
	var di DecodeInfo
	if len(b) != 32 {
		return di
	}
	v := FromLE(b)
	sign := v.Bit(255)
	y := new(big.Int).And(v, Mask255)
	yCanon := y.Cmp(P) < 0
	pt, ok := pointFromY(fmod(y), sign)
	// canonicity is a property of the string alone (when y<p), but x==0 needs the point
	di.Canonical = yCanon
	if !ok {
		// canonical test in the library is purely syntactic: y<p and not one of two strings
		// y=1|sign or y=p-1|sign.  Reproduce from the math: x==0 iff y = +-1.
		if yCanon && sign == 1 && (y.Cmp(one) == 0 || y.Cmp(new(big.Int).Sub(P, one)) == 0) {
			di.Canonical = false
		}
		return di
	}
	di.OK = true
	di.Pt = pt
	if pt.X.Sign() == 0 && sign == 1 {
		di.Canonical = false
	}
	di.SmallOrder = pt.Mul(big.NewInt(8)).IsIdentity()
	return di
}

func Encode(p Pt) []byte {
	v := new(big.Int).Set(p.Y)
	if p.X.Bit(0) == 1 {
		v.SetBit(v, 255, 1)
	}
	return LE32(v)
}

// Torsion8 returns a generator of E[8].
func Torsion8() Pt {
	for y := int64(2); ; y++ {
		q, ok := pointFromY(big.NewInt(y), 0)
		if !ok {
			continue
		}
		t := q.Mul(L)
		if !t.Mul(big.NewInt(4)).IsIdentity() {
			return t
		}
	}
}

type Flags struct{ SmallA, SmallR, NonCanonA, NonCanonR, Cofactorless bool }

func Dom2(f byte, ctx []byte) []byte {
	d := []byte("SigEd25519 no Ed25519 collisions")
	d = append(d, f, byte(len(ctx)))
	return append(d, ctx...)
}

// EdFacts: flag independent facts about (pk, msg, sig) with a dom2 prefix (nil for pure).
type EdFacts struct {
	LenOK, SMinimal bool
	A, R            DecodeInfo
	EqCofactored    bool // [8](SB - kA - R) == O (needs A.OK && R.OK)
	EqCofactorless  bool // enc(SB - kA) == R bytes (needs A.OK)
}

func Facts(pk, msg, sig, dom2 []byte) EdFacts {
	var f EdFacts
	f.A = Decode(pk)
	if len(sig) != 64 {
		return f
	}
	f.LenOK = true
	S := FromLE(sig[32:])
	f.SMinimal = S.Cmp(L) < 0
	f.R = Decode(sig[:32])
	if !f.A.OK {
		return f
	}
	h := sha512.New()
	h.Write(dom2)
	h.Write(sig[:32])
	h.Write(pk)
	h.Write(msg)
	k := new(big.Int).Mod(FromLE(h.Sum(nil)), L)
	// SB - kA ; use S mod L (only meaningful when SMinimal, but harmless)
	sb := B.Mul(new(big.Int).Mod(S, L))
	ka := f.A.Pt.Mul(k)
	diff := sb.Add(ka.Neg())
	f.EqCofactorless = string(Encode(diff)) == string(sig[:32])
	if f.R.OK {
		f.EqCofactored = diff.Add(f.R.Pt.Neg()).Mul(big.NewInt(8)).IsIdentity()
	}
	return f
}

// Verify evaluates the C01 predicate.
func (f EdFacts) Verify(fl Flags) bool {
	if !f.LenOK || !f.SMinimal {
		return false
	}
	if !f.A.OK || (!fl.SmallA && f.A.SmallOrder) || (!fl.NonCanonA && !f.A.Canonical) {
		return false
	}
	if !fl.NonCanonR && !f.R.Canonical {
		return false
	}
	if fl.Cofactorless {
		if !fl.SmallR && (!f.R.OK || f.R.SmallOrder) {
			return false
		}
		return f.EqCofactorless
	}
	if !f.R.OK || (!fl.SmallR && f.R.SmallOrder) {
		return false
	}
	return f.EqCofactored
}

// Key material per RFC 8032.
type Key struct {
	Seed   []byte
	A      *big.Int // clamped secret scalar
	Prefix []byte
	Pub    []byte
}

func NewKey(seed []byte) Key {
	h := sha512.Sum512(seed)
	h[0] &= 248
	h[31] &= 127
	h[31] |= 64
	a := FromLE(h[:32])
	return Key{Seed: seed, A: a, Prefix: append([]byte{}, h[32:]...), Pub: Encode(B.Mul(a))}
}

func hashModL(parts ...[]byte) *big.Int {
	h := sha512.New()
	for _, p := range parts {
		h.Write(p)
	}
	return new(big.Int).Mod(FromLE(h.Sum(nil)), L)
}

// Sign per RFC 8032 (dom2 nil for pure).
func (k Key) Sign(msg, dom2 []byte) []byte {
	r := hashModL(dom2, k.Prefix, msg)
	R := Encode(B.Mul(r))
	c := hashModL(dom2, R, k.Pub, msg)
	S := new(big.Int).Mod(new(big.Int).Add(r, new(big.Int).Mul(c, k.A)), L)
	return append(R, LE32(S)...)
}

// SignWith produces (Rbytes, S) for arbitrary public key bytes and R point: S = r + H(R,pk,m)*a.
func (k Key) SignWith(r *big.Int, Rbytes, pkBytes, msg, dom2 []byte) []byte {
	c := hashModL(dom2, Rbytes, pkBytes, msg)
	S := new(big.Int).Mod(new(big.Int).Add(r, new(big.Int).Mul(c, k.A)), L)
	return append(append([]byte{}, Rbytes...), LE32(S)...)
}

// Reason is like Verify but names the first rule that rejects (or "accept").
func (f EdFacts) Reason(fl Flags) string {
	switch {
	case !f.LenOK:
		return "siglen"
	case !f.SMinimal:
		return "S>=L"
	case !f.A.OK:
		return "A-undecodable"
	case !fl.SmallA && f.A.SmallOrder:
		return "A-small-order"
	case !fl.NonCanonA && !f.A.Canonical:
		return "A-noncanonical"
	case !fl.NonCanonR && !f.R.Canonical:
		return "R-noncanonical"
	}
	if fl.Cofactorless {
		if !fl.SmallR && !f.R.OK {
			return "R-undecodable"
		}
		if !fl.SmallR && f.R.SmallOrder {
			return "R-small-order"
		}
		if !f.EqCofactorless {
			return "eq-cofactorless-false"
		}
		return "accept"
	}
	if !f.R.OK {
		return "R-undecodable"
	}
	if !fl.SmallR && f.R.SmallOrder {
		return "R-small-order"
	}
	if !f.EqCofactored {
		return "eq-cofactored-false"
	}
	return "accept"
}

// FlagsFromBits maps a 5-bit number to a flag set (bit0 SmallA, bit1 SmallR, bit2 NonCanonA, bit3 NonCanonR, bit4 Cofactorless).
func FlagsFromBits(fl int) Flags {
	return Flags{SmallA: fl&1 != 0, SmallR: fl&2 != 0, NonCanonA: fl&4 != 0, NonCanonR: fl&8 != 0, Cofactorless: fl&16 != 0}
}

// Torsion returns the eight points of E[8] as multiples 0..7 of one generator.
func Torsion() []Pt {
	T := Torsion8()
	out := make([]Pt, 8)
	for i := range out {
		out[i] = T.Mul(big.NewInt(int64(i)))
	}
	return out
}
