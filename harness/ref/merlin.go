package ref

import "encoding/binary"

const (
	strobeR = 166
	flagI   = 1
	flagA   = 2
	flagC   = 4
	flagT   = 8
	flagM   = 16
	flagK   = 32
)

// Strobe is a reference STROBE-128/1600 restricted to the operations Merlin uses.
type Strobe struct {
	st       [200]byte
	pos      byte
	posBegin byte
	curFlags byte
}

func NewStrobe(proto []byte) *Strobe {
	s := &Strobe{}
	copy(s.st[0:6], []byte{1, strobeR + 2, 1, 0, 1, 96})
	copy(s.st[6:18], []byte("STROBEv1.0.2"))
	keccakBytes(&s.st)
	s.MetaAD(proto, false)
	return s
}

func (s *Strobe) Clone() *Strobe { c := *s; return &c }

func (s *Strobe) runF() {
	s.st[s.pos] ^= s.posBegin
	s.st[s.pos+1] ^= 0x04
	s.st[strobeR+1] ^= 0x80
	keccakBytes(&s.st)
	s.pos, s.posBegin = 0, 0
}

func (s *Strobe) absorb(data []byte) {
	for _, b := range data {
		s.st[s.pos] ^= b
		s.pos++
		if s.pos == strobeR {
			s.runF()
		}
	}
}

func (s *Strobe) overwrite(data []byte) {
	for _, b := range data {
		s.st[s.pos] = b
		s.pos++
		if s.pos == strobeR {
			s.runF()
		}
	}
}

func (s *Strobe) squeeze(data []byte) {
	for i := range data {
		data[i] = s.st[s.pos]
		s.st[s.pos] = 0
		s.pos++
		if s.pos == strobeR {
			s.runF()
		}
	}
}

func (s *Strobe) beginOp(flags byte, more bool) {
	if more {
		if s.curFlags != flags {
			panic("ref strobe: more with different flags")
		}
		return
	}
	old := s.posBegin
	s.posBegin = s.pos + 1
	s.curFlags = flags
	s.absorb([]byte{old, flags})
	if flags&(flagC|flagK) != 0 && s.pos != 0 {
		s.runF()
	}
}

func (s *Strobe) MetaAD(d []byte, more bool) { s.beginOp(flagM|flagA, more); s.absorb(d) }
func (s *Strobe) AD(d []byte, more bool)     { s.beginOp(flagA, more); s.absorb(d) }
func (s *Strobe) PRF(d []byte)               { s.beginOp(flagI|flagA|flagC, false); s.squeeze(d) }
func (s *Strobe) KEY(d []byte)               { s.beginOp(flagA|flagC, false); s.overwrite(d) }

// Transcript is a reference Merlin v1.0 transcript.
type Transcript struct{ s *Strobe }

func le32(n int) []byte { var b [4]byte; binary.LittleEndian.PutUint32(b[:], uint32(n)); return b[:] }

func NewTranscript(label []byte) *Transcript {
	t := &Transcript{NewStrobe([]byte("Merlin v1.0"))}
	t.Append([]byte("dom-sep"), label)
	return t
}
func (t *Transcript) Clone() *Transcript { return &Transcript{t.s.Clone()} }
func (t *Transcript) Append(label, msg []byte) {
	t.s.MetaAD(label, false)
	t.s.MetaAD(le32(len(msg)), true)
	t.s.AD(msg, false)
}
func (t *Transcript) Challenge(label []byte, n int) []byte {
	out := make([]byte, n)
	t.s.MetaAD(label, false)
	t.s.MetaAD(le32(n), true)
	t.s.PRF(out)
	return out
}

type RngBuilder struct{ s *Strobe }
type Rng struct{ s *Strobe }

func (t *Transcript) BuildRng() *RngBuilder { return &RngBuilder{t.s.Clone()} }
func (b *RngBuilder) Rekey(label, witness []byte) *RngBuilder {
	b.s.MetaAD(label, false)
	b.s.MetaAD(le32(len(witness)), true)
	b.s.KEY(witness)
	return b
}
func (b *RngBuilder) Finalize(random32 []byte) *Rng {
	b.s.MetaAD([]byte("rng"), false)
	b.s.KEY(random32)
	return &Rng{b.s}
}
func (r *Rng) Fill(n int) []byte {
	out := make([]byte, n)
	r.s.MetaAD(le32(n), false)
	r.s.PRF(out)
	return out
}

// Pos returns the duplex position (for coverage evidence and steering).
func (s *Strobe) Pos() int      { return int(s.pos) }
func (t *Transcript) Pos() int  { return t.s.Pos() }
func (b *RngBuilder) Pos() int  { return b.s.Pos() }
func (r *Rng) Pos() int         { return r.s.Pos() }
func KeccakBytes(st *[200]byte) { keccakBytes(st) }
