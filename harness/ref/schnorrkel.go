package ref

import (
	"crypto/sha512"
	"math/big"
)

type SrSecret struct {
	Key   *big.Int
	Nonce []byte
}

func SrExpandUniform(msk []byte) SrSecret {
	t := NewTranscript([]byte("ExpandSecretKeys"))
	t.Append([]byte("mini"), msk)
	k := new(big.Int).Mod(FromLE(t.Challenge([]byte("sk"), 64)), L)
	return SrSecret{k, t.Challenge([]byte("no"), 32)}
}

func SrExpandEd25519(msk []byte) SrSecret {
	h := sha512.Sum512(msk)
	h[0] &= 248
	h[31] &= 63
	h[31] |= 64
	k := FromLE(h[:32])
	k.Rsh(k, 3)
	return SrSecret{k, append([]byte{}, h[32:]...)}
}

func (s SrSecret) Public() []byte { return RistrettoEncode(B.Mul(new(big.Int).Mod(s.Key, L))) }

func SrTranscriptBytes(ctx, msg []byte) *Transcript {
	t := NewTranscript([]byte("SigningContext"))
	t.Append(nil, ctx)
	t.Append([]byte("sign-bytes"), msg)
	return t
}

func (s SrSecret) Sign(t *Transcript, entropy32 []byte) []byte {
	t = t.Clone()
	pk := s.Public()
	t.Append([]byte("proto-name"), []byte("Schnorr-sig"))
	t.Append([]byte("sign:pk"), pk)
	rng := t.BuildRng().Rekey([]byte("signing"), s.Nonce).Finalize(entropy32)
	r := new(big.Int).Mod(FromLE(rng.Fill(64)), L)
	R := RistrettoEncode(B.Mul(r))
	t.Append([]byte("sign:R"), R)
	k := new(big.Int).Mod(FromLE(t.Challenge([]byte("sign:c"), 64)), L)
	sc := new(big.Int).Mod(new(big.Int).Add(new(big.Int).Mul(k, s.Key), r), L)
	sig := append(append([]byte{}, R...), LE32(sc)...)
	sig[63] |= 128
	return sig
}

func SrVerify(pk []byte, t *Transcript, sig []byte) bool {
	if len(sig) != 64 || sig[63]&128 == 0 {
		return false
	}
	A, ok := RistrettoDecode(pk)
	if !ok {
		return false
	}
	sb := append([]byte{}, sig[32:]...)
	sb[31] &= 127
	s := FromLE(sb)
	if s.Cmp(L) >= 0 {
		return false
	}
	R, ok := RistrettoDecode(sig[:32])
	if !ok {
		return false
	}
	t = t.Clone()
	t.Append([]byte("proto-name"), []byte("Schnorr-sig"))
	t.Append([]byte("sign:pk"), pk)
	t.Append([]byte("sign:R"), sig[:32])
	k := new(big.Int).Mod(FromLE(t.Challenge([]byte("sign:c"), 64)), L)
	lhs := B.Mul(s).Add(A.Mul(k).Neg())
	return RistrettoEqual(lhs, R)
}

// SrTranscriptLabelled: signing context + one labelled message (sign-256 / sign-512 / sign-XoF prehashes).
func SrTranscriptLabelled(ctx []byte, label string, data []byte) *Transcript {
	t := NewTranscript([]byte("SigningContext"))
	t.Append(nil, ctx)
	t.Append([]byte(label), data)
	return t
}
