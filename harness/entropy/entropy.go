// Package entropy holds the APIs that consume randomness through a caller-supplied io.Reader. How the reader
// delivers its bytes (all at once, one byte per call, odd chunk sizes, the last chunk together with io.EOF) is not
// part of any contract: an API that consumes k bytes must behave as if it had read exactly the first k bytes of the
// stream. Each entry is run on the same byte string behind each reader behaviour; results must be identical to the
// result for a reader that fills every buffer at once (which the per-property oracles compare with the references).
package entropy

import (
	"bytes"
	"fmt"
	"io"
	"math/rand/v2"
	"sort"

	"github.com/oasisprotocol/curve25519-voi/curve"
	"github.com/oasisprotocol/curve25519-voi/curve/scalar"
	"github.com/oasisprotocol/curve25519-voi/primitives/ed25519"
	"github.com/oasisprotocol/curve25519-voi/primitives/ed25519/extra/ecvrf"
	"github.com/oasisprotocol/curve25519-voi/primitives/sr25519"
	"github.com/oasisprotocol/curve25519-voi/primitives/x25519"
	"github.com/oasisprotocol/curve25519-voi/zzverif/mon"
)

type api struct {
	prop string
	name string
	run  func(rd io.Reader) ([]byte, error)
}

func cat(parts ...[]byte) []byte { return bytes.Join(parts, nil) }
func bb(b bool) []byte {
	if b {
		return []byte{1}
	}
	return []byte{0}
}

func table() []api {
	seed := bytes.Repeat([]byte{0x33}, 32)
	priv := ed25519.NewKeyFromSeed(seed)
	pub := priv.Public().(ed25519.PublicKey)
	msg := []byte("entropy readers")
	sig := ed25519.Sign(priv, msg)
	msk, _ := sr25519.NewMiniSecretKeyFromBytes(seed)
	kp := msk.ExpandUniform().KeyPair()
	sctx := sr25519.NewSigningContext([]byte("ctx"))
	ssig, _ := kp.Sign(bytes.NewReader(make([]byte, 64)), sctx.NewTranscriptBytes(msg))
	return []api{
		{"C02", "ed25519.GenerateKey", func(rd io.Reader) ([]byte, error) {
			p, s, err := ed25519.GenerateKey(rd)
			return cat(p, s), err
		}},
		{"C02", "ed25519.PrivateKey.Sign(AddedRandomness)", func(rd io.Reader) ([]byte, error) {
			return priv.Sign(rd, msg, &ed25519.Options{AddedRandomness: true})
		}},
		{"C02", "ed25519.PrivateKey.Sign(AddedRandomness, ctx)", func(rd io.Reader) ([]byte, error) {
			return priv.Sign(rd, msg, &ed25519.Options{AddedRandomness: true, Context: "c"})
		}},
		{"C05", "Scalar.SetRandom", func(rd io.Reader) ([]byte, error) {
			s, err := scalar.New().SetRandom(rd)
			if err != nil {
				return nil, err
			}
			var o [32]byte
			s.ToBytes(o[:])
			return o[:], nil
		}},
		{"C07", "x25519.GenerateKey", func(rd io.Reader) ([]byte, error) {
			p, s, err := x25519.GenerateKey(rd)
			if err != nil {
				return nil, err
			}
			return cat(p[:], s[:]), nil
		}},
		{"C07", "x25519.GeneratePrivateKey", func(rd io.Reader) ([]byte, error) {
			s, err := x25519.GeneratePrivateKey(rd)
			if err != nil {
				return nil, err
			}
			return s[:], nil
		}},
		{"C09", "ed25519.BatchVerifier.Verify(valid batch)", func(rd io.Reader) ([]byte, error) {
			bv := ed25519.NewBatchVerifier()
			for i := 0; i < 3; i++ {
				bv.Add(pub, msg, sig)
			}
			ok, each := bv.Verify(rd)
			return cat(bb(ok), bb(each[0]), bb(each[2])), nil
		}},
		{"C09", "ed25519.BatchVerifier.VerifyBatchOnly(valid batch)", func(rd io.Reader) ([]byte, error) {
			bv := ed25519.NewBatchVerifier()
			for i := 0; i < 3; i++ {
				bv.Add(pub, msg, sig)
			}
			return bb(bv.VerifyBatchOnly(rd)), nil
		}},
		{"C11", "RistrettoPoint.SetRandom", func(rd io.Reader) ([]byte, error) {
			p, err := curve.NewRistrettoPoint().SetRandom(rd)
			if err != nil {
				return nil, err
			}
			return p.MarshalBinary()
		}},
		{"C12", "sr25519.GenerateMiniSecretKey", func(rd io.Reader) ([]byte, error) {
			k, err := sr25519.GenerateMiniSecretKey(rd)
			if err != nil {
				return nil, err
			}
			return k.MarshalBinary()
		}},
		{"C12", "sr25519.GenerateSecretKey", func(rd io.Reader) ([]byte, error) {
			k, err := sr25519.GenerateSecretKey(rd)
			if err != nil {
				return nil, err
			}
			return k.MarshalBinary()
		}},
		{"C12", "sr25519.GenerateKeyPair", func(rd io.Reader) ([]byte, error) {
			k, err := sr25519.GenerateKeyPair(rd)
			if err != nil {
				return nil, err
			}
			return k.MarshalBinary()
		}},
		{"C12", "sr25519.KeyPair.Sign", func(rd io.Reader) ([]byte, error) {
			s, err := kp.Sign(rd, sctx.NewTranscriptBytes(msg))
			if err != nil {
				return nil, err
			}
			return s.MarshalBinary()
		}},
		{"C12", "sr25519.BatchVerifier.Verify(valid batch)", func(rd io.Reader) ([]byte, error) {
			bv := sr25519.NewBatchVerifier()
			for i := 0; i < 3; i++ {
				bv.Add(kp.PublicKey(), sctx.NewTranscriptBytes(msg), ssig)
			}
			ok, each := bv.Verify(rd)
			return cat(bb(ok), bb(each[0])), nil
		}},
		{"C15", "ecvrf.ProveWithAddedRandomness", func(rd io.Reader) ([]byte, error) {
			return ecvrf.ProveWithAddedRandomness(rd, priv, msg)
		}},
		{"C15", "ecvrf.ProveWithAddedRandomness_v10", func(rd io.Reader) ([]byte, error) {
			return ecvrf.ProveWithAddedRandomness_v10(rd, priv, msg)
		}},
	}
}

// Check runs the entries of one property on a PRNG-chosen entropy string behind every reader behaviour. violate is
// called with (signature, description) for every disagreement.
func Check(r *mon.Run, prop string, rng *rand.Rand, violate func(sig, what string)) {
	stream := mon.Bytes(rng, 512)
	for _, a := range table() {
		if a.prop != prop {
			continue
		}
		var base []byte
		var baseErr error
		if pan, msg := mon.Try(func() { base, baseErr = a.run(bytes.NewReader(stream)) }); pan || baseErr != nil {
			violate("entropy-reader/"+a.name+"/full-reader", fmt.Sprintf("panic=%v %s err=%v", pan, msg, baseErr))
			continue
		}
		rds := mon.Readers(stream)
		var kinds []string
		for k := range rds {
			kinds = append(kinds, k)
		}
		sort.Strings(kinds)
		for _, k := range kinds {
			if k == "full" {
				continue
			}
			var got []byte
			var err error
			pan, msg := mon.Try(func() { got, err = a.run(rds[k]()) })
			r.Eval([]byte(a.name + k + string(stream[:8])))
			r.Hist("entropy-reader/" + a.name + "/" + k)
			if pan || err != nil || !bytes.Equal(got, base) {
				violate("entropy-reader/"+a.name+"/"+k, fmt.Sprintf("%s with a %s reader: panic=%v %s err=%v result %x.., with a reader that fills every buffer %x..", a.name, k, pan, msg, err, head(got), head(base)))
			}
		}
	}
}

func head(b []byte) []byte {
	if len(b) > 16 {
		return b[:16]
	}
	return b
}
