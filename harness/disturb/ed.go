// Package disturb holds operations whose outcome is an error, a rejection or a documented panic. The library must
// come out of each of them exactly as it went in: the monitors run one of them immediately before an operation whose
// result is decided by an oracle, on the same goroutine, so that anything a failed operation leaves behind (a pooled
// object returned dirty, a cached value, a half-updated table) is observed by the very next call.
package disturb

import (
	"bytes"
	"crypto"
	"errors"
	"io"

	"github.com/oasisprotocol/curve25519-voi/primitives/ed25519"
	"github.com/oasisprotocol/curve25519-voi/primitives/ed25519/extra/cache"
	"github.com/oasisprotocol/curve25519-voi/zzverif/mon"
)

type failing struct{ n int }

func (f *failing) Read(p []byte) (int, error) {
	if f.n <= 0 {
		return 0, errors.New("entropy failure")
	}
	k := len(p)
	if k > f.n {
		k = f.n
	}
	f.n -= k
	return k, nil
}

var (
	seed    = bytes.Repeat([]byte{0x42}, 32)
	priv    = ed25519.NewKeyFromSeed(seed)
	pub     = priv.Public().(ed25519.PublicKey)
	msg     = []byte("disturbance")
	ph      = bytes.Repeat([]byte{0x17}, 64)
	ctx     = "a context that must not outlive the call"
	goodSig = ed25519.Sign(priv, msg)
)

// NEd25519 is the number of distinct disturbances.
const NEd25519 = 14

// Ed25519 runs disturbance number sel%NEd25519 and returns its name.
func Ed25519(sel int) string {
	if sel < 0 {
		sel = -sel
	}
	name := ""
	mon.Try(func() {
		switch sel % NEd25519 {
		case 0:
			name = "Sign(ctx, AddedRandomness, entropy fails at once)"
			priv.Sign(&failing{0}, msg, &ed25519.Options{Context: ctx, AddedRandomness: true})
		case 1:
			name = "Sign(ph, AddedRandomness, entropy fails after 31 bytes)"
			priv.Sign(&failing{31}, ph, &ed25519.Options{Hash: crypto.SHA512, Context: ctx, AddedRandomness: true})
		case 2:
			name = "Sign(ph, message of the wrong length)"
			priv.Sign(nil, msg, &ed25519.Options{Hash: crypto.SHA512})
		case 3:
			name = "Sign(context too long)"
			priv.Sign(nil, msg, &ed25519.Options{Context: string(make([]byte, 256))})
		case 4:
			name = "Sign(private key of the wrong length; documented panic)"
			ed25519.PrivateKey(priv[:63]).Sign(nil, msg, &ed25519.Options{})
		case 5:
			name = "VerifyWithOptions(ctx, truncated signature)"
			ed25519.VerifyWithOptions(pub, msg, goodSig[:63], &ed25519.Options{Context: ctx})
		case 6:
			name = "VerifyWithOptions(ctx, undecodable key)"
			bad := bytes.Repeat([]byte{0xff}, 32)
			bad[0] = 0xfd
			bad[31] = 0x7f
			ed25519.VerifyWithOptions(bad, msg, goodSig, &ed25519.Options{Context: ctx})
		case 7:
			name = "VerifyWithOptions(ph, S >= L)"
			s := append([]byte{}, goodSig...)
			for i := 32; i < 64; i++ {
				s[i] = 0xff
			}
			ed25519.VerifyWithOptions(pub, ph, s, &ed25519.Options{Hash: crypto.SHA512, Context: ctx})
		case 8:
			name = "VerifyWithOptions(ctx, wrong message)"
			ed25519.VerifyWithOptions(pub, []byte("other"), goodSig, &ed25519.Options{Context: ctx})
		case 9:
			name = "NewExpandedPublicKey(undecodable key) + VerifyExpanded(zero value)"
			bad := bytes.Repeat([]byte{0xff}, 32)
			bad[0] = 0xfd
			bad[31] = 0x7f
			ed25519.NewExpandedPublicKey(bad)
			ed25519.VerifyExpanded(&ed25519.ExpandedPublicKey{}, msg, goodSig)
		case 10:
			name = "BatchVerifier with a forged entry, Verify, Reset"
			bv := ed25519.NewBatchVerifier()
			bv.AddWithOptions(pub, msg, goodSig, &ed25519.Options{Context: ctx})
			bv.Add(pub, msg, goodSig)
			bv.Add(pub[:31], msg, goodSig)
			bv.Verify(nil)
			bv.Reset()
		case 11:
			name = "BatchVerifier.VerifyBatchOnly with failing entropy"
			bv := ed25519.NewBatchVerifier()
			bv.Add(pub, msg, goodSig)
			bv.Add(pub, msg, goodSig)
			bv.VerifyBatchOnly(&failing{7})
		case 12:
			name = "cache.Verifier with an undecodable key and a truncated signature"
			v := cache.NewVerifier(cache.NewLRUCache(1))
			bad := bytes.Repeat([]byte{0xff}, 32)
			bad[0] = 0xfd
			bad[31] = 0x7f
			v.AddPublicKey(bad)
			v.VerifyWithOptions(bad, msg, goodSig, &ed25519.Options{Context: ctx})
			v.Verify(pub, msg, goodSig[:10])
		case 13:
			name = "GenerateKey with failing entropy"
			ed25519.GenerateKey(io.LimitReader(bytes.NewReader(seed), 5))
		}
	})
	return name
}
