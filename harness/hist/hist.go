// Package hist provides objects with a past. A value-semantic API must give the same answer whatever the receiver
// held before and whatever was done with it: decoded into, recoded, marshalled, used as the output of another routine,
// left behind by a failed decode. Fresh receivers (the only kind unit tests use) cannot observe a cache that is not
// invalidated or a field that is not reset; a small pool of long-lived objects that the monitors keep re-using as
// receivers, and whose values they overwrite through every mutator the API offers, can. The oracles do not change:
// every result is still compared with the reference, so a past can only matter if the library lets it.
//
// A Pool belongs to one goroutine. Objects handed out as receivers are never the drivers' input operands.
package hist

import (
	"math/rand/v2"

	"github.com/oasisprotocol/curve25519-voi/curve"
	"github.com/oasisprotocol/curve25519-voi/curve/scalar"
	"github.com/oasisprotocol/curve25519-voi/zzverif/mon"
)

type Pool struct {
	rng *rand.Rand
	es  []*curve.EdwardsPoint
	rs  []*curve.RistrettoPoint
	ss  []*scalar.Scalar
	ces []*curve.CompressedEdwardsY
	crs []*curve.CompressedRistretto
	ms  []*curve.MontgomeryPoint
	xes []*curve.ExpandedEdwardsPoint
	xrs []*curve.ExpandedRistrettoPoint
	// Uses counts receivers handed out.
	Uses int64
	cur  [6]int
}

// poolSize objects per type, handed out in a randomly skipping round robin: any window (= poolSize/2) of consecutive
// requests for one type returns distinct objects, so a driver may hold up to that many live receivers of a type.
const (
	poolSize = 12
	window   = poolSize / 2
)

func randScalar(rng *rand.Rand) *scalar.Scalar {
	s, _ := scalar.NewFromBytesModOrderWide(mon.Bytes(rng, 64))
	return s
}

// New builds a pool whose objects already have different pasts.
func New(rng *rand.Rand) *Pool {
	p := &Pool{rng: rng}
	B := curve.ED25519_BASEPOINT_POINT
	RB := curve.RISTRETTO_BASEPOINT_POINT
	for i := 0; i < poolSize; i++ {
		e := curve.NewEdwardsPoint()
		r := curve.NewRistrettoPoint()
		s := scalar.New()
		ce := curve.NewCompressedEdwardsY()
		cr := curve.NewCompressedRistretto()
		m := curve.NewMontgomeryPoint()
		k := randScalar(rng)
		mon.Try(func() {
			switch i % 6 {
			case 0: // decoded from bytes, then observed
				q := curve.NewEdwardsPoint().Mul(B, k)
				b, _ := q.MarshalBinary()
				e.UnmarshalBinary(b)
				e.MarshalBinary()
				e.IsTorsionFree()
				rq := curve.NewRistrettoPoint().Mul(RB, k)
				rb, _ := rq.MarshalBinary()
				r.UnmarshalBinary(rb)
				r.MarshalBinary()
				s.Set(k)
				s.NonAdjacentForm(5)
				s.ToRadix16()
				s.ToRadix2w(8)
				s.Bits()
				ce.SetEdwardsPoint(q)
				cr.SetRistrettoPoint(rq)
				m.SetEdwards(q)
			case 1: // left behind by a failed decode
				e.Mul(B, k)
				e.UnmarshalBinary([]byte{1, 2, 3})
				r.Mul(RB, k)
				r.UnmarshalBinary(make([]byte, 31))
				s.Set(k)
				s.UnmarshalBinary([]byte{0xff})
				ce.UnmarshalBinary([]byte{9})
				cr.UnmarshalBinary([]byte{9})
				m.SetBytes([]byte{1})
			case 2: // output of the precomputed-point routines
				x := curve.NewExpandedEdwardsPoint(B)
				e.ExpandedDoubleScalarMulBasepointVartime(k, x, k)
				rx := curve.NewExpandedRistrettoPoint(RB)
				r.ExpandedDoubleScalarMulBasepointVartime(k, rx, k)
				s.Mul(k, k)
				s.NonAdjacentForm(8)
				ce.SetEdwardsPoint(e)
				cr.SetRistrettoPoint(r)
			case 3: // decoded through the compressed types, selected into
				q := curve.NewEdwardsPoint().Mul(B, k)
				var c curve.CompressedEdwardsY
				c.SetEdwardsPoint(q)
				e.SetCompressedY(&c)
				e.ConditionalSelect(e, B, 1)
				rq := curve.NewRistrettoPoint().Mul(RB, k)
				var c2 curve.CompressedRistretto
				c2.SetRistrettoPoint(rq)
				r.SetCompressed(&c2)
				r.MarshalBinary()
				r.ConditionalSelect(r, RB, 1)
				s.ConditionalSelect(k, scalar.One(), 1)
				s.ToRadix2w(6)
				ce.SetBytes(c[:])
				cr.SetBytes(c2[:])
			case 4: // multiscalar output, uniform-bytes output, recoded non-canonical scalar
				e.MultiscalarMulVartime([]*scalar.Scalar{k, k}, []*curve.EdwardsPoint{B, B})
				r.SetUniformBytes(mon.Bytes(rng, 64))
				r.MarshalBinary()
				s.SetBits(mon.Bytes(rng, 32))
				s.NonAdjacentForm(6)
				s.ToRadix2w(7)
				s.IsCanonical()
			default: // fresh
			}
		})
		p.es = append(p.es, e)
		p.rs = append(p.rs, r)
		p.ss = append(p.ss, s)
		p.ces = append(p.ces, ce)
		p.crs = append(p.crs, cr)
		p.ms = append(p.ms, m)
	}
	return p
}

func (p *Pool) pick(kind int) int {
	p.Uses++
	p.cur[kind] = (p.cur[kind] + 1 + p.rng.IntN(2)) % poolSize
	return p.cur[kind]
}

// E, R, S, CE, CR, M return a pooled object for use as an output receiver (or as the object a value is written
// into). The caller may do anything with it; it stays in the pool with whatever it then holds.
func (p *Pool) E() *curve.EdwardsPoint {
	i := p.pick(0)
	if p.rng.IntN(5) == 0 {
		p.es[i] = curve.NewEdwardsPoint() // now and then a fresh object joins the pool
	}
	return p.es[i]
}
func (p *Pool) R() *curve.RistrettoPoint {
	i := p.pick(1)
	if p.rng.IntN(5) == 0 {
		p.rs[i] = curve.NewRistrettoPoint()
	}
	return p.rs[i]
}
func (p *Pool) S() *scalar.Scalar {
	i := p.pick(2)
	if p.rng.IntN(5) == 0 {
		p.ss[i] = scalar.New()
	}
	return p.ss[i]
}
func (p *Pool) CE() *curve.CompressedEdwardsY  { return p.ces[p.pick(3)] }
func (p *Pool) CR() *curve.CompressedRistretto { return p.crs[p.pick(4)] }
func (p *Pool) M() *curve.MontgomeryPoint      { return p.ms[p.pick(5)] }

// SVal returns a pooled scalar object made to hold exactly the 255-bit value v (32 bytes, top bit clear), written
// through a randomly chosen mutator of the API. The object is exclusively the caller's until the next SVal/S call
// (take a copy with scalar.New().Set if two live values are needed: use SVal2).
func (p *Pool) SVal(v []byte) *scalar.Scalar {
	return p.sval(p.S(), v)
}

// SVal2 returns two distinct pooled objects holding a and b.
func (p *Pool) SVal2(a, b []byte) (*scalar.Scalar, *scalar.Scalar) {
	return p.sval(p.S(), a), p.sval(p.S(), b)
}

func (p *Pool) sval(s *scalar.Scalar, v []byte) *scalar.Scalar {
	t, err := scalar.New().SetBits(v)
	if err != nil {
		mon.Fatalf("hist.SVal: %v", err)
	}
	canonical := t.IsCanonical()
	other := scalar.NewFromUint64(p.rng.Uint64())
	n := 4
	if canonical {
		n = 9
	}
	// the state the object is in immediately before it receives v: two times in three it has just been given a small
	// value through one of the dedicated setters (a constant, a 64-bit integer, a copy of such an object) - whatever an
	// implementation remembers about "small" scalars must not survive the mutator that follows
	switch p.rng.IntN(8) {
	case 0:
		s.SetUint64(p.rng.Uint64())
	case 1:
		s.SetUint64(uint64(p.rng.IntN(256)))
	case 2:
		s.One()
	case 3:
		s.Zero()
	case 4:
		s.Set(other)
	case 5:
		s.Set(scalar.One())
	}
	switch p.rng.IntN(n) {
	case 0:
		s.SetBits(v)
	case 1:
		s.Set(t)
	case 2:
		s.ConditionalSelect(other, t, 1)
	case 3:
		s.ConditionalSelect(t, other, 0)
	case 4:
		s.SetCanonicalBytes(v)
	case 5:
		s.UnmarshalBinary(v)
	case 6:
		s.SetBytesModOrder(v)
	case 7:
		s.Add(t, scalar.New())
	case 8:
		s.Mul(t, scalar.One())
	}
	return s
}

// EVal returns a pooled Edwards point object made to hold the same value and coordinates as q.
func (p *Pool) EVal(q *curve.EdwardsPoint) *curve.EdwardsPoint {
	e := p.E()
	switch p.rng.IntN(3) {
	case 0:
		e.Set(q)
	case 1:
		e.ConditionalSelect(curve.ED25519_BASEPOINT_POINT, q, 1)
	case 2:
		e.ConditionalSelect(q, curve.ED25519_BASEPOINT_POINT, 0)
	}
	return e
}

// RVal is EVal for Ristretto points.
func (p *Pool) RVal(q *curve.RistrettoPoint) *curve.RistrettoPoint {
	e := p.R()
	switch p.rng.IntN(3) {
	case 0:
		e.Set(q)
	case 1:
		e.ConditionalSelect(curve.RISTRETTO_BASEPOINT_POINT, q, 1)
	case 2:
		e.ConditionalSelect(q, curve.RISTRETTO_BASEPOINT_POINT, 0)
	}
	return e
}

// XE returns an expanded point for q whose object previously was the expansion of another point, of which a value
// copy is still alive (and is returned as well, together with the point it must still stand for).
func (p *Pool) XE(q *curve.EdwardsPoint) (x *curve.ExpandedEdwardsPoint, oldCopy *curve.ExpandedEdwardsPoint, oldPoint *curve.EdwardsPoint) {
	oldPoint = curve.NewEdwardsPoint().Mul(curve.ED25519_BASEPOINT_POINT, randScalar(p.rng))
	x = curve.NewExpandedEdwardsPoint(oldPoint)
	cp := *x
	x.SetEdwardsPoint(q)
	p.Uses++
	return x, &cp, oldPoint
}

// XR is XE for Ristretto points.
func (p *Pool) XR(q *curve.RistrettoPoint) (x *curve.ExpandedRistrettoPoint, oldCopy *curve.ExpandedRistrettoPoint, oldPoint *curve.RistrettoPoint) {
	oldPoint = curve.NewRistrettoPoint().Mul(curve.RISTRETTO_BASEPOINT_POINT, randScalar(p.rng))
	x = curve.NewExpandedRistrettoPoint(oldPoint)
	cp := *x
	x.SetRistrettoPoint(q)
	p.Uses++
	return x, &cp, oldPoint
}
