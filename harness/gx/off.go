//go:build !verif

// Package gx wraps the curve graft for drivers (variant without the graft: API-level only).
package gx

import (
	"math/rand/v2"

	"github.com/oasisprotocol/curve25519-voi/curve"
)

const Available = false

func Rescale(p *curve.EdwardsPoint, rng *rand.Rand) *curve.EdwardsPoint { return p }
func RescaleKind(p *curve.EdwardsPoint, rng *rand.Rand, kind int) *curve.EdwardsPoint {
	return p
}
func RistrettoFromEdwards(p *curve.EdwardsPoint) *curve.RistrettoPoint { return nil }
func EdwardsFromRistretto(p *curve.RistrettoPoint) *curve.EdwardsPoint { return nil }

func Coherent(p *curve.EdwardsPoint) string { return "" }
