package gx

import "math/bits"

func mul64(a, b uint64) (hi, lo uint64) { return bits.Mul64(a, b) }

func div128(hi, lo, d uint64) (q, r uint64) {
	if hi >= d {
		// quotient does not fit: callers clamp
		return ^uint64(0), 0
	}
	return bits.Div64(hi, lo, d)
}
