//go:build verif

// Package gx wraps the curve graft for drivers (variant with the graft compiled in).
package gx

import (
	"math/rand/v2"

	"github.com/oasisprotocol/curve25519-voi/curve"
	"github.com/oasisprotocol/curve25519-voi/internal/field"
	"github.com/oasisprotocol/curve25519-voi/zzverif/mon"
)

const Available = true

// Lambda draws a non-zero scaling factor; kind 0 means "leave as is".
func lambda(rng *rand.Rand, kind int) (field.Element, bool) {
	var lam field.Element
	switch kind {
	case 0:
		return lam, false
	case 1:
		lam.One()
		lam.Add(&lam, &lam)
	case 2:
		lam.MinusOne()
	case 3:
		lam.MinusOne()
		lam.Add(&lam, &lam)
	default:
		if _, err := lam.SetBytes(mon.Bytes(rng, 32)); err != nil || lam.IsZero() == 1 {
			lam.One()
		}
	}
	return lam, true
}

// Rescale returns the same point in another projective representation (X,Y,Z,T) -> (lX,lY,lZ,lT).
func Rescale(p *curve.EdwardsPoint, rng *rand.Rand) *curve.EdwardsPoint {
	return RescaleKind(p, rng, rng.IntN(5))
}

func RescaleKind(p *curve.EdwardsPoint, rng *rand.Rand, kind int) *curve.EdwardsPoint {
	lam, ok := lambda(rng, kind)
	if !ok {
		return p
	}
	X, Y, Z, T := curve.VerifCoords(p)
	var x, y, z, t field.Element
	x.Mul(X, &lam)
	y.Mul(Y, &lam)
	z.Mul(Z, &lam)
	t.Mul(T, &lam)
	return curve.VerifFromCoords(&x, &y, &z, &t)
}

func RistrettoFromEdwards(p *curve.EdwardsPoint) *curve.RistrettoPoint {
	return curve.VerifRistrettoFromEdwards(p)
}

func EdwardsFromRistretto(p *curve.RistrettoPoint) *curve.EdwardsPoint {
	return curve.VerifEdwardsFromRistretto(p)
}

// FieldBackend names the limb backend of internal/field in this build.
func FieldBackend() string { return field.VerifBackend }

// WordBoundary121666 builds raw limbs (all below lim) for which the partial products limb*121666 end just
// below a 64-bit word boundary while neighbouring limbs produce large carries (u64 backend).
func WordBoundary121666(rng *rand.Rand, lim uint64) []uint64 {
	n := len(field.VerifLimbWeights())
	l := make([]uint64, n)
	mmax := mulHi(lim-1, 121666)
	for i := range l {
		if rng.IntN(3) == 0 || mmax == 0 {
			l[i] = lim - 1 - uint64(rng.IntN(1000))
			continue
		}
		m := 1 + rng.Uint64N(mmax)
		// a = floor((m*2^64 - 1 - d) / 121666)
		d := uint64(rng.IntN(120000))
		hi, lo := m-1, ^uint64(0)-d // m*2^64 - 1 - d
		q, _ := div128(hi, lo, 121666)
		if q >= lim {
			q = lim - 1
		}
		l[i] = q
	}
	return l
}

func mulHi(a, b uint64) uint64 {
	hi, _ := mul64(a, b)
	return hi
}

// FieldFromLimbs / FieldLimbs expose raw limb access.
func FieldFromLimbs(l []uint64) field.Element { return field.VerifFromLimbs(l) }
func FieldLimbs(fe *field.Element) []uint64   { return field.VerifLimbs(fe) }
func FieldLimbWeights() []uint                { return field.VerifLimbWeights() }

// Coherent checks the extended-coordinate invariants of a point object on raw coordinates: Z != 0, T*Z == X*Y and
// the curve equation (-X^2 + Y^2)Z^2 == Z^4 + d X^2 Y^2. Returns "" when they hold.
func Coherent(p *curve.EdwardsPoint) string {
	X, Y, Z, T := curve.VerifCoords(p)
	var a, b field.Element
	if Z.IsZero() == 1 {
		return "Z == 0"
	}
	a.Mul(T, Z)
	b.Mul(X, Y)
	if a.Equal(&b) != 1 {
		return "extended coordinate T is not X*Y/Z"
	}
	var xx, yy, zz, lhs, rhs, d field.Element
	xx.Square(X)
	yy.Square(Y)
	zz.Square(Z)
	lhs.Sub(&yy, &xx)
	lhs.Mul(&lhs, &zz)
	d.Set(curve.VerifFieldConstants()["EDWARDS_D"])
	rhs.Mul(&xx, &yy)
	rhs.Mul(&rhs, &d)
	zz.Square(&zz)
	rhs.Add(&rhs, &zz)
	if lhs.Equal(&rhs) != 1 {
		return "coordinates are not on the curve"
	}
	return ""
}
