// Package corpus holds fixed input lists that were found by search (tools/grind) because uniformly random generation
// never produces them: Ed25519 (key, nonce, message) triples whose challenge scalar k = SHA-512(R||A||M) mod L makes
// Pornin's lattice reduction take a shift s >= 32 (a 64-bit limb shift of the norms, probability ~2^-25 per message),
// or is unusually small / close to L (~2^-24). Everything is recomputed from the seeds with Go's standard library and
// math/big; a corpus entry that no longer has the recorded k is a harness error.
package corpus

import (
	"bufio"
	"bytes"
	stded "crypto/ed25519"
	"crypto/sha512"
	_ "embed"
	"encoding/hex"
	"encoding/json"
	"math/big"

	"github.com/oasisprotocol/curve25519-voi/zzverif/mon"
	"github.com/oasisprotocol/curve25519-voi/zzverif/ref"
)

//go:embed ground_k.jsonl
var groundK []byte

type GroundK struct {
	SeedA   string `json:"seed_a"`
	SeedR   string `json:"seed_r"`
	Msg     string `json:"msg"`
	Feature string `json:"feature"`
	K       string `json:"k_le"`
	MaxS    int    `json:"pornin_max_shift"`
	NuBits  int    `json:"pornin_nu_bits_at_max_shift"`
}

// Class is a short label for histograms.
func (g GroundK) Class() string {
	switch {
	case g.MaxS >= 32 && g.NuBits >= 384:
		return "lattice-shift>=32/512-bit-pass"
	case g.MaxS >= 32:
		return "lattice-shift>=32/384-bit-pass"
	case g.Feature[:5] == "small":
		return "small-k"
	}
	return "k-near-L"
}

func clampHalf(seed []byte) *big.Int {
	h := sha512.Sum512(seed)
	h[0] &= 248
	h[31] &= 127
	h[31] |= 64
	return ref.FromLE(h[:32])
}

// Signature returns the public key A, the message and the valid signature (R, r + k*a mod L) of the entry, with
// R = [r]B taken from the nonce seed. Only crypto/ed25519 (for the two base-point multiplications), SHA-512 and
// math/big are used.
func (g GroundK) Signature() (pk, msg, sig []byte) {
	sa, _ := hex.DecodeString(g.SeedA)
	sr, _ := hex.DecodeString(g.SeedR)
	A := []byte(stded.NewKeyFromSeed(sa).Public().(stded.PublicKey))
	R := []byte(stded.NewKeyFromSeed(sr).Public().(stded.PublicKey))
	msg = []byte(g.Msg)
	h := sha512.New()
	h.Write(R)
	h.Write(A)
	h.Write(msg)
	k := new(big.Int).Mod(ref.FromLE(h.Sum(nil)), ref.L)
	if hex.EncodeToString(ref.LE32(k)) != g.K {
		mon.Fatalf("corpus entry %q: recomputed challenge scalar differs from the recorded one", g.Msg)
	}
	s := new(big.Int).Mul(k, clampHalf(sa))
	s.Add(s, clampHalf(sr))
	s.Mod(s, ref.L)
	sig = append(append([]byte{}, R...), ref.LE32(s)...)
	if !stded.Verify(stded.PublicKey(A), msg, sig) {
		mon.Fatalf("corpus entry %q: crypto/ed25519 rejects the constructed signature", g.Msg)
	}
	return A, msg, sig
}

// GroundKs returns the embedded corpus.
func GroundKs() []GroundK {
	var out []GroundK
	sc := bufio.NewScanner(bytes.NewReader(groundK))
	for sc.Scan() {
		var g GroundK
		if err := json.Unmarshal(sc.Bytes(), &g); err != nil {
			mon.Fatalf("corpus: %v", err)
		}
		out = append(out, g)
	}
	return out
}
