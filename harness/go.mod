module github.com/oasisprotocol/curve25519-voi/zzverif

go 1.23

require (
	github.com/anishathalye/porcupine v1.3.0
	github.com/oasisprotocol/curve25519-voi v0.0.0
	golang.org/x/crypto v0.0.0-20220321153916-2c7772ba3064
)

require golang.org/x/sys v0.0.0-20220325203850-36772127a21f // indirect

replace github.com/oasisprotocol/curve25519-voi => ../voi
