// Package fluent is a contract monitor for the library's "sets the receiver and returns it" methods: every exported
// method of the arithmetic types whose first result has the receiver's own pointer type is called (arguments built from
// their types) and must hand back its receiver - not one of its operands, not a fresh or shared object - or nil when it
// also reports an error. A caller who continues a computation through the returned pointer otherwise writes into an
// operand (or a constant) and leaves the receiver stale, while every value-level comparison still passes.
package fluent

import (
	"bytes"
	"fmt"
	"io"
	"reflect"
	"strings"

	"github.com/oasisprotocol/curve25519-voi/curve"
	"github.com/oasisprotocol/curve25519-voi/curve/scalar"
	"github.com/oasisprotocol/curve25519-voi/internal/field"
	"github.com/oasisprotocol/curve25519-voi/zzverif/mon"
)

var readerType = reflect.TypeOf((*io.Reader)(nil)).Elem()

func renc() []byte {
	b, _ := curve.RISTRETTO_BASEPOINT_POINT.MarshalBinary()
	return b
}

// build returns a valid object of type t (a pointer type of the library, a slice of those, bytes, an integer, a reader).
func build(t reflect.Type, method string, recv reflect.Type, salt int) (reflect.Value, bool) {
	switch t {
	case reflect.TypeOf((*field.Element)(nil)):
		var fe field.Element
		b := make([]byte, 32)
		b[0] = byte(9 + salt)
		fe.SetBytes(b)
		return reflect.ValueOf(&fe), true
	case reflect.TypeOf((*scalar.Scalar)(nil)):
		return reflect.ValueOf(scalar.NewFromUint64(uint64(5 + salt))), true
	case reflect.TypeOf((*curve.EdwardsPoint)(nil)):
		return reflect.ValueOf(curve.NewEdwardsPoint().Mul(curve.ED25519_BASEPOINT_POINT, scalar.NewFromUint64(uint64(3+salt)))), true
	case reflect.TypeOf((*curve.RistrettoPoint)(nil)):
		return reflect.ValueOf(curve.NewRistrettoPoint().Mul(curve.RISTRETTO_BASEPOINT_POINT, scalar.NewFromUint64(uint64(3+salt)))), true
	case reflect.TypeOf((*curve.MontgomeryPoint)(nil)):
		m := *curve.X25519_BASEPOINT
		return reflect.ValueOf(&m), true
	case reflect.TypeOf((*curve.CompressedEdwardsY)(nil)):
		c := *curve.ED25519_BASEPOINT_COMPRESSED
		return reflect.ValueOf(&c), true
	case reflect.TypeOf((*curve.CompressedRistretto)(nil)):
		c := *curve.RISTRETTO_BASEPOINT_COMPRESSED
		return reflect.ValueOf(&c), true
	case reflect.TypeOf((*curve.EdwardsBasepointTable)(nil)):
		return reflect.ValueOf(curve.ED25519_BASEPOINT_TABLE), true
	case reflect.TypeOf((*curve.RistrettoBasepointTable)(nil)):
		return reflect.ValueOf(curve.RISTRETTO_BASEPOINT_TABLE), true
	case reflect.TypeOf((*curve.ExpandedEdwardsPoint)(nil)):
		return reflect.ValueOf(curve.NewExpandedEdwardsPoint(curve.ED25519_BASEPOINT_POINT)), true
	case reflect.TypeOf((*curve.ExpandedRistrettoPoint)(nil)):
		return reflect.ValueOf(curve.NewExpandedRistrettoPoint(curve.RISTRETTO_BASEPOINT_POINT)), true
	}
	switch t.Kind() {
	case reflect.Slice:
		if t.Elem().Kind() == reflect.Uint8 {
			n := 32
			if strings.Contains(method, "Wide") || strings.Contains(method, "Uniform") {
				n = 64
			}
			b := make([]byte, n)
			switch recv {
			case reflect.TypeOf((*curve.EdwardsPoint)(nil)), reflect.TypeOf((*curve.CompressedEdwardsY)(nil)):
				copy(b, curve.ED25519_BASEPOINT_COMPRESSED[:])
			case reflect.TypeOf((*curve.RistrettoPoint)(nil)), reflect.TypeOf((*curve.CompressedRistretto)(nil)):
				if n == 32 {
					copy(b, renc())
				}
			default:
				b[0] = 9
			}
			return reflect.ValueOf(b), true
		}
		s := reflect.MakeSlice(t, 0, 2)
		for i := 0; i < 2; i++ {
			e, ok := build(t.Elem(), method, recv, salt+1+i)
			if !ok {
				return reflect.Value{}, false
			}
			s = reflect.Append(s, e)
		}
		return s, true
	case reflect.Int, reflect.Int8, reflect.Int32, reflect.Int64, reflect.Uint, reflect.Uint8, reflect.Uint32, reflect.Uint64:
		return reflect.ValueOf(1).Convert(t), true
	case reflect.Interface:
		if t == readerType {
			return reflect.ValueOf(bytes.NewReader(bytes.Repeat([]byte{0x5a}, 128))).Convert(t), true
		}
	}
	return reflect.Value{}, false
}

// Check runs the contract over every method of the given pointer types (pass nil pointers: (*field.Element)(nil) ...).
func Check(r *mon.Run, c any, types ...any) {
	for _, tv := range types {
		T := reflect.TypeOf(tv)
		for i := 0; i < T.NumMethod(); i++ {
			m := T.Method(i)
			mt := m.Type
			if mt.NumOut() == 0 || mt.Out(0) != T || mt.IsVariadic() {
				continue
			}
			name := strings.TrimPrefix(T.String(), "*") + "." + m.Name
			recv, _ := build(T, m.Name, T, 40)
			args := []reflect.Value{recv}
			ok := true
			for a := 1; a < mt.NumIn(); a++ {
				v, can := build(mt.In(a), m.Name, T, a)
				if !can {
					ok = false
					break
				}
				args = append(args, v)
			}
			if !ok {
				r.Hist("fluent/skipped(argument type)/" + name)
				continue
			}
			var out []reflect.Value
			pan, _ := mon.Try(func() { out = m.Func.Call(args) })
			r.Eval([]byte("fluent|" + name))
			r.Hist("fluent/method-called")
			if pan || len(out) == 0 || out[0].IsNil() {
				continue // a documented panic or an error result: nothing is returned to continue with
			}
			if out[0].Pointer() == recv.Pointer() {
				continue
			}
			what := "another object"
			for a := 1; a < len(args); a++ {
				if args[a].Kind() == reflect.Ptr && args[a].Pointer() == out[0].Pointer() {
					what = fmt.Sprintf("its operand #%d", a)
				}
			}
			r.Violate("fluent/"+name+"/returns-not-the-receiver", fmt.Sprintf("%s is documented to set and return its receiver; it returned %s (a computation continued through the returned pointer lands there and the receiver stays stale)", name, what), c)
		}
	}
}
