//go:build !verif

package ctops

func graftInit() {}

var graftOps = map[string]func(){}
