// Package ctops holds the constant-time operation table shared by the two C08 monitors: every entry maps a
// 64-byte secret (Cur) to a run of one library operation with fixed public parameters.
package ctops

import (
	"bytes"
	"crypto"
	"crypto/sha256"
	"crypto/sha512"
	"crypto/subtle"
	"encoding/hex"
	"sort"

	"github.com/oasisprotocol/curve25519-voi/curve"
	"github.com/oasisprotocol/curve25519-voi/curve/scalar"
	"github.com/oasisprotocol/curve25519-voi/internal/field"
	"github.com/oasisprotocol/curve25519-voi/primitives/ed25519"
	"github.com/oasisprotocol/curve25519-voi/primitives/ed25519/extra/ecvrf"
	"github.com/oasisprotocol/curve25519-voi/primitives/sr25519"
	"github.com/oasisprotocol/curve25519-voi/primitives/x25519"
)

var (
	Cur         [64]byte // the secret of this child
	Out         [128]byte
	pts         []*curve.EdwardsPoint
	rpts        []*curve.RistrettoPoint
	many        []*curve.EdwardsPoint
	pubU        [32]byte
	tbl         [256]byte
	otherPriv   ed25519.PrivateKey
	srCtx       *sr25519.SigningContext
	customTable *curve.EdwardsBasepointTable
	sinkBool    [4]bool
)

// secretReader delivers the current secret (64 bytes) and then a fixed filler; its own control flow depends only on
// how much has been read.
type secretReader struct{ off int }

func (r *secretReader) Read(p []byte) (int, error) {
	for i := range p {
		if r.off < len(Cur) {
			p[i] = Cur[r.off]
		} else {
			p[i] = 0x42
		}
		r.off++
	}
	return len(p), nil
}

var seedFixed = [32]byte{1, 2, 3, 4, 5, 6, 7, 8, 9}

type fixedReader struct{}

func (fixedReader) Read(p []byte) (int, error) {
	for i := range p {
		p[i] = 0x42
	}
	return len(p), nil
}

func sc(b []byte) *scalar.Scalar { s, _ := scalar.NewFromBits(b); return s }
func put(b []byte)               { copy(Out[:], b) }
func putE(p *curve.EdwardsPoint) { b, _ := p.MarshalBinary(); copy(Out[:], b) }
func fe(b []byte) *field.Element { var f field.Element; f.SetBytes(b); return &f }

var msgHello = []byte("hello world")
var hHello = sha512.Sum512(msgHello)

// scalars derives the n secret scalars of one multi-secret call from the current secret. The secrets of one call also
// stand in a RELATION to each other that is itself secret and that differs from secret to secret (chosen by a hash of
// the secret): unrelated; all equal; the first two equal (neighbours); the second the negative of the first; the
// first and the last equal (not neighbours). Code that compares, merges or sorts its secret inputs shows here.
func scalars(n int) []*scalar.Scalar {
	var ss []*scalar.Scalar
	h := Cur
	rel := int32(sha512.Sum512(append([]byte("relation"), Cur[:]...))[0] % 5)
	// the relation is a secret too: everything below is selected without branching on it (the harness itself runs
	// inside the observed region)
	for i := 0; i < n; i++ {
		d := sha512.Sum512(h[:])
		copy(h[:], d[:])
		fresh := sc(h[:32])
		if i == 0 { // public
			ss = append(ss, fresh)
			continue
		}
		same := scalar.New().Set(ss[0]) // a distinct object holding the same value
		neg := scalar.New().Neg(ss[0])
		second, last := 0, 0 // public
		if i == 1 {
			second = 1
		}
		if i == n-1 {
			last = 1
		}
		useSame := subtle.ConstantTimeEq(rel, 1) | subtle.ConstantTimeEq(rel, 2)&second | subtle.ConstantTimeEq(rel, 4)&last
		useNeg := subtle.ConstantTimeEq(rel, 3) & second
		v := scalar.New()
		v.ConditionalSelect(fresh, same, useSame)
		v.ConditionalSelect(v, neg, useNeg)
		ss = append(ss, v)
	}
	return ss
}

// Relation reports the relation scalars() uses for the current secret (for the evidence).
func Relation() int { return int(sha512.Sum512(append([]byte("relation"), Cur[:]...))[0] % 5) }

var Ops = map[string]func(){
	// Ed25519
	"ed25519.NewKeyFromSeed": func() { put(ed25519.NewKeyFromSeed(Cur[:32])) },
	"ed25519.Sign(pure)":     func() { put(ed25519.Sign(ed25519.NewKeyFromSeed(Cur[:32]), msgHello)) },
	"ed25519.Sign(ctx)": func() {
		s, _ := ed25519.NewKeyFromSeed(Cur[:32]).Sign(nil, msgHello, &ed25519.Options{Context: "ctx"})
		put(s)
	},
	"ed25519.Sign(ph)": func() {
		s, _ := ed25519.NewKeyFromSeed(Cur[:32]).Sign(nil, hHello[:], &ed25519.Options{Hash: crypto.SHA512})
		put(s)
	},
	"ed25519.Sign(added randomness)": func() {
		s, _ := ed25519.NewKeyFromSeed(Cur[:32]).Sign(fixedReader{}, msgHello, &ed25519.Options{Context: "ctx", AddedRandomness: true})
		put(s)
	},
	"ed25519.PrivateKey.Equal": func() {
		k := ed25519.PrivateKey(Cur[:64])
		sinkBool[0] = k.Equal(otherPriv) // stored, never branched on by the harness
	},
	// X25519
	"x25519.ScalarMult": func() {
		var dst, k [32]byte
		copy(k[:], Cur[:32])
		x25519.ScalarMult(&dst, &k, &pubU)
		put(dst[:])
	},
	"x25519.ScalarBaseMult": func() {
		var dst, k [32]byte
		copy(k[:], Cur[:32])
		x25519.ScalarBaseMult(&dst, &k)
		put(dst[:])
	},
	"x25519.X25519(Basepoint)": func() { b, _ := x25519.X25519(Cur[:32], x25519.Basepoint); put(b) },
	"x25519.X25519(point)":     func() { b, _ := x25519.X25519(Cur[:32], pubU[:]); put(b) },
	"x25519.EdPrivateKeyToX25519": func() {
		put(x25519.EdPrivateKeyToX25519(ed25519.PrivateKey(Cur[:64])))
	},
	"x25519.SharedSecret.IsZero": func() {
		var ss x25519.SharedSecret
		copy(ss[:], Cur[:32])
		sinkBool[0] = ss.IsZero()
	},
	"x25519.PrivateKey.DiffieHellman": func() {
		var k x25519.PrivateKey
		copy(k[:], Cur[:32])
		pub := x25519.PublicKey(pubU)
		ss := k.DiffieHellman(&pub)
		put(ss[:])
	},
	// curve
	"EdwardsPoint.Mul":          func() { putE(curve.NewEdwardsPoint().Mul(pts[1], sc(Cur[:32]))) },
	"EdwardsPoint.MulBasepoint": func() { putE(curve.NewEdwardsPoint().MulBasepoint(curve.ED25519_BASEPOINT_TABLE, sc(Cur[:32]))) },
	"EdwardsPoint.MultiscalarMul(n=1)": func() {
		putE(curve.NewEdwardsPoint().MultiscalarMul(scalars(1), pts[:1]))
	},
	"EdwardsPoint.MultiscalarMul(n=3)": func() {
		putE(curve.NewEdwardsPoint().MultiscalarMul(scalars(3), pts))
	},
	"EdwardsPoint.MultiscalarMul(n=190)": func() {
		putE(curve.NewEdwardsPoint().MultiscalarMul(scalars(190), many))
	},
	"EdwardsPoint.ConditionalSelect": func() {
		p := curve.NewEdwardsPoint()
		p.ConditionalSelect(pts[0], pts[1], int(Cur[0]&1))
		putE(p)
	},
	"EdwardsPoint.Equal(secret point)": func() {
		p := curve.NewEdwardsPoint().MulBasepoint(curve.ED25519_BASEPOINT_TABLE, sc(Cur[:32]))
		Out[0] = byte(p.Equal(pts[2]))
	},
	"CompressedEdwardsY.Equal": func() {
		var a, b curve.CompressedEdwardsY
		copy(a[:], Cur[:32])
		copy(b[:], Cur[32:])
		Out[0] = byte(a.Equal(&b))
	},
	"RistrettoPoint.Mul": func() {
		b, _ := curve.NewRistrettoPoint().Mul(rpts[0], sc(Cur[:32])).MarshalBinary()
		put(b)
	},
	"RistrettoPoint.MulBasepoint": func() {
		b, _ := curve.NewRistrettoPoint().MulBasepoint(curve.RISTRETTO_BASEPOINT_TABLE, sc(Cur[:32])).MarshalBinary()
		put(b)
	},
	"RistrettoPoint.Equal(secret point)": func() {
		p := curve.NewRistrettoPoint().MulBasepoint(curve.RISTRETTO_BASEPOINT_TABLE, sc(Cur[:32]))
		Out[0] = byte(p.Equal(rpts[0]))
	},
	"RistrettoPoint.MultiscalarMul(n=2)": func() {
		b, _ := curve.NewRistrettoPoint().MultiscalarMul(scalars(2), rpts).MarshalBinary()
		put(b)
	},
	"MontgomeryPoint.Mul": func() {
		var m, o curve.MontgomeryPoint
		copy(m[:], pubU[:])
		o.Mul(&m, sc(Cur[:32]))
		put(o[:])
	},
	// scalars
	"scalar.Add":    func() { scalar.New().Add(sc(Cur[:32]), sc(Cur[32:])).ToBytes(Out[:32]) },
	"scalar.Sub":    func() { scalar.New().Sub(sc(Cur[:32]), sc(Cur[32:])).ToBytes(Out[:32]) },
	"scalar.Mul":    func() { scalar.New().Mul(sc(Cur[:32]), sc(Cur[32:])).ToBytes(Out[:32]) },
	"scalar.Neg":    func() { scalar.New().Neg(sc(Cur[:32])).ToBytes(Out[:32]) },
	"scalar.Reduce": func() { scalar.New().Reduce(sc(Cur[:32])).ToBytes(Out[:32]) },
	"scalar.Invert": func() { scalar.New().Invert(sc(Cur[:32])).ToBytes(Out[:32]) },
	"scalar.BatchInvert": func() {
		ss := scalars(3)
		scalar.New().BatchInvert(ss).ToBytes(Out[:32])
	},
	"scalar.SetBytesModOrderWide": func() { s, _ := scalar.New().SetBytesModOrderWide(Cur[:64]); s.ToBytes(Out[:32]) },
	"scalar.SetBytesModOrder":     func() { s, _ := scalar.New().SetBytesModOrder(Cur[:32]); s.ToBytes(Out[:32]) },
	"scalar.Equal":                func() { Out[0] = byte(sc(Cur[:32]).Equal(sc(Cur[32:]))) },
	"scalar.ConditionalSelect": func() {
		s := scalar.New()
		s.ConditionalSelect(sc(Cur[:32]), sc(Cur[32:]), int(Cur[0]&1))
		s.ToBytes(Out[:32])
	},
	"scalar.ToRadix16+Bits": func() {
		s := sc(Cur[:32])
		r := s.ToRadix16()
		b := s.Bits()
		Out[0] = byte(r[5]) + b[77]
	},
	// field (the exported API of internal/field)
	"field.Mul":    func() { var o field.Element; o.Mul(fe(Cur[:32]), fe(Cur[32:])); o.ToBytes(Out[:32]) },
	"field.Square": func() { var o field.Element; o.Square(fe(Cur[:32])); o.ToBytes(Out[:32]) },
	"field.Invert": func() { var o field.Element; o.Invert(fe(Cur[:32])); o.ToBytes(Out[:32]) },
	"field.SqrtRatioI": func() {
		var o field.Element
		_, f := o.SqrtRatioI(fe(Cur[:32]), fe(Cur[32:]))
		o.ToBytes(Out[:32])
		Out[33] = byte(f)
	},
	"field.ToBytes": func() { fe(Cur[:32]).ToBytes(Out[:32]) },
	"field.predicates": func() {
		a, b := fe(Cur[:32]), fe(Cur[32:])
		Out[0] = byte(a.IsNegative()) | byte(a.IsZero())<<1 | byte(a.Equal(b))<<2
	},
	// the difference of two secrets: equal halves give the representation p (a "zero" that is not all-zero limbs)
	"field.Sub+ToBytes/IsZero": func() {
		var d field.Element
		d.Sub(fe(Cur[:32]), fe(Cur[32:]))
		d.ToBytes(Out[:32])
		Out[33] = byte(d.IsZero()) | byte(d.IsNegative())<<1
	},
	"field.Neg+Equal": func() {
		var n field.Element
		n.Neg(fe(Cur[:32]))
		Out[0] = byte(n.Equal(fe(Cur[32:])))
	},
	"field.ConditionalSelect/Swap/Negate": func() {
		a, b := fe(Cur[:32]), fe(Cur[32:])
		ch := int(Cur[0] & 1)
		var o field.Element
		o.ConditionalSelect(a, b, ch)
		a.ConditionalSwap(b, ch)
		b.ConditionalNegate(ch)
		o.ConditionalAssign(b, ch)
		o.ToBytes(Out[:32])
	},
	// sr25519
	"sr25519.ExpandUniform": func() {
		var msk sr25519.MiniSecretKey
		copy(msk[:], Cur[:32])
		b, _ := msk.ExpandUniform().MarshalBinary()
		put(b)
	},
	"sr25519.ExpandEd25519+PublicKey": func() {
		var msk sr25519.MiniSecretKey
		copy(msk[:], Cur[:32])
		b, _ := msk.ExpandEd25519().PublicKey().MarshalBinary()
		put(b)
	},
	"sr25519.KeyPair.Sign": func() {
		var msk sr25519.MiniSecretKey
		copy(msk[:], Cur[:32])
		kp := msk.ExpandUniform().KeyPair()
		sig, _ := kp.Sign(fixedReader{}, srCtx.NewTranscriptBytes(msgHello))
		b, _ := sig.MarshalBinary()
		put(b)
	},
	"sr25519.SecretKey.Equal/MiniSecretKey.Equal": func() {
		var a, b sr25519.MiniSecretKey
		copy(a[:], Cur[:32])
		copy(b[:], Cur[32:])
		sinkBool[0] = a.Equal(&b)
		sinkBool[1] = a.ExpandEd25519().Equal(b.ExpandEd25519())
	},
	// ECVRF
	"ecvrf.Prove": func() { put(ecvrf.Prove(ed25519.NewKeyFromSeed(Cur[:32]), []byte("alpha"))) },
	"ecvrf.ProveWithAddedRandomness": func() {
		pi, _ := ecvrf.ProveWithAddedRandomness(fixedReader{}, ed25519.NewKeyFromSeed(Cur[:32]), []byte("alpha"))
		put(pi)
	},
	// the peer's value is public, and chosen by the peer: here so that the shared secret of ONE of the secrets (#2)
	// has whole words of zeros, at the start or at the end. A result check that stops at the first non-zero word
	// runs longer for that secret than for the others.
	"x25519.X25519(peer value making secret #2's result start with 8 zero bytes)":  func() { out, _ := x25519.X25519(Cur[:32], peerStruct[0]); put(out) },
	"x25519.X25519(peer value making secret #2's result start with 24 zero bytes)": func() { out, _ := x25519.X25519(Cur[:32], peerStruct[1]); put(out) },
	"x25519.X25519(peer value making secret #2's result end with 8 zero bytes)":    func() { out, _ := x25519.X25519(Cur[:32], peerStruct[2]); put(out) },
	"x25519.X25519(peer value making secret #2's result end with 24 zero bytes)":   func() { out, _ := x25519.X25519(Cur[:32], peerStruct[3]); put(out) },
	// comparisons whose public operand EQUALS one of the secrets (#2): a comparison that stops at the first difference,
	// or takes a shortcut for operands in a particular form (freshly decoded: Z = 1), runs differently for that secret
	"EdwardsPoint.Equal(decoded public point = [secret #2]B, decoded [secret]B)": func() {
		var p curve.EdwardsPoint
		p.MulBasepoint(curve.ED25519_BASEPOINT_TABLE, sc(Cur[:32]))
		var cy curve.CompressedEdwardsY
		cy.SetEdwardsPoint(&p)
		var q curve.EdwardsPoint
		q.SetCompressedY(&cy)
		sinkBool[0] = eqEdwards.Equal(&q) == 1
		sinkBool[1] = cy.Equal(&eqCompressed) == 1
	},
	"RistrettoPoint.Equal / CompressedRistretto.Equal(public = [secret #2]B)": func() {
		var p curve.RistrettoPoint
		p.MulBasepoint(curve.RISTRETTO_BASEPOINT_TABLE, sc(Cur[:32]))
		var cr curve.CompressedRistretto
		cr.SetRistrettoPoint(&p)
		var q curve.RistrettoPoint
		q.SetCompressed(&cr)
		sinkBool[0] = eqRistretto.Equal(&q) == 1
		sinkBool[1] = cr.Equal(&eqCompressedR) == 1
	},
	"Scalar.Equal / field.Equal / MontgomeryPoint.Equal(public = secret #2)": func() {
		sinkBool[0] = sc(Cur[:32]).Equal(eqScalar) == 1
		sinkBool[1] = fe(Cur[:32]).Equal(eqField) == 1
		var m curve.MontgomeryPoint
		copy(m[:], Cur[:32])
		sinkBool[2] = m.Equal(&eqMont) == 1
	},
	"Scalar.BatchInvert(batch of secret scalars; zero for the all-zero secret)": func() {
		a, b := sc(Cur[:32]), sc(Cur[32:])
		c3 := scalar.NewFromUint64(7)
		scalar.New().BatchInvert([]*scalar.Scalar{a, c3, b})
		a.ToBytes(Out[:32])
	},
	// the entropy stream is the secret: key generation and nonce sampling read it through the caller's io.Reader
	"Scalar.SetRandom(secret entropy)": func() {
		s, _ := scalar.New().SetRandom(&secretReader{})
		s.ToBytes(Out[:32])
	},
	"RistrettoPoint.SetRandom(secret entropy)": func() {
		p, _ := curve.NewRistrettoPoint().SetRandom(&secretReader{})
		b, _ := p.MarshalBinary()
		put(b)
	},
	"sr25519.GenerateSecretKey(secret entropy)": func() {
		sk, _ := sr25519.GenerateSecretKey(&secretReader{})
		b, _ := sk.MarshalBinary()
		put(b)
	},
	"sr25519.GenerateKeyPair(secret entropy)": func() {
		kp, _ := sr25519.GenerateKeyPair(&secretReader{})
		b, _ := kp.PublicKey().MarshalBinary()
		put(b)
	},
	"sr25519.GenerateMiniSecretKey(secret entropy)+ExpandUniform": func() {
		msk, _ := sr25519.GenerateMiniSecretKey(&secretReader{})
		b, _ := msk.ExpandUniform().MarshalBinary()
		put(b)
	},
	"sr25519.KeyPair.Sign(secret witness entropy)": func() {
		var msk sr25519.MiniSecretKey
		copy(msk[:], seedFixed[:])
		kp := msk.ExpandUniform().KeyPair()
		sig, _ := kp.Sign(&secretReader{}, srCtx.NewTranscriptBytes(msgHello))
		b, _ := sig.MarshalBinary()
		put(b)
	},
	"ed25519.GenerateKey(secret entropy)": func() {
		pub, _, _ := ed25519.GenerateKey(&secretReader{})
		put(pub)
	},
	"x25519.GenerateKey(secret entropy)": func() {
		pub, _, _ := x25519.GenerateKey(&secretReader{})
		put(pub[:])
	},
	"ed25519.Sign(AddedRandomness, secret entropy)": func() {
		sig, _ := otherPriv.Sign(&secretReader{}, msgHello, &ed25519.Options{AddedRandomness: true})
		put(sig)
	},
	// more secret-handling entry points
	"sr25519.NewSecretKeyFromEd25519Bytes+PublicKey": func() {
		var b [64]byte
		copy(b[:], Cur[:])
		b[0] &= 248
		b[31] &= 63
		b[31] |= 64
		sk, err := sr25519.NewSecretKeyFromEd25519Bytes(b[:])
		if err == nil {
			pk, _ := sk.PublicKey().MarshalBinary()
			put(pk)
		}
	},
	"EdwardsBasepointTable(custom).Mul": func() { putE(curve.NewEdwardsPoint().MulBasepoint(customTable, sc(Cur[:32]))) },
	"RistrettoPoint.ConditionalSelect": func() {
		p := curve.NewRistrettoPoint()
		p.ConditionalSelect(rpts[0], rpts[1], int(Cur[0]&1))
		b, _ := p.MarshalBinary()
		put(b)
	},
	"CompressedRistretto.Equal/MontgomeryPoint.Equal": func() {
		var a, b curve.CompressedRistretto
		var m, n curve.MontgomeryPoint
		copy(a[:], Cur[:32])
		copy(b[:], Cur[32:])
		copy(m[:], Cur[:32])
		copy(n[:], Cur[32:])
		Out[0] = byte(a.Equal(&b)) | byte(m.Equal(&n))<<1
	},
	"scalar.Product/Sum": func() {
		ss := scalars(4)
		scalar.New().Product(ss).ToBytes(Out[:32])
		scalar.New().Sum(ss).ToBytes(Out[32:64])
	},
	"field.BatchInvert": func() {
		a, b, c := fe(Cur[:32]), fe(Cur[32:]), fe(Cur[16:48])
		field.BatchInvert([]*field.Element{a, b, c})
		a.ToBytes(Out[:32])
	},
	"field.Pow2k/Square2/Mul121666/SetBytesWide": func() {
		var o, w field.Element
		o.Pow2k(fe(Cur[:32]), 5)
		o.Square2(&o)
		o.Mul121666(&o)
		w.SetBytesWide(Cur[:64])
		o.Add(&o, &w)
		o.ToBytes(Out[:32])
	},
	"ecvrf.Prove_v10": func() { put(ecvrf.Prove_v10(ed25519.NewKeyFromSeed(Cur[:32]), []byte("alpha"))) },
	"ed25519.PrivateKey.Sign(crypto.Hash(0) opts)": func() {
		s, _ := ed25519.NewKeyFromSeed(Cur[:32]).Sign(nil, msgHello, crypto.Hash(0))
		put(s)
	},
	// positive controls: must be flagged
	"control.leakyBranch": func() {
		// secret-dependent branch around a library call: visible to the trace monitor and the block-counter monitor
		if bytes.Equal(Cur[:16], Cur[16:32]) || Cur[0]&1 == 1 {
			var o field.Element
			o.Square(fe(Cur[:32]))
			Out[0] = byte(sha256.Sum256(Cur[:8])[0]) ^ byte(o.IsZero())
		}
	},
	"control.leakyIndex": func() { Out[0] = tbl[Cur[0]] },
}

func Names() []string {
	var n []string
	for k := range Ops {
		n = append(n, k)
	}
	for k := range graftOps {
		n = append(n, k)
	}
	sort.Strings(n)
	return n
}

func Secrets(n int) [][64]byte {
	h := func(s string) (o [64]byte) { d := sha512.Sum512([]byte(s)); copy(o[:], d[:]); return }
	fill := func(b byte) (o [64]byte) {
		for i := range o {
			o[i] = b
		}
		return
	}
	var eq [64]byte // equal halves
	d := sha256.Sum256([]byte("c"))
	copy(eq[:32], d[:])
	copy(eq[32:], d[:])
	var nonCanon [64]byte // first half p+1 (non-canonical field encoding), second half 1
	for i := range nonCanon[:32] {
		nonCanon[i] = 0xff
	}
	nonCanon[0], nonCanon[31], nonCanon[32] = 0xee, 0x7f, 1
	var lowBit, highBit [64]byte
	lowBit[0], highBit[31], highBit[63] = 1, 0x40, 0x40
	var lm1 [64]byte // L-1 | L+1
	copy(lm1[:32], []byte{0xec, 0xd3, 0xf5, 0x5c, 0x1a, 0x63, 0x12, 0x58, 0xd6, 0x9c, 0xf7, 0xa2, 0xde, 0xf9, 0xde, 0x14, 0, 0, 0, 0, 0, 0, 0, 0, 0, 0, 0, 0, 0, 0, 0, 0x10})
	copy(lm1[32:], lm1[:32])
	lm1[32] = 0xee
	all := [][64]byte{h("a"), h("a"), h("b"), {}, fill(0xff), fill(0x88), eq, nonCanon, fill(0x77), lowBit, highBit, lm1, h("d"), h("e")}
	if n > len(all) {
		n = len(all)
	}
	return all[:n]
}

// Init prepares the shared public inputs. big selects the 190-term multiscalar inputs as well.
func Init(big bool) {
	for i := 0; i < 3; i++ {
		p := curve.NewEdwardsPoint().MulBasepoint(curve.ED25519_BASEPOINT_TABLE, sc(bytes.Repeat([]byte{byte(i + 3)}, 32)))
		pts = append(pts, p)
	}
	for i := 0; i < 2; i++ {
		rp := curve.NewRistrettoPoint().MulBasepoint(curve.RISTRETTO_BASEPOINT_TABLE, sc(bytes.Repeat([]byte{byte(i + 9)}, 32)))
		rpts = append(rpts, rp)
	}
	if big {
		for i := 0; i < 190; i++ {
			many = append(many, pts[i%3])
		}
	}
	var m curve.MontgomeryPoint
	m.SetEdwards(pts[0])
	copy(pubU[:], m[:])
	for i := range tbl {
		tbl[i] = byte(i * 7)
	}
	otherPriv = ed25519.NewKeyFromSeed(bytes.Repeat([]byte{7}, 32))
	srCtx = sr25519.NewSigningContext([]byte("ctx"))
	customTable = curve.NewEdwardsBasepointTable(pts[2])
	// peer values for the structured-result operations: constructed once with ref.X25519Preimage for secret #2 =
	// SHA-512("b")[:32] (big-integer work is far too slow under valgrind to repeat in every traced process); the
	// block-counter driver re-checks at start-up that the results have the advertised shape
	for i, h := range []string{
		"50585cee50e16885c70b337123de630b68551f28f3927bb126e90ab3964ccf58", // result 0000000000000000e2c708e8...
		"6680d16af7cb6230b46f8960fa3e0dd8d16a874f338fd3de7a9743c842fa1227", // result 00 x24, 8e813ffc2ebed468
		"28d16e86f578f53482306b0a86c190a54436fc0da9a2b56690c513f6568f1c52", // result ...a421c057, 00 x8
		"a15bd463e1b71de64cf1f3085a5bcda4776a438efb506943e7b6b7bd71cd5c02", // result 9f973d303f541c6a, 00 x24
	} {
		peerStruct[i], _ = hex.DecodeString(h)
	}
	// public operands equal to secret #2
	{
		s2 := Secrets(3)[2]
		eqScalar = sc(s2[:32])
		eqField = fe(s2[:32])
		copy(eqMont[:], s2[:32])
		var p curve.EdwardsPoint
		p.MulBasepoint(curve.ED25519_BASEPOINT_TABLE, eqScalar)
		eqCompressed.SetEdwardsPoint(&p)
		eqEdwards.SetCompressedY(&eqCompressed)
		var rp curve.RistrettoPoint
		rp.MulBasepoint(curve.RISTRETTO_BASEPOINT_TABLE, eqScalar)
		eqCompressedR.SetRistrettoPoint(&rp)
		eqRistretto.SetCompressed(&eqCompressedR)
	}
	graftInit()
}

var (
	eqScalar      *scalar.Scalar
	eqField       *field.Element
	eqMont        curve.MontgomeryPoint
	eqCompressed  curve.CompressedEdwardsY
	eqEdwards     curve.EdwardsPoint
	eqCompressedR curve.CompressedRistretto
	eqRistretto   curve.RistrettoPoint
)

var peerStruct [4][]byte

// PeerStructShapes: for the self-check of the structured peer values: zero byte ranges of X25519(secret #2, peer i).
var PeerStructShapes = [4][2]int{{0, 8}, {0, 24}, {24, 32}, {8, 32}}

// PeerStruct returns peer value i.
func PeerStruct(i int) []byte { return peerStruct[i] }

// Get returns the operation by name (table or graft table).
func Get(name string) (func(), bool) {
	if f, ok := Ops[name]; ok {
		return f, true
	}
	f, ok := graftOps[name]
	return f, ok
}
