//go:build verif

package ctops

import "github.com/oasisprotocol/curve25519-voi/curve"

var lookup *curve.VerifLookup

func graftInit() { lookup = curve.VerifNewLookup(pts[1]) }

// table lookups with a secret signed digit in [-8, 8]
var graftOps = map[string]func(){
	"Lookup(projective niels, secret digit)": func() { putE(lookup.Projective(int8(Cur[0]%17) - 8)) },
	"Lookup(affine niels, secret digit)":     func() { putE(lookup.Affine(int8(Cur[0]%17) - 8)) },
}
