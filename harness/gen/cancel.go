package gen

import (
	"encoding/binary"
	"math/rand/v2"
)

// CancelPatterns returns 32-byte strings (bit 255 clear) whose 64-bit or 32-bit little-endian words cancel under the
// cheap accumulators that word-at-a-time rewrites of IsZero / Equal tend to use: XOR of the words is zero (the same
// word in two or four positions), or their sum is zero modulo the word size (d and -d, or four words summing to 0).
// As values they are non-zero elements that such an accumulator takes for zero; as differences (a XOR D, a + D) they
// give distinct values that it takes for equal. Uniform inputs meet any of these with probability 2^-32..2^-64.
func CancelPatterns(rng *rand.Rand, n int) [][]byte {
	var out [][]byte
	put64 := func(w [4]uint64) {
		b := make([]byte, 32)
		for i, v := range w {
			binary.LittleEndian.PutUint64(b[8*i:], v)
		}
		b[31] &= 0x7f
		out = append(out, b)
	}
	put32 := func(w [8]uint32) {
		b := make([]byte, 32)
		for i, v := range w {
			binary.LittleEndian.PutUint32(b[4*i:], v)
		}
		b[31] &= 0x7f
		out = append(out, b)
	}
	for len(out) < n {
		d := rng.Uint64()
		switch rng.IntN(4) {
		case 0:
			d = 1 << uint(rng.IntN(63))
		case 1:
			d = uint64(rng.Uint32())
		}
		d &^= 1 << 63 // keep bit 255 clear wherever the word lands
		if d == 0 {
			d = 1
		}
		i, j := rng.IntN(4), rng.IntN(4)
		if i == j {
			j = (i + 1) % 4
		}
		var w [4]uint64
		switch rng.IntN(5) {
		case 0: // XOR: same word twice
			w[i], w[j] = d, d
		case 1: // XOR: same word four times
			w = [4]uint64{d, d, d, d}
		case 2: // sum: d and -d
			w[i], w[j] = d, -d
			if i == 3 || j == 3 {
				w[3] &^= 1 << 63
				// restore the zero sum with the freed bit moved to another word
				k := 3 - max(i, j)%3 // some other index
				if k == i || k == j {
					k = (k + 1) % 3
				}
				w[k] += 1 << 63
			}
		case 3: // sum: 2^62 in every word (4 * 2^62 = 2^64)
			w = [4]uint64{1 << 62, 1 << 62, 1 << 62, 1 << 62}
		default: // 2^k - 1 spanning a word boundary: words 0xffff.., 1 (sum 0)
			w[i%3] = ^uint64(0)
			w[i%3+1] = 1
		}
		put64(w)
		// 32-bit analogues
		e := uint32(d) | 1
		a, b := rng.IntN(8), rng.IntN(8)
		if a == b {
			b = (a + 1) % 8
		}
		var v [8]uint32
		switch rng.IntN(3) {
		case 0:
			v[a], v[b] = e, e
		case 1:
			v[a], v[b] = e, -e
		default:
			for k := range v {
				v[k] = e
			}
		}
		put32(v)
	}
	return out[:n]
}

// XorBytes returns a XOR d.
func XorBytes(a, d []byte) []byte {
	o := make([]byte, len(a))
	for i := range a {
		o[i] = a[i] ^ d[i]
	}
	return o
}
