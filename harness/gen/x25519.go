package gen

import (
	"math/big"
	"math/bits"
	"math/rand/v2"

	"github.com/oasisprotocol/curve25519-voi/zzverif/ref"
)

// LadderFirstStepU returns a u-coordinate for which the first Montgomery-ladder step of a clamped scalar feeds the
// multiplication by (A+2)/4 = 121666 a value E = 4u whose radix-2^51 limbs e_i make the partial products e_i*121666
// end just below a multiple of 2^64 while the limb below produces a large carry: the carry between the low and the
// high word of the 128-bit partial sums is then non-zero. Uniform u reach this with probability about 2^-47. The
// value is defined arithmetically (no reference to the backend in use), so every configuration receives the same
// inputs; on backends with other limb sizes it is simply another u.
func LadderFirstStepU(rng *rand.Rand) []byte {
	const lim = uint64(1) << 51
	mmax, _ := bits.Mul64(lim-1, 121666)
	T := new(big.Int)
	for i := 0; i < 5; i++ {
		var l uint64
		if rng.IntN(3) == 0 {
			l = lim - 1 - uint64(rng.IntN(1000))
		} else {
			m := 1 + rng.Uint64N(mmax)
			d := uint64(rng.IntN(120000))
			q, _ := bits.Div64(m-1, ^uint64(0)-d, 121666) // floor((m*2^64 - 1 - d) / 121666), hi < divisor
			if q >= lim {
				q = lim - 1
			}
			l = q
		}
		T.Or(T, new(big.Int).Lsh(new(big.Int).SetUint64(l), uint(51*i)))
	}
	T.Mod(T, ref.P)
	inv4 := new(big.Int).ModInverse(big.NewInt(4), ref.P)
	u := new(big.Int).Mul(T, inv4)
	u.Mod(u, ref.P)
	return ref.LE32(u)
}
