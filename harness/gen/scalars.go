package gen

import (
	"bytes"
	"math/big"
	"math/rand/v2"

	"github.com/oasisprotocol/curve25519-voi/zzverif/mon"
	"github.com/oasisprotocol/curve25519-voi/zzverif/ref"
)

var (
	Two255 = new(big.Int).Lsh(big.NewInt(1), 255)
	Two256 = new(big.Int).Lsh(big.NewInt(1), 256)
)

// ScalarCatalogue: the structured 255-bit values named by C03/C05/C16/C17 (all < 2^255).
func ScalarCatalogue() []*big.Int {
	var cat []*big.Int
	add := func(v *big.Int) {
		if v.Sign() >= 0 && v.Cmp(Two255) < 0 {
			cat = append(cat, v)
		}
	}
	for _, s := range []int64{0, 1, 2, 3, 7, 8, 9, 15, 16, 17} {
		add(big.NewInt(s))
	}
	for k := int64(0); k <= 15; k++ {
		for e := int64(-3); e <= 3; e++ {
			add(new(big.Int).Add(new(big.Int).Mul(ref.L, big.NewInt(k)), big.NewInt(e)))
		}
	}
	for _, sh := range []uint{51, 52, 63, 64, 104, 116, 127, 128, 156, 191, 192, 208, 232, 251, 252, 253, 254} {
		p := new(big.Int).Lsh(big.NewInt(1), sh)
		for e := int64(-2); e <= 2; e++ {
			add(new(big.Int).Add(p, big.NewInt(e)))
		}
	}
	add(new(big.Int).Sub(Two255, big.NewInt(19)))
	add(new(big.Int).Sub(Two255, big.NewInt(1)))
	add(new(big.Int).Sub(Two255, big.NewInt(2)))
	for _, b := range []byte{0x88, 0x77, 0xff, 0xf8, 0x55, 0xaa, 0x80, 0x7f, 0x08, 0x78, 0x87, 0x01, 0x10, 0xfe} {
		bs := bytes.Repeat([]byte{b}, 32)
		bs[0] &= 0x7f // big endian: top bit
		add(new(big.Int).SetBytes(bs))
	}
	// all digits 2^(w-1) (and 2^(w-1)-1) in radix 2^w: maximal recoding carries
	for w := uint(4); w <= 8; w++ {
		for _, d := range []int64{1 << (w - 1), 1<<(w-1) - 1, 1<<w - 1} {
			v := new(big.Int)
			for i := uint(0); i*w < 255; i++ {
				v.Or(v, new(big.Int).Lsh(big.NewInt(d), i*w))
			}
			v.And(v, new(big.Int).Sub(Two255, big.NewInt(1)))
			add(v)
		}
	}
	// (L-1)/2, sqrt-ish, top-limb-only values
	add(new(big.Int).Rsh(ref.L, 1))
	add(new(big.Int).Sqrt(ref.L))
	add(new(big.Int).Lsh(big.NewInt(0xfffff), 232))
	return cat
}

// RandScalar draws: 1/3 catalogue, 1/3 reduced, 1/3 any 255-bit value.
func RandScalar(rng *rand.Rand, cat []*big.Int) *big.Int {
	switch rng.IntN(3) {
	case 0:
		return cat[rng.IntN(len(cat))]
	case 1:
		return new(big.Int).Mod(new(big.Int).SetBytes(mon.Bytes(rng, 40)), ref.L)
	}
	v := new(big.Int).SetBytes(mon.Bytes(rng, 32))
	return v.And(v, new(big.Int).Sub(Two255, big.NewInt(1)))
}

// Rand255 draws a uniform 255-bit value.
func Rand255(rng *rand.Rand) *big.Int {
	v := new(big.Int).SetBytes(mon.Bytes(rng, 32))
	return v.And(v, new(big.Int).Sub(Two255, big.NewInt(1)))
}

func RandModL(rng *rand.Rand) *big.Int {
	return new(big.Int).Mod(new(big.Int).SetBytes(mon.Bytes(rng, 40)), ref.L)
}
