// Package gen holds the adversarial input generators shared by several drivers.
package gen

import (
	"crypto/sha512"
	"fmt"
	"math/big"
	"math/rand/v2"

	"github.com/oasisprotocol/curve25519-voi/zzverif/corpus"
	"github.com/oasisprotocol/curve25519-voi/zzverif/mon"
	"github.com/oasisprotocol/curve25519-voi/zzverif/ref"
)

// EdCase is one (key, message, signature, variant) verification input.
type EdCase struct {
	Fam     string `json:"fam"`
	PK      string `json:"pk"`
	Msg     string `json:"msg"`
	Sig     string `json:"sig"`
	Variant int    `json:"variant"` // 0 pure, 1 ctx, 2 ph
	Ctx     string `json:"ctx"`     // hex
}

func (c EdCase) Dom2() []byte {
	switch c.Variant {
	case 1:
		return ref.Dom2(0, mon.UnHex(c.Ctx))
	case 2:
		return ref.Dom2(1, mon.UnHex(c.Ctx))
	}
	return nil
}

func (c EdCase) Key() []byte {
	return []byte(fmt.Sprintf("%s|%s|%s|%d|%s", c.PK, c.Msg, c.Sig, c.Variant, c.Ctx))
}

var (
	Tors = ref.Torsion()
)

// SpecialEncodings: every non-canonical encoding that exists (y+p for y<=18, both sign bits),
// the eight torsion encodings and their sign-flipped forms (which include the two x=0
// encodings with the sign bit set).
func SpecialEncodings() [][]byte {
	var special [][]byte
	for y := int64(0); y <= 18; y++ {
		for sign := uint(0); sign < 2; sign++ {
			v := new(big.Int).Add(ref.P, big.NewInt(y))
			v.SetBit(v, 255, sign)
			special = append(special, ref.LE32(v))
		}
	}
	for _, t := range Tors {
		e := ref.Encode(t)
		special = append(special, e)
		f := append([]byte{}, e...)
		f[31] ^= 0x80
		special = append(special, f)
	}
	return special
}

func le32Big(v *big.Int) []byte {
	return ref.LE32(new(big.Int).And(v, new(big.Int).Sub(new(big.Int).Lsh(big.NewInt(1), 256), big.NewInt(1))))
}

// SBoundaries: the S values named by the property.
func SBoundaries() []*big.Int {
	L := ref.L
	p2 := func(n uint) *big.Int { return new(big.Int).Lsh(big.NewInt(1), n) }
	sub1 := func(v *big.Int) *big.Int { return new(big.Int).Sub(v, big.NewInt(1)) }
	add1 := func(v *big.Int) *big.Int { return new(big.Int).Add(v, big.NewInt(1)) }
	out := []*big.Int{big.NewInt(0), big.NewInt(1), sub1(L), new(big.Int).Set(L), add1(L), p2(252), sub1(p2(252)), sub1(p2(253)), p2(253), sub1(p2(255)), sub1(p2(256))}
	// word-wise compare loop of the minimality test: L with one 64-bit word +-1
	for w := 0; w < 4; w++ {
		d := p2(uint(64 * w))
		out = append(out, new(big.Int).Add(L, d), new(big.Int).Sub(L, d))
	}
	// top nibble 0x0 / 0x1 / >= 0x2
	out = append(out, sub1(p2(252)), new(big.Int).Add(p2(252), p2(251)), p2(253), new(big.Int).Add(p2(254), big.NewInt(5)))
	return out
}

// EdFamilies generates the adversarial families of C01 for nKeys fresh keys.
func EdFamilies(rng *rand.Rand, nKeys int, nSpecialSq int) []EdCase {
	var cases []EdCase
	bigRng := func(n *big.Int) *big.Int {
		b := mon.Bytes(rng, 40)
		return new(big.Int).Mod(new(big.Int).SetBytes(b), n)
	}
	special := SpecialEncodings()
	for i := 0; i < nKeys; i++ {
		key := ref.NewKey(mon.Bytes(rng, 32))
		variant := i % 3
		var ctx []byte
		if variant == 1 {
			switch (i / 3) % 3 {
			case 0:
				ctx = mon.Bytes(rng, 1)
			case 1:
				ctx = mon.Bytes(rng, 255)
			default:
				ctx = mon.Bytes(rng, 1+rng.IntN(255))
			}
		} else if variant == 2 && i%2 == 0 {
			ctx = mon.Bytes(rng, 1+rng.IntN(40))
		}
		msg := mon.Bytes(rng, rng.IntN(130))
		if variant == 2 {
			h := sha512.Sum512(msg)
			msg = h[:]
		}
		var d []byte
		switch variant {
		case 1:
			d = ref.Dom2(0, ctx)
		case 2:
			d = ref.Dom2(1, ctx)
		}
		sig := key.Sign(msg, d)
		add := func(fam string, pk, sig []byte) {
			cases = append(cases, EdCase{fam, mon.Hex(pk), mon.Hex(msg), mon.Hex(sig), variant, mon.Hex(ctx)})
		}
		add("honest", key.Pub, sig)
		S := ref.FromLE(sig[32:])
		for k := int64(1); ; k++ {
			s2 := new(big.Int).Add(S, new(big.Int).Mul(ref.L, big.NewInt(k)))
			if s2.BitLen() > 256 {
				break
			}
			add("S+kL", key.Pub, append(append([]byte{}, sig[:32]...), ref.LE32(s2)...))
		}
		if i%4 == 0 {
			for _, s2 := range SBoundaries() {
				add("S-boundary", key.Pub, append(append([]byte{}, sig[:32]...), le32Big(s2)...))
			}
		}
		r := bigRng(ref.L)
		Rp := ref.B.Mul(r)
		for j, t := range Tors {
			Rj := ref.Encode(Rp.Add(t))
			add(fmt.Sprintf("R+T%d", j), key.Pub, key.SignWith(r, Rj, key.Pub, msg, d))
		}
		Apt := ref.Decode(key.Pub).Pt
		for j, t := range Tors {
			pkj := ref.Encode(Apt.Add(t))
			add(fmt.Sprintf("A+T%d", j), pkj, key.SignWith(r, ref.Encode(Rp), pkj, msg, d))
		}
		// both perturbed
		j1, j2 := 1+rng.IntN(7), 1+rng.IntN(7)
		pkj := ref.Encode(Apt.Add(Tors[j1]))
		add("A+T,R+T", pkj, key.SignWith(r, ref.Encode(Rp.Add(Tors[j2])), pkj, msg, d))
		// honest key, R one of the small-order / non-canonical encodings, r = 0: S = H(R,A,M)*a
		if i%3 == 0 {
			for _, e := range special {
				add("R-special", key.Pub, key.SignWith(big.NewInt(0), e, key.Pub, msg, d))
			}
		}
		for f := 0; f < 6; f++ {
			s2 := append([]byte{}, sig...)
			s2[rng.IntN(64)] ^= 1 << uint(rng.IntN(8))
			add("sigflip", key.Pub, s2)
		}
		pk2 := append([]byte{}, key.Pub...)
		pk2[rng.IntN(32)] ^= 1 << uint(rng.IntN(8))
		add("pkflip", pk2, sig)
		add("garbage", mon.Bytes(rng, 32), mon.Bytes(rng, 64))
		// honest R bytes replaced by an undecodable string
		und := undecodable(rng)
		add("R-undecodable", key.Pub, append(append([]byte{}, und...), sig[32:]...))
		add("A-undecodable", und, sig)
		// ... with a scalar that would satisfy the equation if the undecodable string were taken for the identity (what a
		// decoder leaves in its receiver when it fails) or for the base point: S = r + H(R,A,M)*a for r = 0, 1; and an
		// undecodable key with (R, S) = ([r]B, r), which verifies if the key is taken for the identity
		add("R-undecodable/as-identity", key.Pub, key.SignWith(big.NewInt(0), und, key.Pub, msg, d))
		add("R-undecodable/as-B", key.Pub, key.SignWith(big.NewInt(1), und, key.Pub, msg, d))
		add("A-undecodable/as-identity", und, append(append([]byte{}, ref.Encode(Rp)...), ref.LE32(r)...))
		for _, l := range []int{0, 1, 31, 32, 63, 65, 96, 128} {
			s2 := make([]byte, l)
			copy(s2, sig)
			if l > 64 {
				copy(s2[64:], mon.Bytes(rng, l-64))
			}
			add(fmt.Sprintf("siglen%d", l), key.Pub, s2)
		}
	}
	// small-order / non canonical A and R with S in {0,1}; messages vary so both outcomes of -k*T_i = T_j occur
	n := 0
	for ai := range special {
		for ri := range special {
			if nSpecialSq > 0 && n >= nSpecialSq {
				break
			}
			// in the quick tier take a PRNG subset
			a, r := special[ai], special[ri]
			if nSpecialSq > 0 {
				a, r = special[rng.IntN(len(special))], special[rng.IntN(len(special))]
			}
			for m := 0; m < 3; m++ {
				S := make([]byte, 32)
				if m == 2 {
					S[0] = 1
				}
				msg := []byte{byte(m), byte(rng.IntN(256)), byte(rng.IntN(256))}
				cases = append(cases, EdCase{"special", mon.Hex(a), mon.Hex(msg), mon.Hex(append(append([]byte{}, r...), S...)), 0, ""})
			}
			n++
		}
	}
	// small-order A, R = [S mod L]B: the equation holds for EVERY S, so acceptance is decided by the S < L gate alone.
	// S runs over structured 256-bit values aimed at the minimality test (top-byte classes x low parts around
	// L - 2^252, words of L +-1, zeros, ones).
	c252 := new(big.Int).Sub(ref.L, new(big.Int).Lsh(big.NewInt(1), 252))
	var svals []*big.Int
	for top := int64(0x0f); top <= 0x21; top++ {
		hi := new(big.Int).Lsh(big.NewInt(top), 248)
		for _, lo := range []*big.Int{big.NewInt(0), big.NewInt(1), new(big.Int).Sub(c252, big.NewInt(1)), c252, new(big.Int).Add(c252, big.NewInt(1)), new(big.Int).Lsh(big.NewInt(1), 128), new(big.Int).Sub(new(big.Int).Lsh(big.NewInt(1), 248), big.NewInt(1)), new(big.Int).Lsh(big.NewInt(1), 247)} {
			svals = append(svals, new(big.Int).Add(hi, lo))
		}
	}
	for _, top := range []int64{0x7f, 0x80, 0xff} {
		svals = append(svals, new(big.Int).Add(new(big.Int).Lsh(big.NewInt(top), 248), c252))
	}
	svals = append(svals, SBoundaries()...)
	for i, sv := range svals {
		if sv.BitLen() > 256 {
			continue
		}
		if nSpecialSq > 0 && nKeys < 20 && i%3 != int(rng.IntN(3)) {
			continue
		}
		a := Tors[rng.IntN(8)]
		Rb := ref.Encode(ref.B.Mul(new(big.Int).Mod(sv, ref.L)))
		msg := []byte{byte(i), byte(rng.IntN(256))}
		cases = append(cases, EdCase{"S-structured/small-order-A", mon.Hex(ref.Encode(a)), mon.Hex(msg), mon.Hex(append(Rb, le32Big(sv)...)), 0, ""})
	}
	// challenge scalars with rare structure, found by search (see package corpus): valid signatures, the same with one
	// bit of S flipped, and the same with a torsion component added to A (the key is part of the hash input, so k
	// changes and the structure is lost; kept only as a rejection case with the original k's signature)
	stride := 1
	if nKeys < 12 {
		stride = 4
	}
	for i, g := range corpus.GroundKs() {
		if i%stride != 0 {
			continue
		}
		pk, msg, sig := g.Signature()
		fam := "ground-k/" + g.Class()
		cases = append(cases, EdCase{fam, mon.Hex(pk), mon.Hex(msg), mon.Hex(sig), 0, ""})
		bad := append([]byte{}, sig...)
		bad[32+rng.IntN(31)] ^= 1 << uint(rng.IntN(8))
		cases = append(cases, EdCase{fam + "/S-bit-flipped", mon.Hex(pk), mon.Hex(msg), mon.Hex(bad), 0, ""})
	}
	return cases
}

func undecodable(rng *rand.Rand) []byte {
	for {
		b := mon.Bytes(rng, 32)
		if !ref.Decode(b).OK {
			return b
		}
	}
}
