package gen

import (
	"math/big"
	"math/rand/v2"

	"github.com/oasisprotocol/curve25519-voi/curve"
	"github.com/oasisprotocol/curve25519-voi/zzverif/mon"
	"github.com/oasisprotocol/curve25519-voi/zzverif/ref"
)

// KP is a library point together with what the reference knows about it.
type KP struct {
	Name string
	K    *big.Int // discrete log of the prime-order part w.r.t. B, nil if unknown
	J    int64    // torsion component index (multiple of the E[8] generator), valid if K != nil
	Ref  ref.Pt
	Enc  []byte
	Lib  *curve.EdwardsPoint
	Exp  *curve.ExpandedEdwardsPoint
}

func LibPoint(enc []byte) *curve.EdwardsPoint {
	var c curve.CompressedEdwardsY
	if _, err := c.SetBytes(enc); err != nil {
		mon.Fatalf("LibPoint: %v", err)
	}
	p, err := curve.NewEdwardsPoint().SetCompressedY(&c)
	if err != nil {
		mon.Fatalf("LibPoint: reference-encoded point rejected by the library (%x): %v", enc, err)
	}
	return p
}

func mk(name string, k *big.Int, j int64, p ref.Pt) KP {
	enc := ref.Encode(p)
	lp := LibPoint(enc)
	return KP{Name: name, K: k, J: j, Ref: p, Enc: enc, Lib: lp, Exp: curve.NewExpandedEdwardsPoint(lp)}
}

// KnownPoint builds [k]B + T_j.
func KnownPoint(name string, k *big.Int, j int64) KP {
	return mk(name, k, j, ref.B.Mul(k).Add(Tors[j]))
}

// PointPool: identity, B, -B, torsion, mixed-order, random multiples, random decodable strings.
func PointPool(rng *rand.Rand, nRandom int) []KP {
	var pool []KP
	pool = append(pool, KnownPoint("O", big.NewInt(0), 0), KnownPoint("B", big.NewInt(1), 0), KnownPoint("-B", new(big.Int).Sub(ref.L, big.NewInt(1)), 0), KnownPoint("2B", big.NewInt(2), 0))
	for j := int64(1); j < 8; j++ {
		pool = append(pool, KnownPoint("T", big.NewInt(0), j))
		pool = append(pool, KnownPoint("B+T", big.NewInt(1), j))
	}
	for i := 0; i < nRandom; i++ {
		k := RandModL(rng)
		j := int64(0)
		if i%3 != 0 {
			j = int64(rng.IntN(8))
		}
		pool = append(pool, KnownPoint("kB+T", k, j))
	}
	for i := 0; i < nRandom/4+2; i++ {
		for {
			b := mon.Bytes(rng, 32)
			d := ref.Decode(b)
			if d.OK {
				pool = append(pool, mk("decoded", nil, 0, d.Pt))
				break
			}
		}
	}
	return pool
}
