// Package workload is the deterministic whole-library workload shared by the cross-backend differential check
// (C06) and the in-situ contract monitors (C04 field shadow, C16 short-vector hook, C17 digit/lookup hooks):
// it calls the exported operations of every package on boundary and PRNG inputs and hands each call's canonical
// output to a Sink.
package workload

import (
	"bytes"
	"crypto"
	"crypto/sha512"
	"encoding/binary"
	"fmt"
	"math/big"
	"math/rand/v2"

	"golang.org/x/crypto/sha3"

	"github.com/oasisprotocol/curve25519-voi/curve"
	"github.com/oasisprotocol/curve25519-voi/curve/scalar"
	"github.com/oasisprotocol/curve25519-voi/internal/elligator"
	"github.com/oasisprotocol/curve25519-voi/internal/field"
	"github.com/oasisprotocol/curve25519-voi/internal/lattice"
	"github.com/oasisprotocol/curve25519-voi/internal/scalar128"
	"github.com/oasisprotocol/curve25519-voi/internal/subtle"
	"github.com/oasisprotocol/curve25519-voi/primitives/ed25519"
	"github.com/oasisprotocol/curve25519-voi/primitives/ed25519/extra/cache"
	"github.com/oasisprotocol/curve25519-voi/primitives/ed25519/extra/ecvrf"
	"github.com/oasisprotocol/curve25519-voi/primitives/h2c"
	"github.com/oasisprotocol/curve25519-voi/primitives/merlin"
	"github.com/oasisprotocol/curve25519-voi/primitives/sr25519"
	"github.com/oasisprotocol/curve25519-voi/primitives/x25519"
	"github.com/oasisprotocol/curve25519-voi/zzverif/gen"
	"github.com/oasisprotocol/curve25519-voi/zzverif/mon"
	"github.com/oasisprotocol/curve25519-voi/zzverif/ref"
)

// Sink receives the canonical output of one call.
type Sink interface {
	Out(op string, parts ...[]byte)
}

type recorder struct {
	Sink
}

func (rc *recorder) out(op string, parts ...[]byte) { rc.Sink.Out(op, parts...) }

// Light, when set, divides every repetition count by 25 and drops the largest multiscalar sizes: used by the
// in-situ monitors, whose hooks cost a big-integer computation per field operation.
var Light bool

func cnt(n, scale int) int {
	if Light {
		return max(1, n/25)
	}
	return n * scale
}

// All runs the whole workload. graft, when non-nil, adds the operations that need in-package observers.
func All(s Sink, rng *rand.Rand, scale int, graft func(Sink, *rand.Rand, int)) {
	rc := &recorder{s}
	workScalar(rc, rng, scale)
	workField(rc, rng, scale)
	workCurve(rc, rng, scale)
	workEd25519(rc, rng, scale)
	workX25519(rc, rng, scale)
	workEcvrf(rc, rng, scale)
	workSr25519(rc, rng, scale)
	workMerlinH2c(rc, rng, scale)
	workInternal(rc, rng, scale)
	if graft != nil {
		graft(s, rng, scale)
	}
}

func bb(b bool) []byte {
	if b {
		return []byte{1}
	}
	return []byte{0}
}

func be(err error) []byte { return bb(err == nil) }

// do runs f and records a panic class if it panics.
func (rc *recorder) do(op string, f func()) {
	if pan, msg := mon.Try(f); pan {
		if len(msg) > 40 {
			msg = msg[:40]
		}
		rc.out(op, []byte("PANIC:"+msg))
	}
}

func encE(p *curve.EdwardsPoint) []byte   { b, _ := p.MarshalBinary(); return b }
func encR(p *curve.RistrettoPoint) []byte { b, _ := p.MarshalBinary(); return b }
func scb(s *scalar.Scalar) []byte         { var b [32]byte; s.ToBytes(b[:]); return b[:] }
func feb(f *field.Element) []byte         { var b [32]byte; f.ToBytes(b[:]); return b[:] }
func i8s(d []int8) []byte {
	b := make([]byte, len(d))
	for i, v := range d {
		b[i] = byte(v)
	}
	return b
}

type zeroes struct{}

func (zeroes) Read(p []byte) (int, error) {
	for i := range p {
		p[i] = 0
	}
	return len(p), nil
}

type stream struct{ rng *rand.Rand }

func (s stream) Read(p []byte) (int, error) { copy(p, mon.Bytes(s.rng, len(p))); return len(p), nil }

func workScalar(rc *recorder, rng *rand.Rand, scale int) {
	cat := gen.ScalarCatalogue()
	sc := func(v *big.Int) *scalar.Scalar { s, _ := scalar.NewFromBits(ref.LE32(v)); return s }
	for i := 0; i < cnt(400, scale); i++ {
		a, b := gen.RandScalar(rng, cat), gen.RandScalar(rng, cat)
		sa, sb := sc(a), sc(b)
		rc.out("scalar.Add", scb(scalar.New().Add(sa, sb)))
		rc.out("scalar.Sub", scb(scalar.New().Sub(sa, sb)))
		rc.out("scalar.Mul", scb(scalar.New().Mul(sa, sb)))
		rc.out("scalar.Neg", scb(scalar.New().Neg(sa)))
		rc.out("scalar.Reduce", scb(scalar.New().Reduce(sa)))
		rc.out("scalar.IsCanonical", bb(sa.IsCanonical()))
		rc.out("scalar.Equal", []byte{byte(sa.Equal(sb))})
		t := scalar.New()
		t.ConditionalSelect(sa, sb, i&1)
		rc.out("scalar.ConditionalSelect", scb(t))
		if new(big.Int).Mod(a, ref.L).Sign() != 0 {
			rc.out("scalar.Invert", scb(scalar.New().Invert(sa)))
		}
		bits := sa.Bits()
		rc.out("scalar.Bits", bits[:])
		r16 := sa.ToRadix16()
		rc.out("scalar.ToRadix16", i8s(r16[:]))
		for w := uint(2); w <= 8; w++ {
			n := sa.NonAdjacentForm(w)
			rc.out(fmt.Sprintf("scalar.NonAdjacentForm(%d)", w), i8s(n[:]))
		}
		for w := uint(6); w <= 8; w++ {
			d := sa.ToRadix2w(w)
			rc.out(fmt.Sprintf("scalar.ToRadix2w(%d)", w), i8s(d[:]))
		}
		mb, err := sa.MarshalBinary()
		rc.out("scalar.MarshalBinary", mb, be(err))
	}
	for i := 0; i < cnt(200, scale); i++ {
		b := mon.Bytes(rng, 32)
		switch i % 4 {
		case 1:
			b = ref.LE32(new(big.Int).Add(ref.L, big.NewInt(int64(i%7-3))))
		case 2:
			b[31] &= 0x1f
		}
		rc.out("scalar.ScMinimalVartime", bb(scalar.ScMinimalVartime(b)))
		s, err := scalar.New().SetCanonicalBytes(b)
		if err == nil {
			rc.out("scalar.SetCanonicalBytes", scb(s))
		} else {
			rc.out("scalar.SetCanonicalBytes", []byte("err"))
		}
		s2, _ := scalar.New().SetBytesModOrder(b)
		rc.out("scalar.SetBytesModOrder", scb(s2))
		s3, _ := scalar.NewFromBytesModOrder(b)
		rc.out("scalar.NewFromBytesModOrder", scb(s3))
		rc.out("scalar.UnmarshalBinary", be(scalar.New().UnmarshalBinary(b)))
		s4, err := scalar.NewFromCanonicalBytes(b)
		rc.out("scalar.NewFromCanonicalBytes", be(err), bb(s4 != nil))
		w := mon.Bytes(rng, 64)
		s5, _ := scalar.New().SetBytesModOrderWide(w)
		rc.out("scalar.SetBytesModOrderWide", scb(s5))
		s6, _ := scalar.NewFromBytesModOrderWide(w)
		rc.out("scalar.NewFromBytesModOrderWide", scb(s6))
		s7, _ := scalar.New().SetRandom(bytes.NewReader(w))
		rc.out("scalar.SetRandom", scb(s7))
		rc.out("scalar.SetUint64", scb(scalar.New().SetUint64(binary.LittleEndian.Uint64(w))))
		rc.out("scalar.NewFromUint64", scb(scalar.NewFromUint64(binary.LittleEndian.Uint64(w[8:]))))
	}
	for _, n := range []int{0, 1, 2, 17, 64} {
		var ss, nz []*scalar.Scalar
		for i := 0; i < n; i++ {
			v := gen.RandScalar(rng, cat)
			ss = append(ss, sc(v))
			if new(big.Int).Mod(v, ref.L).Sign() != 0 {
				nz = append(nz, sc(v))
			}
		}
		rc.out("scalar.Sum", scb(scalar.New().Sum(ss)))
		rc.out("scalar.Product", scb(scalar.New().Product(ss)))
		ret := scalar.New().BatchInvert(nz)
		parts := [][]byte{scb(ret)}
		for _, s := range nz {
			parts = append(parts, scb(s))
		}
		rc.out("scalar.BatchInvert", parts...)
	}
	rc.out("scalar.constants", scb(scalar.BASEPOINT_ORDER), scb(scalar.One()), scb(scalar.New()), scb(scalar.New().One()), scb(scalar.NewFromUint64(3).Zero()))
	for w := uint(6); w <= 8; w++ {
		rc.out("scalar.ToRadix2wSizeHint", []byte{byte(scalar.ToRadix2wSizeHint(w))})
	}
}

func workField(rc *recorder, rng *rand.Rand, scale int) {
	fe := func(b []byte) *field.Element { var f field.Element; f.SetBytes(b); return &f }
	specials := [][]byte{make([]byte, 32), ref.LE32(big.NewInt(1)), ref.LE32(new(big.Int).Sub(ref.P, big.NewInt(1))), ref.LE32(ref.P), ref.LE32(ref.SqrtM1), bytes.Repeat([]byte{0xff}, 32)}
	for i := 0; i < cnt(300, scale); i++ {
		ab, bbs := mon.Bytes(rng, 32), mon.Bytes(rng, 32)
		if i%5 == 0 {
			ab = specials[rng.IntN(len(specials))]
		}
		if i%7 == 0 {
			bbs = specials[rng.IntN(len(specials))]
		}
		a, b := fe(ab), fe(bbs)
		var o field.Element
		rc.out("field.Add", feb(o.Add(a, b)))
		rc.out("field.Sub", feb(o.Sub(a, b)))
		rc.out("field.Neg", feb(o.Neg(a)))
		rc.out("field.Mul", feb(o.Mul(a, b)))
		rc.out("field.Square", feb(o.Square(a)))
		rc.out("field.Square2", feb(o.Square2(a)))
		rc.out("field.Pow2k", feb(o.Pow2k(a, uint(1+i%9))))
		rc.out("field.Mul121666", feb(o.Mul121666(a)))
		rc.out("field.Invert", feb(o.Invert(a)))
		_, fl := o.SqrtRatioI(a, b)
		rc.out("field.SqrtRatioI", feb(&o), []byte{byte(fl)})
		o.Set(a)
		_, fl = o.InvSqrt()
		rc.out("field.InvSqrt", feb(&o), []byte{byte(fl)})
		rc.out("field.predicates", []byte{byte(a.IsNegative()), byte(a.IsZero()), byte(a.Equal(b))})
		o.ConditionalSelect(a, b, i&1)
		rc.out("field.ConditionalSelect", feb(&o))
		x, y := *a, *b
		x.ConditionalSwap(&y, i&1)
		rc.out("field.ConditionalSwap", feb(&x), feb(&y))
		x.ConditionalAssign(&y, (i>>1)&1)
		rc.out("field.ConditionalAssign", feb(&x))
		x.ConditionalNegate(i & 1)
		rc.out("field.ConditionalNegate", feb(&x))
		// sums as the library forms them
		var s field.Element
		s.Add(a, b)
		s.Add(&s, a)
		rc.out("field.Mul(sum)", feb(o.Mul(&s, &s)))
		var w field.Element
		w.SetBytesWide(append(append([]byte{}, ab...), bbs...))
		rc.out("field.SetBytesWide", feb(&w))
	}
	var es []*field.Element
	for i := 0; i < 9; i++ {
		es = append(es, fe(specials[i%len(specials)]))
		es = append(es, fe(mon.Bytes(rng, 32)))
	}
	field.BatchInvert(es)
	var parts [][]byte
	for _, e := range es {
		parts = append(parts, feb(e))
	}
	rc.out("field.BatchInvert", parts...)
	var one, mone, z field.Element
	rc.out("field.constants", feb(&field.One), feb(&field.MinusOne), feb(&field.Two), feb(&field.SQRT_M1), feb(one.One()), feb(mone.MinusOne()), feb(z.Zero()))
}

func workCurve(rc *recorder, rng *rand.Rand, scale int) {
	cat := gen.ScalarCatalogue()
	sc := func(v *big.Int) *scalar.Scalar { s, _ := scalar.NewFromBits(ref.LE32(v)); return s }
	pool := gen.PointPool(rng, 12)
	// decoding
	strs := gen.SpecialEncodings()
	for i := 0; i < cnt(200, scale); i++ {
		strs = append(strs, mon.Bytes(rng, 32))
	}
	for _, b := range strs {
		var c curve.CompressedEdwardsY
		c.SetBytes(b)
		p, err := curve.NewEdwardsPoint().SetCompressedY(&c)
		if err == nil {
			rc.out("EdwardsPoint.SetCompressedY", encE(p), bb(p.IsSmallOrder()), bb(p.IsTorsionFree()), bb(p.IsIdentity()))
			var m curve.MontgomeryPoint
			m.SetEdwards(p)
			rc.out("MontgomeryPoint.SetEdwards", m[:])
		} else {
			rc.out("EdwardsPoint.SetCompressedY", []byte("err"))
		}
		rc.out("CompressedEdwardsY.IsCanonicalVartime", bb(c.IsCanonicalVartime()))
		rc.out("EdwardsPoint.UnmarshalBinary", be(curve.NewEdwardsPoint().UnmarshalBinary(b)))
		var cu curve.CompressedEdwardsY
		rc.out("CompressedEdwardsY.UnmarshalBinary", be(cu.UnmarshalBinary(b)), cu[:])
		nc, nerr := curve.NewCompressedEdwardsYFromBytes(b)
		rc.out("NewCompressedEdwardsYFromBytes", be(nerr), bb(nc != nil))
		var cru curve.CompressedRistretto
		rc.out("CompressedRistretto.UnmarshalBinary", be(cru.UnmarshalBinary(b)), cru[:])
		var cr curve.CompressedRistretto
		cr.SetBytes(b)
		rp, err := curve.NewRistrettoPoint().SetCompressed(&cr)
		if err == nil {
			rc.out("RistrettoPoint.SetCompressed", encR(rp))
		} else {
			rc.out("RistrettoPoint.SetCompressed", []byte("err"))
		}
		rc.out("RistrettoPoint.UnmarshalBinary", be(curve.NewRistrettoPoint().UnmarshalBinary(b)))
		for sign := uint8(0); sign < 2; sign++ {
			var m curve.MontgomeryPoint
			copy(m[:], b)
			ep, err := curve.NewEdwardsPoint().SetMontgomery(&m, sign)
			if err == nil {
				rc.out("EdwardsPoint.SetMontgomery", encE(ep))
			} else {
				rc.out("EdwardsPoint.SetMontgomery", []byte("err"))
			}
		}
	}
	for i := 0; i < cnt(60, scale); i++ {
		u := mon.Bytes(rng, 64)
		rp, _ := curve.NewRistrettoPoint().SetUniformBytes(u)
		rc.out("RistrettoPoint.SetUniformBytes", encR(rp))
		rp2, _ := curve.NewRistrettoPoint().SetRandom(bytes.NewReader(u))
		rc.out("RistrettoPoint.SetRandom", encR(rp2))
	}
	// group law and multiplications
	for i := 0; i < cnt(80, scale); i++ {
		P, Q := pool[rng.IntN(len(pool))], pool[rng.IntN(len(pool))]
		s, s2 := sc(gen.RandScalar(rng, cat)), sc(gen.RandScalar(rng, cat))
		rc.out("EdwardsPoint.Add", encE(curve.NewEdwardsPoint().Add(P.Lib, Q.Lib)))
		rc.out("EdwardsPoint.Sub", encE(curve.NewEdwardsPoint().Sub(P.Lib, Q.Lib)))
		rc.out("EdwardsPoint.Neg", encE(curve.NewEdwardsPoint().Neg(P.Lib)))
		rc.out("EdwardsPoint.MulByCofactor", encE(curve.NewEdwardsPoint().MulByCofactor(P.Lib)))
		rc.out("EdwardsPoint.Sum", encE(curve.NewEdwardsPoint().Sum([]*curve.EdwardsPoint{P.Lib, Q.Lib, P.Lib})))
		rc.out("EdwardsPoint.Equal", []byte{byte(P.Lib.Equal(Q.Lib))})
		t := curve.NewEdwardsPoint()
		t.ConditionalSelect(P.Lib, Q.Lib, i&1)
		rc.out("EdwardsPoint.ConditionalSelect", encE(t))
		rc.out("EdwardsPoint.Mul", encE(curve.NewEdwardsPoint().Mul(P.Lib, s)))
		rc.out("EdwardsPoint.MulBasepoint", encE(curve.NewEdwardsPoint().MulBasepoint(curve.ED25519_BASEPOINT_TABLE, s)))
		rc.out("EdwardsPoint.DoubleScalarMulBasepointVartime", encE(curve.NewEdwardsPoint().DoubleScalarMulBasepointVartime(s, P.Lib, s2)))
		rc.out("EdwardsPoint.ExpandedDoubleScalarMulBasepointVartime", encE(curve.NewEdwardsPoint().ExpandedDoubleScalarMulBasepointVartime(s, P.Exp, s2)))
		t3 := curve.NewEdwardsPoint().TripleScalarMulBasepointVartime(s, P.Lib, s2, Q.Lib)
		rc.out("EdwardsPoint.TripleScalarMulBasepointVartime", bb(t3.IsSmallOrder()), encE(t3)) // the bytes too: a caller can look at them
		t3 = curve.NewEdwardsPoint().ExpandedTripleScalarMulBasepointVartime(s, P.Exp, s2, Q.Lib)
		rc.out("EdwardsPoint.ExpandedTripleScalarMulBasepointVartime", bb(t3.IsSmallOrder()), encE(t3))
		rc.out("EdwardsPoint.SetExpanded/Point", encE(curve.NewEdwardsPoint().SetExpanded(P.Exp)), encE(P.Exp.Point()))
		// an expansion re-targeted to another point while a value copy of it is still in use: the same history in every
		// configuration must give the same bytes
		{
			xp := curve.NewExpandedEdwardsPoint(P.Lib)
			cp := *xp
			xp.SetEdwardsPoint(Q.Lib)
			rc.out("ExpandedEdwardsPoint.SetEdwardsPoint(re-target)/ExpandedDoubleScalarMulBasepointVartime", encE(curve.NewEdwardsPoint().ExpandedDoubleScalarMulBasepointVartime(s, xp, s2)), encE(curve.NewEdwardsPoint().ExpandedDoubleScalarMulBasepointVartime(s, &cp, s2)))
			rc.out("ExpandedEdwardsPoint.SetEdwardsPoint(re-target)/ExpandedMultiscalarMulVartime", encE(curve.NewEdwardsPoint().ExpandedMultiscalarMulVartime([]*scalar.Scalar{s, s2}, []*curve.ExpandedEdwardsPoint{xp, &cp}, nil, nil)))
			rc.out("ExpandedEdwardsPoint.SetEdwardsPoint(re-target)/Point", encE(xp.Point()), encE(cp.Point()))
		}
		// receivers that alias an operand, and the exported constant objects as operands
		acc := curve.NewEdwardsPoint().Set(P.Lib)
		rc.out("EdwardsPoint.MultiscalarMul(aliased)", encE(acc.MultiscalarMul([]*scalar.Scalar{s, s2}, []*curve.EdwardsPoint{acc, Q.Lib})))
		acc = curve.NewEdwardsPoint().Set(P.Lib)
		rc.out("EdwardsPoint.MultiscalarMulVartime(aliased)", encE(acc.MultiscalarMulVartime([]*scalar.Scalar{s, s2}, []*curve.EdwardsPoint{Q.Lib, acc})))
		acc = curve.NewEdwardsPoint().Set(P.Lib)
		rc.out("EdwardsPoint.DoubleScalarMulBasepointVartime(aliased)", encE(acc.DoubleScalarMulBasepointVartime(s, acc, s2)))
		acc = curve.NewEdwardsPoint().Set(P.Lib)
		rc.out("EdwardsPoint.TripleScalarMulBasepointVartime(aliased)", bb(acc.TripleScalarMulBasepointVartime(s, acc, s2, Q.Lib).IsSmallOrder()))
		acc = curve.NewEdwardsPoint().Set(P.Lib)
		rc.out("EdwardsPoint.Add/Sub/Neg/Mul(aliased)", encE(acc.Add(acc, acc)), encE(acc.Sub(acc, Q.Lib)), encE(acc.Neg(acc)), encE(acc.Mul(acc, s)), encE(acc.MulByCofactor(acc)), encE(acc.Sum([]*curve.EdwardsPoint{acc, acc})))
		tp := curve.EIGHT_TORSION[i%8]
		rc.out("EIGHT_TORSION as operand", encE(curve.NewEdwardsPoint().Add(P.Lib, tp)), encE(curve.NewEdwardsPoint().Sub(tp, Q.Lib)), encE(curve.NewEdwardsPoint().Mul(tp, s)), encE(curve.NewEdwardsPoint().Add(curve.ED25519_BASEPOINT_POINT, tp)), encE(curve.NewEdwardsPoint().MultiscalarMul([]*scalar.Scalar{s, s2}, []*curve.EdwardsPoint{tp, curve.ED25519_BASEPOINT_POINT})))
		rc.out("RISTRETTO_BASEPOINT_POINT as operand", encR(curve.NewRistrettoPoint().Add(curve.RISTRETTO_BASEPOINT_POINT, curve.RISTRETTO_BASEPOINT_POINT)), encR(curve.NewRistrettoPoint().Mul(curve.RISTRETTO_BASEPOINT_POINT, s)))
		var m, mo curve.MontgomeryPoint
		m.SetEdwards(P.Lib)
		mo.Mul(&m, s)
		rc.out("MontgomeryPoint.Mul", mo[:], []byte{byte(m.Equal(&mo))})
		if i%8 == 0 {
			tbl := curve.NewEdwardsBasepointTable(P.Lib)
			rc.out("NewEdwardsBasepointTable", encE(tbl.Basepoint()), encE(curve.NewEdwardsPoint().MulBasepoint(tbl, s)))
			// what an accessor hands out is the caller's: used as a receiver, then the accessor is asked again
			bp := tbl.Basepoint()
			bp.Add(bp, bp)
			bp2 := curve.ED25519_BASEPOINT_TABLE.Basepoint()
			bp2.Neg(bp2)
			rc.out("EdwardsBasepointTable.Basepoint(after the previous result was overwritten)", encE(tbl.Basepoint()), encE(curve.ED25519_BASEPOINT_TABLE.Basepoint()), encR(curve.RISTRETTO_BASEPOINT_TABLE.Basepoint()))
		}
		var c1, c2 curve.CompressedEdwardsY
		c1.SetEdwardsPoint(P.Lib)
		c2.SetEdwardsPoint(Q.Lib)
		rc.out("CompressedEdwardsY.SetEdwardsPoint/Equal", c1[:], []byte{byte(c1.Equal(&c2))})
		if P.K != nil && P.J%2 == 0 && Q.K != nil && Q.J%2 == 0 {
			var cp, cq curve.CompressedRistretto
			cp.SetBytes(ref.RistrettoEncode(ref.B.Mul(P.K)))
			cq.SetBytes(ref.RistrettoEncode(ref.B.Mul(Q.K)))
			rp, e1 := curve.NewRistrettoPoint().SetCompressed(&cp)
			rq, e2 := curve.NewRistrettoPoint().SetCompressed(&cq)
			if e1 == nil && e2 == nil {
				rc.out("RistrettoPoint.Add", encR(curve.NewRistrettoPoint().Add(rp, rq)))
				rc.out("RistrettoPoint.Sub", encR(curve.NewRistrettoPoint().Sub(rp, rq)))
				rc.out("RistrettoPoint.Neg", encR(curve.NewRistrettoPoint().Neg(rp)))
				rc.out("RistrettoPoint.Sum", encR(curve.NewRistrettoPoint().Sum([]*curve.RistrettoPoint{rp, rq, rq})))
				rc.out("RistrettoPoint.Mul", encR(curve.NewRistrettoPoint().Mul(rp, s)))
				rc.out("RistrettoPoint.MulBasepoint", encR(curve.NewRistrettoPoint().MulBasepoint(curve.RISTRETTO_BASEPOINT_TABLE, s)))
				rc.out("RistrettoPoint.DoubleScalarMulBasepointVartime", encR(curve.NewRistrettoPoint().DoubleScalarMulBasepointVartime(s, rp, s2)))
				rc.out("RistrettoPoint.TripleScalarMulBasepointVartime", encR(curve.NewRistrettoPoint().TripleScalarMulBasepointVartime(s, rp, s2, rq)))
				ex := curve.NewExpandedRistrettoPoint(rp)
				rc.out("RistrettoPoint.ExpandedDoubleScalarMulBasepointVartime", encR(curve.NewRistrettoPoint().ExpandedDoubleScalarMulBasepointVartime(s, ex, s2)))
				rc.out("RistrettoPoint.ExpandedTripleScalarMulBasepointVartime", encR(curve.NewRistrettoPoint().ExpandedTripleScalarMulBasepointVartime(s, ex, s2, rq)))
				rc.out("RistrettoPoint.SetExpanded/Point", encR(curve.NewRistrettoPoint().SetExpanded(ex)), encR(ex.Point()))
				rc.out("RistrettoPoint.Equal/IsIdentity", []byte{byte(rp.Equal(rq))}, bb(rp.IsIdentity()))
				rt := curve.NewRistrettoPoint()
				rt.ConditionalSelect(rp, rq, i&1)
				rc.out("RistrettoPoint.ConditionalSelect", encR(rt))
				rc.out("RistrettoPoint.MultiscalarMul", encR(curve.NewRistrettoPoint().MultiscalarMul([]*scalar.Scalar{s, s2}, []*curve.RistrettoPoint{rp, rq})))
				rc.out("RistrettoPoint.MultiscalarMulVartime", encR(curve.NewRistrettoPoint().MultiscalarMulVartime([]*scalar.Scalar{s, s2}, []*curve.RistrettoPoint{rp, rq})))
				rc.out("RistrettoPoint.ExpandedMultiscalarMulVartime", encR(curve.NewRistrettoPoint().ExpandedMultiscalarMulVartime([]*scalar.Scalar{s}, []*curve.ExpandedRistrettoPoint{ex}, []*scalar.Scalar{s2}, []*curve.RistrettoPoint{rq})))
				if i%8 == 0 {
					rt := curve.NewRistrettoBasepointTable(rp)
					rc.out("NewRistrettoBasepointTable", encR(rt.Basepoint()), encR(curve.NewRistrettoPoint().MulBasepoint(rt, s)))
				}
				var k1, k2 curve.CompressedRistretto
				k1.SetRistrettoPoint(rp)
				k2.SetRistrettoPoint(rq)
				rc.out("CompressedRistretto.SetRistrettoPoint/Equal", k1[:], []byte{byte(k1.Equal(&k2))})
			}
		}
	}
	sizes := []int{0, 1, 2, 3, 8, 95, 189, 190, 191, 500}
	if Light {
		sizes = []int{0, 1, 3, 95, 190}
	} else if scale > 1 {
		sizes = append(sizes, 499, 501, 799, 800, 801)
	} else {
		sizes = append(sizes, 800)
	}
	for _, n := range sizes {
		var ss []*scalar.Scalar
		var ps []*curve.EdwardsPoint
		var xs []*curve.ExpandedEdwardsPoint
		for i := 0; i < n; i++ {
			e := pool[rng.IntN(len(pool))]
			ss = append(ss, sc(gen.RandScalar(rng, cat)))
			ps = append(ps, e.Lib)
			xs = append(xs, e.Exp)
		}
		rc.out("EdwardsPoint.MultiscalarMulVartime", encE(curve.NewEdwardsPoint().MultiscalarMulVartime(ss, ps)))
		if n <= 200 {
			rc.out("EdwardsPoint.MultiscalarMul", encE(curve.NewEdwardsPoint().MultiscalarMul(ss, ps)))
		}
		h := n / 3
		rc.out("EdwardsPoint.ExpandedMultiscalarMulVartime", encE(curve.NewEdwardsPoint().ExpandedMultiscalarMulVartime(ss[:h], xs[:h], ss[h:], ps[h:])))
	}
	// special coefficient x special point, deterministically: the coefficients that "mean" something in the group (0, +-1,
	// +-2, the cofactor and its negative, 2^252, L+1) on every point of the pool that is not of prime order (torsion,
	// mixed order) and a few that are, in two- and three-term products through every multiscalar entry point
	{
		spec := []*big.Int{big.NewInt(0), big.NewInt(1), big.NewInt(2), big.NewInt(8), new(big.Int).Sub(ref.L, big.NewInt(1)), new(big.Int).Sub(ref.L, big.NewInt(2)), new(big.Int).Sub(ref.L, big.NewInt(8)), new(big.Int).Add(ref.L, big.NewInt(1)), new(big.Int).Lsh(big.NewInt(1), 252)}
		step := 1
		if Light {
			step = 3
		}
		for pi := 0; pi < len(pool); pi += step {
			e := pool[pi]
			q := pool[(pi*7+3)%len(pool)]
			for si, sv := range spec {
				s1, s2 := sc(sv), sc(spec[(si+pi)%len(spec)])
				s3 := sc(gen.RandScalar(rng, cat))
				rc.out("multiscalar(special coefficient, special point)",
					encE(curve.NewEdwardsPoint().MultiscalarMulVartime([]*scalar.Scalar{s1, s3}, []*curve.EdwardsPoint{e.Lib, q.Lib})),
					encE(curve.NewEdwardsPoint().MultiscalarMulVartime([]*scalar.Scalar{s3, s2, s1}, []*curve.EdwardsPoint{q.Lib, e.Lib, e.Lib})),
					encE(curve.NewEdwardsPoint().MultiscalarMul([]*scalar.Scalar{s1, s3}, []*curve.EdwardsPoint{e.Lib, q.Lib})),
					encE(curve.NewEdwardsPoint().ExpandedMultiscalarMulVartime([]*scalar.Scalar{s1}, []*curve.ExpandedEdwardsPoint{e.Exp}, []*scalar.Scalar{s2}, []*curve.EdwardsPoint{e.Lib})),
					encE(curve.NewEdwardsPoint().DoubleScalarMulBasepointVartime(s1, e.Lib, s2)),
					encE(curve.NewEdwardsPoint().Mul(e.Lib, s1)))
			}
		}
	}
	rc.do("EdwardsPoint.MultiscalarMul(len mismatch)", func() { curve.NewEdwardsPoint().MultiscalarMul([]*scalar.Scalar{scalar.One()}, nil) })
	parts := [][]byte{curve.ED25519_BASEPOINT_COMPRESSED[:], encE(curve.ED25519_BASEPOINT_POINT), curve.X25519_BASEPOINT[:], curve.RISTRETTO_BASEPOINT_COMPRESSED[:], encR(curve.RISTRETTO_BASEPOINT_POINT), encE(curve.ED25519_BASEPOINT_TABLE.Basepoint()), encR(curve.RISTRETTO_BASEPOINT_TABLE.Basepoint())}
	for _, t := range curve.EIGHT_TORSION {
		parts = append(parts, encE(t))
	}
	parts = append(parts, encE(curve.NewEdwardsPoint()), encR(curve.NewRistrettoPoint()), curve.NewCompressedEdwardsY()[:], curve.NewCompressedRistretto()[:], curve.NewMontgomeryPoint()[:])
	rc.out("curve.constants", parts...)
}

func edOpts(c gen.EdCase, fl int) *ed25519.Options {
	f := ref.FlagsFromBits(fl)
	o := &ed25519.Options{Context: string(mon.UnHex(c.Ctx)), Verify: &ed25519.VerifyOptions{AllowSmallOrderA: f.SmallA, AllowSmallOrderR: f.SmallR, AllowNonCanonicalA: f.NonCanonA, AllowNonCanonicalR: f.NonCanonR, CofactorlessVerify: f.Cofactorless}}
	if c.Variant == 2 {
		o.Hash = crypto.SHA512
	}
	return o
}

func workEd25519(rc *recorder, rng *rand.Rand, scale int) {
	cases := gen.EdFamilies(rng, cnt(3, scale), cnt(40, scale))
	lru := cache.NewVerifier(cache.NewLRUCache(3))
	bv := ed25519.NewBatchVerifier()
	nb := 0
	for _, c := range cases {
		pk, msg, sig := mon.UnHex(c.PK), mon.UnHex(c.Msg), mon.UnHex(c.Sig)
		exp, err := ed25519.NewExpandedPublicKey(pk)
		rc.out("ed25519.NewExpandedPublicKey", be(err))
		for fl := 0; fl < 32; fl++ {
			o := edOpts(c, fl)
			rc.do("ed25519.VerifyWithOptions", func() { rc.out("ed25519.VerifyWithOptions", bb(ed25519.VerifyWithOptions(pk, msg, sig, o))) })
			if exp != nil {
				rc.do("ed25519.VerifyExpandedWithOptions", func() {
					rc.out("ed25519.VerifyExpandedWithOptions", bb(ed25519.VerifyExpandedWithOptions(exp, msg, sig, o)))
				})
			}
			if fl%5 == 2 {
				rc.do("cache.VerifyWithOptions", func() { rc.out("cache.VerifyWithOptions", bb(lru.VerifyWithOptions(pk, msg, sig, o))) })
				if fl < 16 {
					bv.AddWithOptions(pk, msg, sig, o)
					if exp != nil {
						bv.AddExpandedWithOptions(exp, msg, sig, o)
					}
					lru.AddWithOptions(bv, pk, msg, sig, o)
					nb++
				}
			}
		}
		if c.Variant == 0 && len(pk) == 32 {
			rc.out("ed25519.Verify", bb(ed25519.Verify(pk, msg, sig)))
			rc.out("cache.Verify", bb(lru.Verify(pk, msg, sig)))
			lru.Add(bv, pk, msg, sig)
			nb++
			if exp != nil {
				rc.out("ed25519.VerifyExpanded", bb(ed25519.VerifyExpanded(exp, msg, sig)))
				y := exp.CompressedY()
				rc.out("ExpandedPublicKey.CompressedY", y[:])
			}
		}
		if nb >= 60 {
			all, bits := bv.Verify(zeroes{})
			parts := [][]byte{bb(all)}
			for _, b := range bits {
				parts = append(parts, bb(b))
			}
			rc.out("ed25519.BatchVerifier.Verify", parts...)
			rc.out("ed25519.BatchVerifier.VerifyBatchOnly", bb(bv.VerifyBatchOnly(zeroes{})))
			bv.Reset()
			nb = 0
		}
	}
	// all-valid batches at the expansion / Pippenger limits
	batchSizes := []int{1, 64, 94, 95, 190}
	if Light {
		batchSizes = []int{1, 5, 95}
	}
	for _, n := range batchSizes {
		b2 := ed25519.NewBatchVerifierWithCapacity(n)
		if n == 64 {
			b2.ForceNoPublicKeyExpansion()
		}
		for i := 0; i < n; i++ {
			priv := ed25519.NewKeyFromSeed(mon.Bytes(rng, 32))
			m := mon.Bytes(rng, i%50)
			if i%2 == 0 {
				b2.Add(priv.Public().(ed25519.PublicKey), m, ed25519.Sign(priv, m))
			} else {
				x, _ := ed25519.NewExpandedPublicKey(priv.Public().(ed25519.PublicKey))
				b2.AddExpanded(x, m, ed25519.Sign(priv, m))
			}
		}
		all, bits := b2.Verify(stream{rng})
		rc.out("ed25519.BatchVerifier(all valid)", bb(all), []byte{byte(len(bits))}, bb(b2.VerifyBatchOnly(stream{rng})))
	}
	// key generation and signing
	for i := 0; i < cnt(30, scale); i++ {
		seed := mon.Bytes(rng, 32)
		priv := ed25519.NewKeyFromSeed(seed)
		rc.out("ed25519.NewKeyFromSeed", priv, priv.Seed(), priv.Public().(ed25519.PublicKey))
		pub, priv2, err := ed25519.GenerateKey(bytes.NewReader(seed))
		rc.out("ed25519.GenerateKey", pub, priv2, be(err), bb(priv.Equal(priv2)), bb(pub.Equal(priv.Public())))
		m := mon.Bytes(rng, []int{0, 1, 64, 111, 112, 200}[i%6])
		rc.out("ed25519.Sign", ed25519.Sign(priv, m))
		h := sha512.Sum512(m)
		for _, o := range []*ed25519.Options{{}, {Context: "ctx"}, {Hash: crypto.SHA512}, {Hash: crypto.SHA512, Context: string(mon.Bytes(rng, 255))}, {AddedRandomness: true}, {SelfVerify: true, Verify: ed25519.VerifyOptionsStdLib}, {SelfVerify: true, AddedRandomness: true, Verify: ed25519.VerifyOptionsZIP_215}, {Hash: crypto.SHA256}, {Context: string(make([]byte, 256))}} {
			mm := m
			if o.Hash == crypto.SHA512 {
				mm = h[:]
			}
			s, err := priv.Sign(zeroes{}, mm, o)
			rc.out("ed25519.PrivateKey.Sign", s, be(err))
		}
		rc.out("x25519.EdPrivateKeyToX25519", x25519.EdPrivateKeyToX25519(priv))
		xp, ok := x25519.EdPublicKeyToX25519(priv.Public().(ed25519.PublicKey))
		rc.out("x25519.EdPublicKeyToX25519", xp, bb(ok))
	}
	lru.AddPublicKey(mon.Bytes(rng, 32))
	rc.out("ed25519.presets", bb(ed25519.VerifyOptionsDefault.AllowSmallOrderR), bb(ed25519.VerifyOptionsStdLib.CofactorlessVerify), bb(ed25519.VerifyOptionsFIPS_186_5.AllowSmallOrderA), bb(ed25519.VerifyOptionsZIP_215.AllowNonCanonicalR))
}

func workX25519(rc *recorder, rng *rand.Rand, scale int) {
	us := gen.SpecialEncodings()
	for e := int64(-3); e < 19; e++ {
		us = append(us, ref.LE32(new(big.Int).Add(ref.P, big.NewInt(e))))
	}
	for i := 0; i < cnt(100, scale); i++ {
		us = append(us, mon.Bytes(rng, 32))
	}
	for i := 0; i < cnt(60, scale); i++ {
		us = append(us, gen.LadderFirstStepU(rng)) // word-boundary carries in the ladder's multiply-by-121666
	}
	for i, u := range us {
		k := mon.Bytes(rng, 32)
		if i%9 == 0 {
			k = bytes.Repeat([]byte{byte(i)}, 32)
		}
		out, err := x25519.X25519(k, u)
		rc.out("x25519.X25519", out, be(err))
		var dst, kk, uu [32]byte
		copy(kk[:], k)
		copy(uu[:], u)
		x25519.ScalarMult(&dst, &kk, &uu)
		rc.out("x25519.ScalarMult", dst[:])
		x25519.ScalarBaseMult(&dst, &kk)
		rc.out("x25519.ScalarBaseMult", dst[:])
		b, err := x25519.X25519(k, x25519.Basepoint)
		rc.out("x25519.X25519(Basepoint)", b, be(err))
		priv := x25519.PrivateKey(kk)
		pub := x25519.PublicKey(uu)
		ss := priv.DiffieHellman(&pub)
		rc.out("x25519.DiffieHellman", ss[:], bb(ss.IsZero()), priv.Public()[:])
		if i%10 == 0 {
			pk, sk, err := x25519.GenerateKey(bytes.NewReader(k))
			rc.out("x25519.GenerateKey", pk[:], sk[:], be(err))
			sk2, err := x25519.GeneratePrivateKey(bytes.NewReader(u))
			rc.out("x25519.GeneratePrivateKey", sk2[:], be(err))
		}
	}
}

func workEcvrf(rc *recorder, rng *rand.Rand, scale int) {
	for i := 0; i < cnt(8, scale); i++ {
		priv := ed25519.NewKeyFromSeed(mon.Bytes(rng, 32))
		pub := priv.Public().(ed25519.PublicKey)
		alpha := mon.Bytes(rng, []int{0, 1, 72, 300}[i%4])
		pi := ecvrf.Prove(priv, alpha)
		pi10 := ecvrf.Prove_v10(priv, alpha)
		rc.out("ecvrf.Prove", pi)
		rc.out("ecvrf.Prove_v10", pi10)
		pr, err := ecvrf.ProveWithAddedRandomness(zeroes{}, priv, alpha)
		rc.out("ecvrf.ProveWithAddedRandomness", pr, be(err))
		pr10, err := ecvrf.ProveWithAddedRandomness_v10(zeroes{}, priv, alpha)
		rc.out("ecvrf.ProveWithAddedRandomness_v10", pr10, be(err))
		ok, beta := ecvrf.Verify(pub, pi, alpha)
		rc.out("ecvrf.Verify", bb(ok), beta)
		ok, beta = ecvrf.Verify_v10(pub, pi10, alpha)
		rc.out("ecvrf.Verify_v10", bb(ok), beta)
		h, err := ecvrf.ProofToHash(pi)
		rc.out("ecvrf.ProofToHash", h, be(err))
		for j := 0; j < 12; j++ {
			p2 := append([]byte{}, pi...)
			p2[rng.IntN(80)] ^= 1 << uint(rng.IntN(8))
			ok, beta := ecvrf.Verify(pub, p2, alpha)
			rc.out("ecvrf.Verify(mutated)", bb(ok), beta)
			h, err := ecvrf.ProofToHash(p2)
			rc.out("ecvrf.ProofToHash(mutated)", h, be(err))
		}
		for _, e := range gen.SpecialEncodings()[:20] {
			ok, _ := ecvrf.Verify(e, pi, alpha)
			rc.out("ecvrf.Verify(special key)", bb(ok))
		}
	}
}

func workSr25519(rc *recorder, rng *rand.Rand, scale int) {
	bv := sr25519.NewBatchVerifierWithCapacity(4)
	for i := 0; i < cnt(16, scale); i++ {
		mb := mon.Bytes(rng, 32)
		msk, err := sr25519.NewMiniSecretKeyFromBytes(mb)
		mmb, _ := msk.MarshalBinary()
		rc.out("sr25519.NewMiniSecretKeyFromBytes", be(err), mmb)
		var sk *sr25519.SecretKey
		if i%2 == 0 {
			sk = msk.ExpandUniform()
		} else {
			sk = msk.ExpandEd25519()
		}
		skb, _ := sk.MarshalBinary()
		kp := sk.KeyPair()
		pkb, _ := kp.PublicKey().MarshalBinary()
		kpb, _ := kp.MarshalBinary()
		rc.out("sr25519.Expand/KeyPair", skb, pkb, kpb)
		ctx := sr25519.NewSigningContext(mon.Bytes(rng, i%30))
		msg := mon.Bytes(rng, []int{0, 1, 60, 133, 166, 400}[i%6])
		var st *sr25519.SigningTranscript
		switch i % 4 {
		case 0, 1:
			st = ctx.NewTranscriptBytes(msg)
		case 2:
			h := sha512.New()
			h.Write(msg)
			st = ctx.NewTranscriptHash(h)
		default:
			x := sha3.NewShake256()
			x.Write(msg)
			st = ctx.NewTranscriptXOF(x)
		}
		sig, err := kp.Sign(zeroes{}, st)
		sigb, _ := sig.MarshalBinary()
		rc.out("sr25519.KeyPair.Sign", sigb, be(err))
		rc.out("sr25519.PublicKey.Verify", bb(kp.PublicKey().Verify(st, sig)))
		bv.Add(kp.PublicKey(), st, sig)
		for j := 0; j < 8; j++ {
			s2 := append([]byte{}, sigb...)
			s2[rng.IntN(64)] ^= 1 << uint(rng.IntN(8))
			sg, err := sr25519.NewSignatureFromBytes(s2)
			if err == nil {
				rc.out("sr25519.Verify(mutated)", bb(kp.PublicKey().Verify(st, sg)))
				bv.Add(kp.PublicKey(), st, sg)
			} else {
				rc.out("sr25519.NewSignatureFromBytes(mutated)", []byte("err"))
			}
		}
		_, e1 := sr25519.NewSecretKeyFromBytes(skb)
		_, e2 := sr25519.NewPublicKeyFromBytes(pkb)
		_, e3 := sr25519.NewKeyPairFromBytes(kpb)
		kpb[95] ^= 2
		_, e4 := sr25519.NewKeyPairFromBytes(kpb)
		_, e5 := sr25519.NewPublicKeyFromBytes(mb)
		rc.out("sr25519.decoders", be(e1), be(e2), be(e3), be(e4), be(e5), bb(sk.Equal(kp.SecretKey())), bb(msk.Equal(msk)))
		gk, err := sr25519.GenerateKeyPair(bytes.NewReader(append(mon.Bytes(rng, 64), mb...)))
		if err == nil {
			gb, _ := gk.MarshalBinary()
			rc.out("sr25519.GenerateKeyPair", gb)
		}
		gm, err := sr25519.GenerateMiniSecretKey(bytes.NewReader(mb))
		if err == nil {
			rc.out("sr25519.GenerateMiniSecretKey", gm[:])
		}
		h := sha512.Sum512(mb)
		h[0] &= 248
		h[31] &= 63
		h[31] |= 64
		es, err := sr25519.NewSecretKeyFromEd25519Bytes(h[:])
		if err == nil {
			eb, _ := es.MarshalBinary()
			rc.out("sr25519.NewSecretKeyFromEd25519Bytes", eb)
		}
	}
	all, bits := bv.Verify(zeroes{})
	parts := [][]byte{bb(all), bb(bv.VerifyBatchOnly(zeroes{}))}
	for _, b := range bits {
		parts = append(parts, bb(b))
	}
	rc.out("sr25519.BatchVerifier", parts...)
	bv.Reset()
	a2, b2 := bv.Verify(nil)
	rc.out("sr25519.BatchVerifier(empty)", bb(a2), []byte{byte(len(b2))})
}

func workMerlinH2c(rc *recorder, rng *rand.Rand, scale int) {
	lens := []int{0, 1, 31, 32, 160, 163, 164, 165, 166, 167, 168, 331, 332, 498, 1024}
	for i := 0; i < cnt(150, scale); i++ {
		t := merlin.NewTranscript(string(mon.Bytes(rng, i%20)))
		var outs [][]byte
		for o := 0; o < 6; o++ {
			switch rng.IntN(4) {
			case 0, 1:
				t.AppendMessage(string(mon.Bytes(rng, rng.IntN(40))), mon.Bytes(rng, lens[rng.IntN(len(lens))]))
			case 2:
				d := make([]byte, lens[rng.IntN(len(lens))])
				t.ExtractBytes(d, string(mon.Bytes(rng, rng.IntN(40))))
				outs = append(outs, d)
			default:
				c := t.Clone()
				rd, err := c.BuildRng().RekeyWithWitnessBytes("w", mon.Bytes(rng, lens[rng.IntN(len(lens))])).Finalize(zeroes{})
				if err == nil {
					d := make([]byte, lens[rng.IntN(len(lens))])
					rd.Read(d)
					outs = append(outs, d)
				}
			}
		}
		d := make([]byte, 32)
		t.ExtractBytes(d, "final")
		outs = append(outs, d)
		rc.out("merlin.program", outs...)
	}
	hashes := []crypto.Hash{crypto.SHA256, crypto.SHA384, crypto.SHA512, crypto.SHA3_256}
	for i := 0; i < cnt(40, scale); i++ {
		dst, msg := mon.Bytes(rng, []int{0, 16, 255, 256, 300}[i%5]), mon.Bytes(rng, rng.IntN(200))
		hf := hashes[i%len(hashes)]
		out := make([]byte, []int{1, 32, 48, 96, 255 * 32, 255*32 + 1}[i%6])
		err := h2c.ExpandMessageXMD(out, hf, dst, msg)
		rc.out("h2c.ExpandMessageXMD", out, be(err))
		err = h2c.ExpandMessageXOF(out, sha3.NewShake128(), dst, msg)
		rc.out("h2c.ExpandMessageXOF", out, be(err))
		p, err := h2c.Edwards25519_XMD_SHA512_ELL2_RO(dst, msg)
		rc.out("h2c.Edwards25519_XMD_SHA512_ELL2_RO", encE(p), be(err))
		p, err = h2c.Edwards25519_XMD_SHA512_ELL2_NU(dst, msg)
		rc.out("h2c.Edwards25519_XMD_SHA512_ELL2_NU", encE(p), be(err))
		p, err = h2c.Edwards25519_XMD_ELL2_RO(hf, dst, msg)
		rc.out("h2c.Edwards25519_XMD_ELL2_RO", encE(p), be(err))
		p, err = h2c.Edwards25519_XMD_ELL2_NU(hf, dst, msg)
		rc.out("h2c.Edwards25519_XMD_ELL2_NU", encE(p), be(err))
		p, err = h2c.Edwards25519_XOF_ELL2_RO(sha3.NewShake128(), dst, msg)
		rc.out("h2c.Edwards25519_XOF_ELL2_RO", encE(p), be(err))
		p, err = h2c.Edwards25519_XOF_ELL2_NU(sha3.NewShake256(), dst, msg)
		rc.out("h2c.Edwards25519_XOF_ELL2_NU", encE(p), be(err))
		rp, err := h2c.Ristretto255_XMD_R255MAP_RO(hf, dst, msg)
		rc.out("h2c.Ristretto255_XMD_R255MAP_RO", encR(rp), be(err))
		rp, err = h2c.Ristretto255_XOF_R255MAP_RO(sha3.NewShake128(), dst, msg)
		rc.out("h2c.Ristretto255_XOF_R255MAP_RO", encR(rp), be(err))
	}
}

func workInternal(rc *recorder, rng *rand.Rand, scale int) {
	cat := gen.ScalarCatalogue()
	for i := 0; i < cnt(300, scale); i++ {
		var fe field.Element
		b := mon.Bytes(rng, 32)
		if i < 6 {
			b = ref.LE32(big.NewInt(int64(i-3)).Mod(big.NewInt(int64(i-3)), ref.P))
		}
		fe.SetBytes(b)
		rc.out("elligator.EdwardsFlavor", encE(elligator.EdwardsFlavor(&fe)))
		k := gen.RandScalar(rng, cat)
		s, _ := scalar.NewFromBits(ref.LE32(k))
		d0, d1 := lattice.FindShortVector(s)
		var s0, s1 scalar.Scalar
		d0.ToScalar(&s0)
		d1.ToScalar(&s1)
		rc.out("lattice.FindShortVector", scb(&s0), scb(&s1), bb(d0.IsNegative()), bb(d1.IsNegative()), scb(d0.Abs().ToScalar(&s0)))
	}
	g, err := scalar128.NewGenerator(zeroes{})
	if err == nil {
		for i := 0; i < 20; i++ {
			var s scalar.Scalar
			g.SetScalarVartime(&s)
			rc.out("scalar128.Generator", scb(&s))
		}
	}
	var raw [32]byte
	scalar128.FixRawRangeVartime(&raw)
	rc.out("scalar128.FixRawRangeVartime", raw[:])
	for i := 0; i < 64; i++ {
		a, b := byte(rng.IntN(256)), byte(rng.IntN(256))
		x, y := rng.Uint64(), rng.Uint64()
		x2, y2 := x, y
		subtle.ConstantTimeSwapUint64(i&1, &x2, &y2)
		u, v := uint32(x), uint32(y)
		subtle.ConstantTimeSwapUint32(i&1, &u, &v)
		rc.out("subtle", []byte{byte(subtle.ConstantTimeCompareByte(a, b)), byte(subtle.ConstantTimeCompareByte(a, a)), byte(subtle.ConstantTimeCompareBytes([]byte{a, b}, []byte{a, b})), subtle.ConstantTimeSelectByte(i&1, a, b)},
			[]byte(fmt.Sprint(subtle.ConstantTimeSelectUint64(i&1, x, y), x2, y2, subtle.ConstantTimeSelectUint32(i&1, uint32(x), uint32(y)), u, v)))
	}
}
