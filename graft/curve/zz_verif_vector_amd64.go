//go:build verif && amd64 && !purego && !force32bit

package curve

import (
	"github.com/oasisprotocol/curve25519-voi/curve/scalar"
	"github.com/oasisprotocol/curve25519-voi/internal/field"
)

// Vector-backend observers. Callers must check VerifVector() first (AVX2 present).

func VerifMulVector(out, p *EdwardsPoint, s *scalar.Scalar) *EdwardsPoint {
	return edwardsMulVector(out, p, s)
}

func VerifStrausVector(out *EdwardsPoint, s []*scalar.Scalar, p []*EdwardsPoint) *EdwardsPoint {
	return edwardsMultiscalarMulStrausVector(out, s, p)
}

func VerifStrausVartimeVector(out *EdwardsPoint, s []*scalar.Scalar, p []*EdwardsPoint) *EdwardsPoint {
	return edwardsMultiscalarMulStrausVartimeVector(out, s, p)
}

func VerifExpandedStrausVartimeVector(out *EdwardsPoint, ss []*scalar.Scalar, sp []*ExpandedEdwardsPoint, ds []*scalar.Scalar, dp []*EdwardsPoint) *EdwardsPoint {
	return expandedEdwardsMultiscalarMulStrausVartimeVector(out, ss, sp, ds, dp)
}

func VerifPippengerVector(out *EdwardsPoint, ss []*scalar.Scalar, sp []*EdwardsPoint, ds []*scalar.Scalar, dp []*EdwardsPoint) *EdwardsPoint {
	return edwardsMultiscalarMulPippengerVartimeVector(out, ss, sp, ds, dp)
}

func VerifDoubleBaseVector(out *EdwardsPoint, a *scalar.Scalar, A *EdwardsPoint, b *scalar.Scalar) *EdwardsPoint {
	return edwardsDoubleScalarMulBasepointVartimeVector(out, a, A, b)
}

func VerifTripleVector(out *EdwardsPoint, a *scalar.Scalar, A *EdwardsPoint, b *scalar.Scalar, C *EdwardsPoint) *EdwardsPoint {
	return edwardsMulAbglsvPorninVartimeVector(out, a, A, b, C)
}

func VerifExpandedTripleVector(out *EdwardsPoint, a *scalar.Scalar, A *ExpandedEdwardsPoint, b *scalar.Scalar, C *EdwardsPoint) *EdwardsPoint {
	return expandedEdwardsMulAbglsvPorninVartimeVector(out, a, A, b, C)
}

func VerifBasepointTableVectorMul(out, base *EdwardsPoint, s *scalar.Scalar) *EdwardsPoint {
	return newEdwardsBasepointTableVector(base).Mul(out, s)
}

// VerifLanes is the raw [5][8]uint32 content of a vector of four field elements.
type VerifLanes = [5][8]uint32

// VerifCachedToPoint converts a cachedPoint (given by its lanes) to an Edwards point (O + entry).
func VerifCachedToPoint(l *VerifLanes) *EdwardsPoint {
	var cp cachedPoint
	cp.inner.inner = *l
	var out EdwardsPoint
	return out.setCached(&cp)
}

// VerifVectorTables returns the lanes of the start-up generated tables.
func VerifVectorTables() (odd, oddShl128 [64]VerifLanes, base [32][8]VerifLanes, ok bool) {
	if !supportsVectorizedEdwards {
		return
	}
	for i := range constVECTOR_ODD_MULTIPLES_OF_BASEPOINT {
		odd[i] = constVECTOR_ODD_MULTIPLES_OF_BASEPOINT[i].inner.inner
		oddShl128[i] = constVECTOR_ODD_MULTIPLES_OF_B_SHL_128[i].inner.inner
	}
	tbl := ED25519_BASEPOINT_TABLE.innerVector
	for i := range tbl {
		for j := range tbl[i] {
			base[i][j] = tbl[i][j].inner.inner
		}
	}
	return odd, oddShl128, base, true
}

// VerifSplitLanes decodes four field elements from lanes.
func VerifSplitLanes(l *VerifLanes) (a, b, c, d field.Element) {
	var v fieldElement2625x4
	v.inner = *l
	v.Split(&a, &b, &c, &d)
	return
}

// Lane-level field operations (operands are raw lanes; results raw lanes).
func VerifVecMul(a, b *VerifLanes) VerifLanes {
	var x, y, out fieldElement2625x4
	x.inner, y.inner = *a, *b
	out.Mul(&x, &y)
	return out.inner
}

func VerifVecSquareAndNegateD(a *VerifLanes) VerifLanes {
	var x fieldElement2625x4
	x.inner = *a
	x.SquareAndNegateD()
	return x.inner
}

func VerifVecReduce(a *VerifLanes) VerifLanes {
	var x fieldElement2625x4
	x.inner = *a
	x.Reduce()
	return x.inner
}

func VerifVecNeg(a *VerifLanes) VerifLanes {
	var x fieldElement2625x4
	x.inner = *a
	x.Neg()
	return x.inner
}

func VerifVecSelect(a, b *VerifLanes, choice int) VerifLanes {
	var x, y, out fieldElement2625x4
	x.inner, y.inner = *a, *b
	out.ConditionalSelect(&x, &y, choice)
	return out.inner
}

func VerifNewLanes(a, b, c, d *field.Element) VerifLanes {
	v := newFieldElement2625x4(a, b, c, d)
	return v.inner
}

// Point-level vector steps on raw lanes.
func VerifExtDouble(p *VerifLanes) VerifLanes {
	var x, out extendedPoint
	x.inner.inner = *p
	out.Double(&x)
	return out.inner.inner
}

func VerifExtAddCached(p, c *VerifLanes, sub bool) VerifLanes {
	var x, out extendedPoint
	var cp cachedPoint
	x.inner.inner = *p
	cp.inner.inner = *c
	if sub {
		out.SubExtendedCached(&x, &cp)
	} else {
		out.AddExtendedCached(&x, &cp)
	}
	return out.inner.inner
}

func VerifCachedFromExt(p *VerifLanes) VerifLanes {
	var x extendedPoint
	var cp cachedPoint
	x.inner.inner = *p
	cp.SetExtended(&x)
	return cp.inner.inner
}

func VerifCachedCondNegate(c *VerifLanes, choice int) VerifLanes {
	var cp cachedPoint
	cp.inner.inner = *c
	cp.ConditionalNegate(choice)
	return cp.inner.inner
}

func VerifExtFromEdwards(p *EdwardsPoint) VerifLanes {
	var x extendedPoint
	x.SetEdwards(p)
	return x.inner.inner
}

func VerifExtToEdwards(l *VerifLanes) *EdwardsPoint {
	var x extendedPoint
	x.inner.inner = *l
	var out EdwardsPoint
	return out.setExtended(&x)
}
