//go:build verif

package curve

// In-package observers for the verification harness (guard tag: verif). Read/call only.

import (
	"github.com/oasisprotocol/curve25519-voi/curve/scalar"
	"github.com/oasisprotocol/curve25519-voi/internal/field"
)

// VerifCoords returns pointers to the projective coordinates of p.
func VerifCoords(p *EdwardsPoint) (X, Y, Z, T *field.Element) {
	return &p.inner.X, &p.inner.Y, &p.inner.Z, &p.inner.T
}

// VerifFromCoords builds a point from raw extended coordinates.
func VerifFromCoords(X, Y, Z, T *field.Element) *EdwardsPoint {
	return newEdwardsPoint(*X, *Y, *Z, *T)
}

func VerifRistrettoFromEdwards(p *EdwardsPoint) *RistrettoPoint {
	var r RistrettoPoint
	r.inner.Set(p)
	return &r
}

func VerifEdwardsFromRistretto(p *RistrettoPoint) *EdwardsPoint {
	var e EdwardsPoint
	e.Set(&p.inner)
	return &e
}

// VerifVector reports whether the vector backend is live in this process.
func VerifVector() bool { return supportsVectorizedEdwards }

func VerifMulGeneric(out, p *EdwardsPoint, s *scalar.Scalar) *EdwardsPoint {
	return edwardsMulGeneric(out, p, s)
}

func VerifStrausGeneric(out *EdwardsPoint, s []*scalar.Scalar, p []*EdwardsPoint) *EdwardsPoint {
	return edwardsMultiscalarMulStrausGeneric(out, s, p)
}

func VerifStrausVartimeGeneric(out *EdwardsPoint, s []*scalar.Scalar, p []*EdwardsPoint) *EdwardsPoint {
	return edwardsMultiscalarMulStrausVartimeGeneric(out, s, p)
}

func VerifExpandedStrausVartimeGeneric(out *EdwardsPoint, ss []*scalar.Scalar, sp []*ExpandedEdwardsPoint, ds []*scalar.Scalar, dp []*EdwardsPoint) *EdwardsPoint {
	return expandedEdwardsMultiscalarMulStrausVartimeGeneric(out, ss, sp, ds, dp)
}

func VerifPippengerGeneric(out *EdwardsPoint, ss []*scalar.Scalar, sp []*EdwardsPoint, ds []*scalar.Scalar, dp []*EdwardsPoint) *EdwardsPoint {
	return edwardsMultiscalarMulPippengerVartimeGeneric(out, ss, sp, ds, dp)
}

func VerifDoubleBaseGeneric(out *EdwardsPoint, a *scalar.Scalar, A *EdwardsPoint, b *scalar.Scalar) *EdwardsPoint {
	return edwardsDoubleScalarMulBasepointVartimeGeneric(out, a, A, b)
}

func VerifTripleGeneric(out *EdwardsPoint, a *scalar.Scalar, A *EdwardsPoint, b *scalar.Scalar, C *EdwardsPoint) *EdwardsPoint {
	return edwardsMulAbglsvPorninVartimeGeneric(out, a, A, b, C)
}

func VerifExpandedTripleGeneric(out *EdwardsPoint, a *scalar.Scalar, A *ExpandedEdwardsPoint, b *scalar.Scalar, C *EdwardsPoint) *EdwardsPoint {
	return expandedEdwardsMulAbglsvPorninVartimeGeneric(out, a, A, b, C)
}

func VerifBasepointTableGenericMul(out, base *EdwardsPoint, s *scalar.Scalar) *EdwardsPoint {
	return newEdwardsBasepointTableGeneric(base).Mul(out, s)
}

// VerifForceMultiscalarPippenger / Straus call the dispatching (CPU-selected) entry points irrespective of length.
func VerifPippengerDispatch(out *EdwardsPoint, s []*scalar.Scalar, p []*EdwardsPoint) *EdwardsPoint {
	return edwardsMultiscalarMulPippengerVartime(out, s, p)
}

func VerifStrausVartimeDispatch(out *EdwardsPoint, s []*scalar.Scalar, p []*EdwardsPoint) *EdwardsPoint {
	return edwardsMultiscalarMulStrausVartime(out, s, p)
}

func VerifExpandedPippengerDispatch(out *EdwardsPoint, ss []*scalar.Scalar, sp []*ExpandedEdwardsPoint, ds []*scalar.Scalar, dp []*EdwardsPoint) *EdwardsPoint {
	return expandedEdwardsMultiscalarMulPippengerVartime(out, ss, sp, ds, dp)
}

func VerifExpandedStrausDispatch(out *EdwardsPoint, ss []*scalar.Scalar, sp []*ExpandedEdwardsPoint, ds []*scalar.Scalar, dp []*EdwardsPoint) *EdwardsPoint {
	return expandedEdwardsMultiscalarMulStrausVartime(out, ss, sp, ds, dp)
}

// VerifAffineNiels is (y+x, y-x, 2dxy) of one table entry.
type VerifAffineNiels struct{ YplusX, YminusX, XY2D field.Element }

func verifAN(p *affineNielsPoint) VerifAffineNiels {
	return VerifAffineNiels{p.y_plus_x, p.y_minus_x, p.xy2d}
}

// VerifPackedBasepointTable unpacks the embedded 32x8 table afresh (the live copy is dropped when the vector backend is used).
func VerifPackedBasepointTable() [32][8]VerifAffineNiels {
	var out [32][8]VerifAffineNiels
	tbl := unpackEdwardsBasepointTable()
	for i := range tbl {
		for j := range tbl[i] {
			out[i][j] = verifAN(&tbl[i][j])
		}
	}
	return out
}

// VerifLiveBasepointTable returns the live generic table of ED25519_BASEPOINT_TABLE, if any.
func VerifLiveBasepointTable() (out [32][8]VerifAffineNiels, ok bool) {
	tbl := ED25519_BASEPOINT_TABLE.inner
	if tbl == nil {
		return out, false
	}
	for i := range tbl {
		for j := range tbl[i] {
			out[i][j] = verifAN(&tbl[i][j])
		}
	}
	return out, true
}

func VerifOddMultiples() (b, bShl128 [64]VerifAffineNiels) {
	for i := range constAFFINE_ODD_MULTIPLES_OF_BASEPOINT {
		b[i] = verifAN(&constAFFINE_ODD_MULTIPLES_OF_BASEPOINT[i])
		bShl128[i] = verifAN(&constAFFINE_ODD_MULTIPLES_OF_B_SHL_128[i])
	}
	return
}

func VerifBShl128() *EdwardsPoint { return constB_SHL_128 }

// VerifFieldConstants returns the package's field-element constants by name.
func VerifFieldConstants() map[string]*field.Element {
	return map[string]*field.Element{
		"MINUS_ONE":                  &constMINUS_ONE,
		"EDWARDS_D":                  &constEDWARDS_D,
		"EDWARDS_D2":                 &constEDWARDS_D2,
		"ONE_MINUS_EDWARDS_D_SQUARED": &constONE_MINUS_EDWARDS_D_SQUARED,
		"EDWARDS_D_MINUS_ONE_SQUARED": &constEDWARDS_D_MINUS_ONE_SQUARED,
		"SQRT_AD_MINUS_ONE":          &constSQRT_AD_MINUS_ONE,
		"INVSQRT_A_MINUS_D":          &constINVSQRT_A_MINUS_D,
	}
}

// Table lookups (constant-time ones take a signed digit, NAF ones an odd index).
type VerifLookup struct {
	pn  projectiveNielsPointLookupTable
	an  affineNielsPointLookupTable
	pnN projectiveNielsPointNafLookupTable
}

func VerifNewLookup(p *EdwardsPoint) *VerifLookup {
	return &VerifLookup{pn: newProjectiveNielsPointLookupTable(p), an: newAffineNielsPointLookupTable(p), pnN: newProjectiveNielsPointNafLookupTable(p)}
}

// VerifLookupProjective returns O + table[x] as a point.
func (l *VerifLookup) Projective(x int8) *EdwardsPoint {
	t := l.pn.Lookup(x)
	var id, out EdwardsPoint
	var sum completedPoint
	id.Identity()
	return out.setCompleted(sum.AddEdwardsProjectiveNiels(&id, &t))
}

func (l *VerifLookup) Affine(x int8) *EdwardsPoint {
	t := l.an.Lookup(x)
	var id, out EdwardsPoint
	var sum completedPoint
	id.Identity()
	return out.setCompleted(sum.AddEdwardsAffineNiels(&id, &t))
}

func (l *VerifLookup) ProjectiveNaf(x uint8) *EdwardsPoint {
	t := l.pnN.Lookup(x)
	var id, out EdwardsPoint
	var sum completedPoint
	id.Identity()
	return out.setCompleted(sum.AddEdwardsProjectiveNiels(&id, t))
}

// VerifAffineNielsToPoint converts a table entry to a point (O + entry).
func VerifAffineNielsToPoint(e *VerifAffineNiels) *EdwardsPoint {
	an := affineNielsPoint{y_plus_x: e.YplusX, y_minus_x: e.YminusX, xy2d: e.XY2D}
	var id, out EdwardsPoint
	var sum completedPoint
	id.Identity()
	return out.setCompleted(sum.AddEdwardsAffineNiels(&id, &an))
}
