//go:build verif && (386 || arm || mips || mipsle || wasm || mips64le || mips64 || riscv64 || loong64 || force32bit) && !force64bit

package scalar

const verifLimbBits = 29
