//go:build verif && (amd64 || arm64 || ppc64le || ppc64 || s390x || force64bit) && !force32bit

package scalar

const verifLimbBits = 52
