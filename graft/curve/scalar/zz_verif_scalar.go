//go:build verif

package scalar

// In-package observers for the verification harness (guard tag: verif). Read/call only.

// VerifConstants returns the Montgomery-form constants as raw limbs (least significant first)
// together with the limb width in bits.
func VerifConstants() (limbBits uint, l, r, rr []uint64, lfactor uint64, ord [4]uint64) {
	for _, v := range constL {
		l = append(l, uint64(v))
	}
	for _, v := range constR {
		r = append(r, uint64(v))
	}
	for _, v := range constRR {
		rr = append(rr, uint64(v))
	}
	return verifLimbBits, l, r, rr, uint64(constLFACTOR), order
}
