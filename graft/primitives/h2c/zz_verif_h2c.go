//go:build verif

package h2c

import "github.com/oasisprotocol/curve25519-voi/curve"

// In-package observers for the verification harness (guard tag: verif). Read/call only.

// VerifHashToCurve runs the random-oracle pipeline (hash_to_field x2, map_to_curve x2, add, clear cofactor) on
// chosen uniform bytes, i.e. on what message expansion would have returned.
func VerifHashToCurve(b []byte) *curve.EdwardsPoint {
	var u [hashToCurveSize]byte
	copy(u[:], b)
	return hashToCurve(&u)
}

// VerifEncodeToCurve is the non-uniform pipeline on chosen uniform bytes.
func VerifEncodeToCurve(b []byte) *curve.EdwardsPoint {
	var u [encodeToCurveSize]byte
	copy(u[:], b)
	return encodeToCurve(&u)
}
