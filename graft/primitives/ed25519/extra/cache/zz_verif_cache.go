//go:build verif

package cache

import "github.com/oasisprotocol/curve25519-voi/curve"

// In-package observer for the verification harness (guard tag: verif). Read only, under the cache's own lock.

// VerifSnapshot is the structure of an LRU cache at one instant.
type VerifSnapshot struct {
	StoreLen, ListLen, Capacity int
	Keys                        []curve.CompressedEdwardsY // most recently used first
	Problems                    []string
}

// VerifInspect walks list and store under the mutex. ok is false when c is not the package's LRU.
func VerifInspect(c Cache) (snap VerifSnapshot, ok bool) {
	lc, isLRU := c.(*lruCache)
	if !isLRU {
		return snap, false
	}
	lc.Lock()
	defer lc.Unlock()
	snap.StoreLen, snap.ListLen, snap.Capacity = len(lc.store), lc.list.Len(), lc.capacity
	seen := map[*lruEntry]bool{}
	for e := lc.list.Front(); e != nil; e = e.Next() {
		ent, isEntry := e.Value.(*lruEntry)
		if !isEntry || ent == nil {
			snap.Problems = append(snap.Problems, "list element without an entry")
			continue
		}
		if ent.publicKey == nil {
			snap.Problems = append(snap.Problems, "entry with a nil expanded key")
			continue
		}
		k := ent.publicKey.CompressedY()
		snap.Keys = append(snap.Keys, k)
		if lc.store[k] != ent {
			snap.Problems = append(snap.Problems, "list entry is not the one the index maps its key to")
		}
		if ent.element != e {
			snap.Problems = append(snap.Problems, "entry does not point back at its list element")
		}
		if seen[ent] {
			snap.Problems = append(snap.Problems, "entry linked twice")
		}
		seen[ent] = true
	}
	for k, ent := range lc.store {
		if ent == nil || !seen[ent] {
			snap.Problems = append(snap.Problems, "index entry missing from the recency list")
			continue
		}
		if ent.publicKey != nil && ent.publicKey.CompressedY() != k {
			snap.Problems = append(snap.Problems, "index key maps to the expansion of a different public key")
		}
	}
	if snap.StoreLen != snap.ListLen {
		snap.Problems = append(snap.Problems, "index and recency list differ in size")
	}
	if snap.ListLen > snap.Capacity {
		snap.Problems = append(snap.Problems, "more entries than capacity")
	}
	return snap, true
}
