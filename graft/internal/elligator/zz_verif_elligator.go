//go:build verif

package elligator

import "github.com/oasisprotocol/curve25519-voi/internal/field"

// In-package observers for the verification harness (guard tag: verif). Read/call only.

func VerifConstants() map[string]*field.Element {
	return map[string]*field.Element{
		"MONTGOMERY_A":                    &constMONTGOMERY_A,
		"MONTGOMERY_NEG_A":                &constMONTGOMERY_NEG_A,
		"MONTGOMERY_A_SQUARED":            &constMONTGOMERY_A_SQUARED,
		"MONTGOMERY_SQRT_NEG_A_PLUS_TWO":  &constMONTGOMERY_SQRT_NEG_A_PLUS_TWO,
		"MONTGOMERY_U_FACTOR":             &constMONTGOMERY_U_FACTOR,
		"MONTGOMERY_V_FACTOR":             &constMONTGOMERY_V_FACTOR,
	}
}

// VerifMontgomeryFlavor exposes the Elligator 2 map to Montgomery (u, v).
func VerifMontgomeryFlavor(r *field.Element) (field.Element, field.Element) { return montgomeryFlavor(r) }
