//go:build verif && (amd64 || arm64 || ppc64le || ppc64 || s390x || force64bit) && !force32bit

package field

// In-package observers for the verification harness (guard tag: verif). Read/call only.

const VerifBackend = "u64"

// VerifLimbWeights returns the bit position of each limb.
func VerifLimbWeights() []uint { return []uint{0, 51, 102, 153, 204} }

func VerifLimbs(fe *Element) []uint64 {
	out := make([]uint64, 5)
	copy(out, fe.inner[:])
	return out
}

func VerifFromLimbs(l []uint64) Element {
	var fe Element
	copy(fe.inner[:], l)
	return fe
}

// VerifMulImpl / VerifPow2kImpl call whatever feMul/fePow2k resolve to in this build (assembly on amd64).
func VerifMulImpl(out, a, b *Element)       { feMul(out, a, b) }
func VerifPow2kImpl(out, a *Element, k uint) { fePow2k(out, a, k) }

// VerifMulGeneric / VerifPow2kGeneric call the portable 64-bit code directly.
func VerifMulGeneric(out, a, b *Element)       { feMulGeneric(out, a, b) }
func VerifPow2kGeneric(out, a *Element, k uint) { fePow2kGeneric(out, a, k) }

const VerifHasGeneric = true
