//go:build verif && (amd64 || arm64 || ppc64le || ppc64 || s390x || force64bit) && !force32bit

package field

func VerifExtraConstants() map[string]*Element { return map[string]*Element{} }

// VerifPTimesSixteen returns the limbs added by Sub/Neg before subtracting (16p).
func VerifPTimesSixteen() []uint64 {
	return []uint64{p_times_sixteen_0, p_times_sixteen_1234, p_times_sixteen_1234, p_times_sixteen_1234, p_times_sixteen_1234}
}

const VerifPTimesSixteenIsLiteral = false
