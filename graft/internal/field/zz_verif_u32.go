//go:build verif && (386 || arm || mips || mipsle || wasm || mips64le || mips64 || riscv64 || loong64 || force32bit) && !force64bit

package field

// In-package observers for the verification harness (guard tag: verif). Read/call only.

const VerifBackend = "u32"

func VerifLimbWeights() []uint { return []uint{0, 26, 51, 77, 102, 128, 153, 179, 204, 230} }

func VerifLimbs(fe *Element) []uint64 {
	out := make([]uint64, 10)
	for i, v := range fe.inner {
		out[i] = uint64(v)
	}
	return out
}

func VerifFromLimbs(l []uint64) Element {
	var fe Element
	for i := range fe.inner {
		fe.inner[i] = uint32(l[i])
	}
	return fe
}

func VerifMulImpl(out, a, b *Element)          { out.Mul(a, b) }
func VerifPow2kImpl(out, a *Element, k uint)    { out.Pow2k(a, k) }
func VerifMulGeneric(out, a, b *Element)       { out.Mul(a, b) }
func VerifPow2kGeneric(out, a *Element, k uint) { out.Pow2k(a, k) }

const VerifHasGeneric = false
