//go:build verif && (386 || arm || mips || mipsle || wasm || mips64le || mips64 || riscv64 || loong64 || force32bit) && !force64bit

package field

func VerifExtraConstants() map[string]*Element {
	return map[string]*Element{"APLUS2_OVER_FOUR": &constAPLUS2_OVER_FOUR}
}

// VerifPTimesSixteen returns the limbs added by Sub/Neg before subtracting (16p).
func VerifPTimesSixteen() []uint64 {
	return []uint64{0x3ffffed << 4, 0x1ffffff << 4, 0x3ffffff << 4, 0x1ffffff << 4, 0x3ffffff << 4, 0x1ffffff << 4, 0x3ffffff << 4, 0x1ffffff << 4, 0x3ffffff << 4, 0x1ffffff << 4}
}

const VerifPTimesSixteenIsLiteral = true
