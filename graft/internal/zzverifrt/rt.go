//go:build verif || verifmin

// Package zzverifrt is the runtime targeted by the calls the vinstr instrumenter injects
// into a scratch copy of the library: loop ticks with an optional budget, and Pre/Post
// boundary hooks dispatched to a handler registered by the harness.
package zzverifrt

import "sync/atomic"

// BudgetExceeded is the panic value used when a call exceeds its armed loop-tick budget.
type BudgetExceeded struct{ Ticks int64 }

var (
	ticks  int64
	budget int64

	// Handler receives boundary events (phase 0 = before, 1 = after the wrapped call).
	Handler func(name string, phase int, args []interface{})
)

// Tick is called at the head of every loop body of the instrumented library.
//
// Unarmed (budget 0) it only reads one shared word, so drivers that run many goroutines pay no contention; ticks are
// counted, and the budget enforced, only between Arm(b > 0) and Arm(0), which drivers do on one goroutine at a time.
func Tick() {
	b := atomic.LoadInt64(&budget)
	if b == 0 {
		return
	}
	if t := atomic.AddInt64(&ticks, 1); t > b {
		if atomic.LoadInt32(&shared) == 0 {
			atomic.StoreInt64(&budget, 0)
		}
		panic(BudgetExceeded{Ticks: t})
	}
}

var shared int32

// ArmShared arms one budget for several goroutines: once it is exceeded EVERY goroutine panics at its next tick
// (the budget stays armed), so that none of them is left spinning. Each goroutine must recover BudgetExceeded.
// Disarm with Arm(0).
func ArmShared(b int64) {
	atomic.StoreInt32(&shared, 1)
	atomic.StoreInt64(&ticks, 0)
	atomic.StoreInt64(&budget, b)
}

// Arm resets the counter and sets a budget (0 = disarmed: ticks are neither counted nor limited).
func Arm(b int64) {
	if b != 0 {
		atomic.StoreInt64(&ticks, 0)
	}
	atomic.StoreInt32(&shared, 0)
	atomic.StoreInt64(&budget, b)
}

// Ticks returns the counter value.
func Ticks() int64 { return atomic.LoadInt64(&ticks) }

func Pre(name string, args ...interface{}) {
	if h := Handler; h != nil {
		h(name, 0, args)
	}
}

func Post(name string, args ...interface{}) {
	if h := Handler; h != nil {
		h(name, 1, args)
	}
}
