//go:build verif || verifmin

package lattice

// In-package observers for the verification harness (guard tag: verif). Read/call only.

// VerifParts returns the two's complement halves of an Int128.
func VerifParts(x Int128) (hi int64, lo uint64) { return x.hi, x.lo }

// VerifEllSquared returns the limbs (least significant first) of the embedded L^2.
func VerifEllSquared() []uint64 {
	v := ellSquared()
	return append([]uint64{}, v[:]...)
}

// VerifEllLowerHalf returns the embedded low 128 bits of L.
func VerifEllLowerHalf() (hi int64, lo uint64) { return constELL_LOWER_HALF.hi, constELL_LOWER_HALF.lo }
