//go:build verif

package strobe

// In-package observers for the verification harness (guard tag: verif). Read/call only.

// VerifKeccakF1600Bytes runs the permutation this build selected (assembly on amd64, Go otherwise)
// on a 200-byte state that lives inside a canary-padded buffer; it reports whether the canaries survived.
func VerifKeccakF1600Bytes(state *[200]byte) (canariesIntact bool) {
	type padded struct {
		pre   [8]uint64
		state [200]byte
		post  [8]uint64
	}
	var buf padded
	for i := range buf.pre {
		buf.pre[i] = 0xa5a5a5a5a5a5a5a5 ^ uint64(i)
		buf.post[i] = 0x5a5a5a5a5a5a5a5a ^ uint64(i)
	}
	buf.state = *state
	keccakF1600Bytes(&buf.state)
	*state = buf.state
	for i := range buf.pre {
		if buf.pre[i] != 0xa5a5a5a5a5a5a5a5^uint64(i) || buf.post[i] != 0x5a5a5a5a5a5a5a5a^uint64(i) {
			return false
		}
	}
	return true
}

// VerifPos exposes the duplex position and the begin marker of a STROBE state.
func VerifPos(s *Strobe) (pos, posBegin int) { return int(s.pos), int(s.posBegin) }
