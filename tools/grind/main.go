// grind searches message space for Ed25519 challenge scalars k = SHA-512(R || A || M) mod L with rare structure that
// uniformly random testing never produces (probability 2^-24 .. 2^-26 per message), and writes the hits as a corpus
// of (key seed, nonce seed, message) triples. The corpus is a fixed, reproducible input list for the C01/C09/C16
// monitors: it lets the deciding oracles observe verification on challenge scalars that make Pornin's lattice
// reduction take its large-shift branches (s >= 32, i.e. 64-bit limb shifts), or that are unusually small/large.
//
// Only Go's standard library is used: A = Ed25519 public key of seed_a, R = Ed25519 public key of seed_r (so
// R = [r]B with r the clamped SHA-512 half of seed_r); the signature is (R, r + k*a mod L), which the drivers
// compute themselves.
//
//	go run ./grind -n 28 -out ../corpus/ground_k.jsonl      (2^28 candidates per key pair; ~1 min on 16 cores)
package main

import (
	"crypto/ed25519"
	"crypto/sha512"
	"encoding/hex"
	"encoding/json"
	"flag"
	"fmt"
	"math/big"
	"math/bits"
	"os"
	"runtime"
	"sort"
	"strconv"
	"sync"
)

var L, _ = new(big.Int).SetString("7237005577332262213973186563042994240857116359379907606001950938285454250989", 10)

type u256 [4]uint64

func fromBig(v *big.Int) (o u256) {
	b := v.Bytes()
	for i := 0; i < len(b); i++ {
		o[i/8] |= uint64(b[len(b)-1-i]) << (8 * uint(i%8))
	}
	return
}

func (a *u256) bitlen() int {
	for i := 3; i >= 0; i-- {
		if a[i] != 0 {
			return 64*i + bits.Len64(a[i])
		}
	}
	return 0
}

func (a *u256) lt(b *u256) bool {
	for i := 3; i >= 0; i-- {
		if a[i] != b[i] {
			return a[i] < b[i]
		}
	}
	return false
}

func (a *u256) shl(s uint) (o u256) {
	w, b := s/64, s%64
	for i := 3; i >= int(w); i-- {
		o[i] = a[i-int(w)] << b
		if b != 0 && i-int(w)-1 >= 0 {
			o[i] |= a[i-int(w)-1] >> (64 - b)
		}
	}
	return
}

func (a *u256) sub(b *u256) {
	var br uint64
	for i := 0; i < 4; i++ {
		a[i], br = bits.Sub64(a[i], b[i], br)
	}
}

// maxGap: the largest bit-length gap between consecutive remainders of the Euclidean algorithm on (L, k), over the
// part of the expansion the lattice reduction walks through (remainders above 2^120). A gap >= g means a partial
// quotient >= 2^(g-1).
func maxGap(k u256, l u256) int {
	a, b := l, k
	best := 0
	for {
		bl := b.bitlen()
		if bl < 120 {
			return best
		}
		// a mod b by shift-subtract
		al := a.bitlen()
		if g := al - bl; g > best {
			best = g
		}
		for !a.lt(&b) {
			s := uint(a.bitlen() - b.bitlen())
			t := b.shl(s)
			if a.lt(&t) {
				t = b.shl(s - 1)
			}
			a.sub(&t)
		}
		a, b = b, a
	}
}

// porninTrace replays Algorithm 4 of Pornin 2020 (as the library implements it) in big integers and returns the
// largest shift s taken and the bit length of N_u at that step (>= 384 means the 512-bit pass).
func porninTrace(k *big.Int) (maxS int, nuBitsAtMax int, steps int) {
	Nu := new(big.Int).Mul(L, L)
	Nv := new(big.Int).Mul(k, k)
	Nv.Add(Nv, big.NewInt(1))
	p := new(big.Int).Mul(L, k)
	for {
		if Nu.Cmp(Nv) < 0 {
			Nu, Nv = Nv, Nu
		}
		lv := Nv.BitLen()
		if lv <= 254 {
			return
		}
		s := 0
		if lp := p.BitLen(); lp > lv {
			s = lp - lv
		}
		if s > maxS {
			maxS, nuBitsAtMax = s, Nu.BitLen()
		}
		steps++
		if p.Sign() >= 0 {
			Nu.Add(Nu, new(big.Int).Lsh(Nv, uint(2*s)))
			Nu.Sub(Nu, new(big.Int).Lsh(p, uint(s+1)))
			p.Sub(p, new(big.Int).Lsh(Nv, uint(s)))
		} else {
			Nu.Add(Nu, new(big.Int).Lsh(Nv, uint(2*s)))
			Nu.Add(Nu, new(big.Int).Lsh(p, uint(s+1)))
			p.Add(p, new(big.Int).Lsh(Nv, uint(s)))
		}
	}
}

type Entry struct {
	SeedA   string `json:"seed_a"`
	SeedR   string `json:"seed_r"`
	Msg     string `json:"msg"`
	Feature string `json:"feature"`
	K       string `json:"k_le"`
	MaxS    int    `json:"pornin_max_shift"`
	NuBits  int    `json:"pornin_nu_bits_at_max_shift"`
}

func main() {
	logN := flag.Int("n", 26, "log2 of candidates per key pair")
	pairs := flag.Int("pairs", 4, "key pairs")
	out := flag.String("out", "ground_k.jsonl", "output")
	flag.Parse()
	lU := fromBig(L)
	var mu sync.Mutex
	var entries []Entry
	for kp := 0; kp < *pairs; kp++ {
		sa := sha512.Sum512_256([]byte("voi-verif ground corpus key " + strconv.Itoa(kp)))
		sr := sha512.Sum512_256([]byte("voi-verif ground corpus nonce " + strconv.Itoa(kp)))
		A := ed25519.NewKeyFromSeed(sa[:]).Public().(ed25519.PublicKey)
		R := ed25519.NewKeyFromSeed(sr[:]).Public().(ed25519.PublicKey)
		total := uint64(1) << uint(*logN)
		nw := runtime.NumCPU()
		var wg sync.WaitGroup
		for w := 0; w < nw; w++ {
			wg.Add(1)
			go func(w int) {
				defer wg.Done()
				buf := make([]byte, 0, 128)
				kb := new(big.Int)
				for c := uint64(w); c < total; c += uint64(nw) {
					buf = buf[:0]
					buf = append(buf, R...)
					buf = append(buf, A...)
					buf = append(buf, "ground message #"...)
					buf = strconv.AppendUint(buf, c, 10)
					msg := buf[64:]
					h := sha512.Sum512(buf)
					// reduce mod L: big.Int only for candidates that pass a cheap screen on the wide value would lose
					// hits, so reduce always (cost ~150ns)
					for i, j := 0, 63; i < j; i, j = i+1, j-1 {
						h[i], h[j] = h[j], h[i]
					}
					kb.SetBytes(h[:])
					kb.Mod(kb, L)
					feature := ""
					bl := kb.BitLen()
					switch {
					case bl <= 253-22:
						feature = fmt.Sprintf("small-k(bits=%d)", bl)
					case new(big.Int).Sub(L, kb).BitLen() <= 253-22:
						feature = fmt.Sprintf("k-near-L(L-k bits=%d)", new(big.Int).Sub(L, kb).BitLen())
					default:
						if g := maxGap(fromBig(kb), lU); g >= 31 {
							feature = fmt.Sprintf("euclid-gap=%d", g)
						}
					}
					if feature == "" {
						continue
					}
					ms, nb, _ := porninTrace(kb)
					if feature[:6] == "euclid" && ms < 32 {
						continue
					}
					kle := make([]byte, 32)
					kbb := kb.Bytes()
					for i := range kbb {
						kle[i] = kbb[len(kbb)-1-i]
					}
					mu.Lock()
					entries = append(entries, Entry{hex.EncodeToString(sa[:]), hex.EncodeToString(sr[:]), string(msg), feature, hex.EncodeToString(kle), ms, nb})
					mu.Unlock()
				}
			}(w)
		}
		wg.Wait()
		fmt.Fprintf(os.Stderr, "pair %d done, %d entries so far\n", kp, len(entries))
	}
	sort.Slice(entries, func(i, j int) bool {
		if entries[i].SeedA != entries[j].SeedA {
			return entries[i].SeedA < entries[j].SeedA
		}
		return entries[i].Msg < entries[j].Msg
	})
	f, err := os.Create(*out)
	if err != nil {
		panic(err)
	}
	defer f.Close()
	enc := json.NewEncoder(f)
	for _, e := range entries {
		enc.Encode(e)
	}
	fmt.Fprintf(os.Stderr, "%d entries written to %s\n", len(entries), *out)
}
