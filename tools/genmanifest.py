#!/usr/bin/env python3
"""Regenerates /verif/MANIFEST.json from the table below (single source of truth for the check registry)."""
import json, sys

CLAIMED = {
 # id: (technique, level text, level note, design_ref)
 "C01": ("reference-model monitor (big-integer RFC 8032 predicate + crypto/ed25519) shadowing every verification call over adversarial input families, 4 backends",
         "Exploration: every VerifyWithOptions/VerifyExpandedWithOptions call of a hostile workload (torsion-perturbed, malleated, small-order, non-canonical, undecodable inputs x all 32 flag sets x pure/ctx/ph x 4 backends) is compared with an independent big-integer evaluation of the property's predicate, and with crypto/ed25519 for the StdLib preset. Held on the executions observed; sampled, not exhaustive.",
         "Trusts math/big, crypto/sha512, crypto/ed25519 and the hand-written affine reference; inputs are sampled from structured families, not enumerated.", "5.C01"),
}

PENDING_REASON = "check under construction in this build phase (design in DESIGN.md section 5); not yet claimed"

def main():
    props = [json.loads(l) for l in open('/verif/properties.jsonl')]
    checks, na = [], []
    for p in props:
        i = p['id']
        if i in CLAIMED:
            tech, text, note, ref = CLAIMED[i]
            checks.append({
                "property_id": i,
                "quick_cmd": "./check %s quick" % i,
                "thorough_cmd": "./check %s thorough" % i,
                "evidence_file": "/verif/evidence/%s.json" % i,
                "replay_cmd_template": "./check --replay {path}",
                "engine": "vcheck",
                "level_claimed": {"category": "exploration", "text": text, "design_ref": ref},
                "level_note": note,
                "technique": tech,
            })
        else:
            na.append({"property_id": i, "reason": PENDING_REASON})
    m = {
        "version": 1,
        "setup_cmd": "sh /verif/setup.sh",
        "hooks": {
            "guard": "verif",
            "enable": "checks copy /repo's working tree to a scratch directory, copy the in-package observer files of /verif/graft (each starts with //go:build verif) into the copy, optionally run the vinstr source instrumenter on the copy, and build the drivers with -tags verif; nothing guarded is committed to /repo",
            "baseline_off_cmd": "cd /repo && GOFLAGS=-mod=mod GOPROXY=off GOSUMDB=off GOTOOLCHAIN=local go test -vet=off -count=1 -timeout 25m ./...",
            "source_commits": [],
            "add_only": True,
        },
        "engines": [
            {"name": "vcheck", "path": "/verif/tools/vcheck", "serves_properties": [c["property_id"] for c in checks],
             "kind_free_text": "orchestrator: scratch copy of the working tree, graft/instrument, build per configuration, run monitored driver processes, merge observations, known-findings filter, evidence"},
            {"name": "harness", "path": "/verif/harness", "serves_properties": [c["property_id"] for c in checks],
             "kind_free_text": "Go module with reference oracles (ref/), generators (gen/), monitor runtime (mon/) and one driver per property (drv/cNN)"},
            {"name": "vinstr", "path": "/verif/tools/vinstr", "serves_properties": ["C16", "C19", "C04", "C17"],
             "kind_free_text": "go/ast source instrumenter applied to the scratch copy: loop ticks (logical step budgets) and Pre/Post boundary wrappers"},
        ],
        "checks": checks,
        "not_applicable": na,
        "notes": "Technique family: runtime monitoring and sanitizers. All verdicts are 'held on the executions observed'. Exit codes of ./check: 0 held, 1 violation (VIOLATION line), 2 harness error, 3 inconclusive. Fix commits in /repo: 5fc114c, 58ddb44, 2f37ebb (see known_findings.json).",
    }
    json.dump(m, open('/verif/MANIFEST.json', 'w'), indent=1)
    print("claimed", len(checks), "not_applicable", len(na))

main()
