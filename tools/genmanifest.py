#!/usr/bin/env python3
"""Regenerates /verif/MANIFEST.json from the table below (single source of truth for the check registry)."""
import json, sys

# What four rounds of independently seeded changes added to each check (DESIGN 12.3, 12.4); appended to the texts below.
_CFG5 = " Configurations as built: the four of the property text plus two real 32-bit targets (GOARCH=386, and GOARCH=386 with the library's force64bit tag) in the quick tier, plus GOAMD64=v3 and GODEBUG=cpu.all=off in the thorough tier."
_HIST = " Receivers are long-lived objects with a past (decoded into, failed decodes, outputs of other routines, recoded), values are written through every mutator, and buffers / option structs handed to the library are overwritten or recycled by the caller right after each call."
_THRESH = " A coverage-guided monitor (built with block counters) discovers the sizes at which the set of executed library blocks changes (data-dependent blocks masked by calibration), bisects them to the exact value, and drives the operation at each threshold, its small multiples and neighbours against an independent oracle."
ADDENDA = {
 "C01": _THRESH + " Since the seeded rounds: searched-for challenge scalars (corpus of signatures whose SHA-512 challenge drives the lattice reduction through >= 32-bit shifts, or is unusually small/large), a loop-iteration budget on those and on one case in 25 (non-termination is a verdict on logical steps), failing operations run immediately before one decided call in four, a caching verifier entry point, expanded keys built from buffers that are then overwritten, one option struct toggled between variants, the nil option set through every entry point." + _CFG5,
 "C02": _THRESH + " Since the seeded rounds: failing operations before signing, one option struct rewritten between calls (context, variant, by-value copies), every other pre-hash identifier refused, entropy readers of every behaviour (short reads, data+EOF), caller-owned accessor results, key buffers recycled between batch adds, a non-expanded batch with repeated signers." + _CFG5,
 "C03": _THRESH + " Since the seeded rounds: receivers with a past, aliased receivers at every term count, term counts to 1500 (quick) / 65539 (thorough), expansions re-targeted while a value copy is alive, tables/expansions whose source point is changed before first use, the invariant T*Z = X*Y on every result, scalars sharing structure across the terms (all multiples of 2^j, all small, all equal), forced collections between a table/expansion and the points it handed out." + _CFG5 + " The thorough tier also runs the non-vector backends under GOMAXPROCS=6 and 3.",
 "C04": " Since the seeded rounds: every aliasing pattern of every operation, BatchInvert lists to 257 with zeros (both representations) at word-boundary indices, values whose words cancel under XOR/sum accumulators, values with saturated low limbs; an in-situ shadow of every field call made by the library itself during a whole-library workload (under a loop budget)." + _CFG5,
 "C05": " Since the seeded rounds: all aliasing patterns, receiver-in-list and duplicate entries for Sum/Product, long lists of maximal unreduced values, 6000 wide inputs with saturated/empty low parts around both Montgomery radices, L with each 32-bit word replaced by boundary values, cancelling-word pairs for Equal, scalar objects with a past, entropy readers of every behaviour. Runs in seven configurations in both tiers (the four + GOARCH=386, GOAMD64=v3, cpu.all=off).",
 "C06": " As built the differential runs over eleven configurations: the four of the property text + GOARCH=386, GOAMD64=v3, GODEBUG=cpu.all=off and runs under GOMAXPROCS 1/3/6/7; a second pass in the same process checks history independence; the workload includes re-targeted expansions, aliased receivers, the exported constant objects as operands, ladder inputs at word boundaries of the multiply-by-121666, and the bytes (not only the small-order predicate) of triple products.",
 "C07": " Since the seeded rounds: results with structure (a single non-zero byte/word at every offset, words that cancel under XOR/sum) obtained by constructing the peer value as a preimage, every aliasing pattern of ScalarMult/ScalarBaseMult, u resembling the base point, ladder inputs at word boundaries of the multiply-by-121666, the exported Basepoint slice modified in place, entropy readers of every behaviour." + _CFG5,
 "C08": " Since the seeded rounds: ~80 operations incl. those whose secret is the entropy stream (key generation, nonce and witness sampling) and X25519 against peer values constructed so that one secret's result has whole zero words, comparisons whose public operand equals one of the secrets (decoded operands included), BatchInvert over secret scalars; the block-counter monitor treats the reproducible pattern 'differs exactly when the previous call used the same secret' as a violation; the fork monitor makes its last pre-fork call with secret #0.",
 "C09": _THRESH + " Since the seeded rounds: a deterministic sweep (every pool entry x 32 option sets x expanded / cache miss / cache hit / batch with Add / with AddExpanded), cancelling forgeries (k invalid entries whose errors sum to zero), caller buffers and option structs overwritten or recycled right after Add / AddPublicKey, failing operations before batch verification, searched-for challenge scalars, look-alike keys in the cache programs, earlier entries coming back as exact or scalar-altered copies." + _CFG5,
 "C10": " Since the seeded rounds: every decoder/conversion result is used as an operand (Add, Sub, Mul, IsTorsionFree) and its raw coordinates checked (Z != 0, T*Z = X*Y, curve equation); returned slices are caller-owned; points with structured x-coordinates (saturated low limbs, cancelling words, near p; y solved from the curve equation); Equal on pairs whose difference cancels word-wise; u near -1 for SetMontgomery; decoder receivers with a past; inputs of 2^32+32 bytes (untouched virtual memory)." + _CFG5,
 "C11": " Since the seeded rounds: the output of every multiplication algorithm taken as a representative (encoding, use as operand, Equal), in-place operations, receivers with a past, re-targeted expansions, tables built from a point that is changed before first use, entropy readers of every behaviour, expanded multiscalar products with different static and dynamic lists above the algorithm switch (API-only, so they also run when the observers do not fit)." + _CFG5 + " Both tiers also run the non-vector backends under GOMAXPROCS=6 and 3.",
 "C12": _THRESH + " Since the seeded rounds: XOF transcripts through short-reading readers, key/signature objects decoded into repeatedly (single and batch), objects and buffers overwritten right after NewSigningContext / NewTranscript* / BatchVerifier.Add, one SigningContext shared by eight goroutines deriving transcripts from bytes/hash/XOF sources, entropy readers of every behaviour, forced collections after derived key objects were dropped, earlier batch entries coming back as exact or scalar-altered copies." + _CFG5,
 "C13": _THRESH + " Since the seeded rounds: operations on the origin transcript interleaved with the life of an RNG builder, entropy readers with short reads and data+EOF, lengths beyond 2^16, forced collections between Finalize and the reads. Runs in seven configurations in both tiers (the four + GOARCH=386, GOAMD64=v3, cpu.all=off).",
 "C14": " Since the seeded rounds: DST and message handed over as adjacent fields of one frame with a canary tail (no write into caller memory), dirty XOF templates, output lengths to 196656, every digest shorter than 256 bits refused by the suites, an auxiliary program that links only primitives/h2c." + _CFG5,
 "C15": " Since the seeded rounds: keys, proofs and messages handed over as fields of one frame (no write into caller memory), proofs with prover-chosen nonces (k = 0, 1, L-1, ...), one key buffer holding two keys in turn, ProofToHash on every mutated proof, entropy readers of every behaviour, the empty message passed as nil." + _CFG5,
 "C16": " Since the seeded rounds: a concurrent phase (eight goroutines over the large-shift scalars, results compared with single-goroutine ones, one shared loop budget), one shared expansion under concurrent triple products, searched-for challenge scalars, an in-situ postcondition monitor on every FindShortVector call made by real verifications (under a loop budget), near-golden scalars and the non-canonical representatives k+mL of every catalogue entry." + _CFG5,
 "C17": " Since the seeded rounds: 10^6 (quick) / 3*10^7 (thorough) alphabet-digit strings through a big-integer-free checker, carry-propagation chains, scalar objects with a past (recoded, then overwritten through any mutator), an in-situ monitor on every recoding and table lookup the library makes. Quick: default, force32bit, GOARCH=386, GOAMD64=v3, cpu.all=off; thorough: all seven.",
 "C18": " Since the seeded rounds: cold-start processes whose first library operations are issued concurrently (under GOMAXPROCS 1/2/4/all), clients that reuse one scratch key buffer, searched-for challenge scalars and extreme triple products in the stress mix, transcripts over a shared signing context, a sequential-model check of the LRU at capacities 1..300, a shared option struct with nil Verify compared before and after use.",
 "C19": " Since the seeded rounds: every input is a guarded slice (spare capacity + canary: no write into caller memory), neutral-state key objects in every verification entry point under all 32 option sets, every kind of pre-hash identifier in every Ed25519 entry point, acceptance compared with a reference decoder for ProofToHash and ScMinimalVartime, every combination of context length x pre-hash x added randomness x self-verification and all 32 verification option sets in the error-returning entry points, inputs of 2^32+n bytes for the fixed-size decoders." + _CFG5,
 "C20": " Since the seeded rounds: the enumeration is repeated after (a) scribbling over whatever the accessors return, (b) passing every exported constant as an input operand to every family of operations at sizes on both sides of each algorithm switch (constants re-read after each single operation) and re-targeting objects constructed from them, (c) a phase in which the raw tables are re-read in a loop while four goroutines use them; and every table-using entry point is run as the first library call of fresh child processes (GOMAXPROCS 1, 2, default). Runs in seven configurations in both tiers.",
}
TECH_ADD = {
 "C01": "; loop-tick instrumentation for termination; searched inputs; 5-7 configurations",
 "C03": "; receivers with a past; 5-9 configurations", "C04": "; in-situ field shadow (wrap instrumentation); 5-7 configurations",
 "C05": "; 7 configurations", "C06": " (as built: eleven configurations incl. GOARCH=386, GOAMD64=v3, cpu.all=off, GOMAXPROCS 1/3/6/7; history-independence pass)",
 "C07": "; preimage-constructed results; 5-7 configurations", "C09": "; deterministic sweep + cancelling forgeries; 5-7 configurations",
 "C10": "; raw-coordinate invariants; 5-7 configurations", "C11": "; 7-9 configurations", "C12": "; concurrent shared-context phase; 5-7 configurations",
 "C13": "; 7 configurations", "C14": "; caller-memory canaries; 5-7 configurations", "C15": "; caller-memory canaries; 5-7 configurations",
 "C16": "; concurrent phases under a shared loop budget; in-situ postcondition monitor; 5-7 configurations", "C17": "; in-situ digit/lookup monitor; 5-7 configurations",
 "C18": "; cold-start processes; sequential LRU model at large capacities", "C19": "; guarded inputs; reference-decoder oracle; 5-7 configurations",
 "C20": "; in-use and first-use monitors; 7 configurations", "C02": "; 5-7 configurations",
}

ADD6 = {
 "C01": " Sixth round: every decided case also goes through the batch verifier (plain and expanded adds) as a fourth entry point, for every variant with a context or a pre-hash and one pure case in four.",
 "C02": " Sixth round: batches holding entries with different kinds of fault at once (refused at Add: truncated/overlong signature, S >= L, undecodable or wrong-length key; well-formed but invalid: flipped scalar bit, other message, other signer's key; honest) in every order of four, on the plain, non-expanding and expanded add paths; every bit against single verification.",
 "C05": " Sixth round: operand pairs solved so that the hidden intermediates of a multiplication (a*b*R^j mod L for the Montgomery radix of either backend, j = -2..3) land on L-e, 2^252+-e, small values and PRNG points of [2^252, L).",
 "C08": " Sixth round: the several secret scalars of one call stand in a secret relation (unrelated, all equal, neighbours equal, second = -first, first = last), selected branch-free from a hash of the secret.",
 "C09": " Sixth round: one entry added repeatedly to one batch under all 32 option sets in a PRNG order and its reverse (plain, non-expanding, expanded paths, recycled key buffer): nothing decided for one entry may carry over to the next because the key bytes are equal.",
 "C10": " Sixth round: after the read-only calls (predicates, encoding, comparison, conversion) on a point in any projective scaling the same object is used as an operand and its four coordinates checked for coherence.",
 "C11": " Sixth round: the scalars of one multiscalar call share a shape (all below 2^128 / 2^127 / 2^64 / 2^129 / 2^136, multiples of 2^128, all equal) at term counts over every window switch (to 805 terms).",
 "C12": " Sixth round: secret keys given as raw scalars (0 - the identity public key -, 1, L-1, 8, powers of two) through the decoder, with key/pair round trips; for those the reference decides the transcript mutations.",
 "C13": " Sixth round: failed Finalize attempts (reader failing at once, after 16 and after 31 bytes) on the same builder before the successful one, in every other program.",
 "C14": " Sixth round: the pipeline after message expansion (hash_to_field x2, Elligator 2, addition, cofactor clearing) driven through an in-package observer on chosen uniform bytes: all pairs from {exceptional and special field elements in several representatives (u, u+p, u+kp), extremes, PRNG}.",
 "C15": " Sixth round: public keys with a torsion component (valid under RFC 9381 5.4.5) with proofs ground until c*T = O (must verify, with the reference output) and the first nonce for which it is not (must fail).",
 "C16": " Sixth round: related operands - C chosen as A, the same object as A, -A, 2A, B, -B, O, A+B, A+T and b solved for true and false equations.",
 "C17": " Sixth round: scalar objects whose state immediately before receiving the value came from the small-value setters (SetUint64, One, Zero, copies of such objects).",
 "C18": " Sixth round: a herd phase - all goroutines released together make the same call with the same key (valid, undecodable, small-order, non-canonical) on a shared caching verifier that does not hold it, panics recovered and compared with the sequential result.",
 "C19": " Sixth round: every 32-byte field of every decoder's valid example replaced by each of ~120 structured strings (field/scalar/torsion specials with bit 255 clear and set); EdwardsPoint.SetMontgomery as an entry with a reference decoder.",
 "C20": " Sixth round: a phase driving every constant-consulting routine through its mathematically exceptional inputs (Elligator exceptional values incl. through the XOF suites with a constant expander, u = -1, identity/small-order operands and keys, zero inverses), the shared field constants compared after each operation and the whole enumeration repeated afterwards.",
}

ADD7 = {
 "C03": " Seventh round: a reflection-driven contract monitor (package fluent) calls every method of EdwardsPoint, ExpandedEdwardsPoint and the base-point table whose first result has the receiver's type and requires that it returns its receiver (or nil with an error), not an operand or another object.",
 "C04": " Seventh round: the same receiver-identity contract for every field.Element method.",
 "C05": " Seventh round: the same receiver-identity contract for every Scalar method.",
 "C06": " Seventh round: the shared workload has a deterministic grid special coefficient (0, 1, 2, 8, L-1, L-2, L-8, L+1, 2^252) x every pool point (torsion, mixed order, prime order) through every multiscalar entry point.",
 "C07": " Seventh round: scalars that are special with respect to the group (clamped values jL + e, j = 4..7, |e| <= 40) through every base-point entry point (incl. the exported Basepoint fast path) and against a few peer values.",
 "C10": " Seventh round: the receiver-identity contract for CompressedEdwardsY, MontgomeryPoint and EdwardsPoint methods.",
 "C11": " Seventh round: the receiver-identity contract for RistrettoPoint, CompressedRistretto, expanded points and the table.",
 "C14": " Seventh round: customised cSHAKE instances (non-empty function name and/or customisation string) as the caller's XOF, through the expander (incl. over-long DSTs) and the XOF suites.",
 "C19": " Seventh round: every batch entry point runs in six verifier configurations (fresh, key expansion off, behind / in front of a valid companion, both, capacity hint) which must agree, with batch-only verification and a second Verify.",
}

ADD8 = {
 "C01": " Eighth round: undecodable R (and A) with a scalar chosen so that the equation would hold if the undecodable string were taken for the identity or for the base point.",
 "C02": " Eighth round: every second mixed-fault batch is verified incrementally - after every add the prefix is verified (Verify and VerifyBatchOnly) against the single verifications of the prefix.",
 "C09": " Eighth round: every pool entry under option sets that are themselves unacceptable (unknown pre-hash, pre-hash of the wrong length, over-long context): the expanded path must decide exactly as the plain one, panic for panic.",
 "C18": " Eighth round: a deadlock witness monitor on the stress and herd phases - when the operation counter stands still, a goroutine dump in which every goroutine inside the cache package is parked acquiring its lock is a violation (nobody can release it); elapsed time alone never is.",
}

CLAIMED = {
 # id: (technique, level text, level note, design_ref)
 "C01": ("reference-model monitor (big-integer RFC 8032 predicate + crypto/ed25519) shadowing every verification call over adversarial input families, 4 backends",
         "Exploration: every VerifyWithOptions/VerifyExpandedWithOptions call of a hostile workload (torsion-perturbed, malleated, small-order, non-canonical, undecodable inputs x all 32 flag sets x pure/ctx/ph x 4 backends) is compared with an independent big-integer evaluation of the property's predicate, and with crypto/ed25519 for the StdLib preset. Held on the executions observed; sampled, not exhaustive.",
         "Trusts math/big, crypto/sha512, crypto/ed25519 and the hand-written affine reference; inputs are sampled from structured families, not enumerated.", "5.C01"),
 "C02": ("reference-model monitor (crypto/ed25519 + big-integer RFC 8032 signer) on every key derivation/signing call, followed by verification under all presets (plain/expanded/batch) and mutation monitors",
         "Exploration: signing outputs are compared byte-for-byte with two independent oracles over seeds, message lengths at SHA-512 block boundaries, contexts 0..255, all option combinations and entropy streams; each signature is verified under every preset singly, expanded and in a batch, then mutated (all 512 bits for a subset); added-randomness values are recomputed exactly; invalid options must error. Sampled.",
         "Trusts crypto/ed25519, math/big, SHA-512. Seeds whose nonce/scalar hit special residues cannot be constructed (hash preimages); those residues are driven into the same routines by C03/C05.", "5.C02"),
 "C03": ("reference-model monitor (affine big-integer group law; discrete-log bookkeeping for long sums) on every curve API result and, through an in-package graft, on each internal algorithm called directly",
         "Exploration: Add/Sub/Neg/Sum/cofactor/select/Equal, Mul, fixed-base (shared and custom tables), double-base, constant-time and vartime multiscalar (Straus, Pippenger w=6/7/8, expanded splits) at term counts crossing 190/500/800, Ristretto wrappers and the Montgomery ladder, on identity/torsion/mixed-order points in random projective scalings with unreduced and digit-extreme scalars; internal generic and vector algorithms are invoked directly irrespective of dispatch. Sampled.",
         "Trusts math/big and the reference formulas; the graft only calls unexported functions that exist in the tree.", "5.C03"),
 "C04": ("reference-model monitor (math/big) on field operations driven at raw-limb level through an in-package graft, on each backend incl. AVX2 lanes",
         "Exploration: every field operation is executed on operands whose limbs sit anywhere in the documented headroom (all-max, one-max, alternating, at the mask, [p,2p), word-boundary products, PRNG) and on values the API itself produces; results are read back limb-wise and via ToBytes and compared with math/big; assembly and portable multiply/square are both called on amd64; vector lanes are driven up to the envelope measured in situ. Sampled within the documented domain.",
         "Domain = headroom documented in the code comments (u64 < 2^54; u32 +1.75 bits for products, below 16p for subtrahends) and the measured AVX2 envelope; stressing beyond it would raise false alarms.", "5.C04"),
 "C05": ("reference-model monitor (math/big) on every scalar operation over a boundary catalogue (all ordered pairs) and PRNG values, both limb backends",
         "Exploration: Add/Sub/Mul/Neg/Reduce/Invert/BatchInvert/Sum/Product, narrow and wide reduction, and all canonicity predicates (incl. ScMinimalVartime word-compare paths) are compared with math/big on kL+-e, 2^k seams, fills, digit-extreme values, 256-bit and 512-bit extremes. Sampled.",
         "Trusts math/big. Unpacked-scalar internals are reached through the exported API only.", "5.C05"),
 "C06": ("differential monitor across the four build/CPU configurations: per-operation SHA-256 chains of canonical outputs of one deterministic workload must be equal",
         "Exploration: ~170 exported operations of all packages (and the Keccak permutation through a graft) are called on catalogue and PRNG inputs in avx2, asm (cpu.avx2=off), purego and force32bit processes; any difference in an output byte, decision, error class or panic class between two configurations is a violation. The thorough tier adds a reach meter (exported functions never executed).",
         "A defect shared by all four backends is invisible to this check (it is the business of the oracle-based checks). The workload is hand-enumerated.", "5.C06"),
 "C07": ("reference-model monitor (big-integer RFC 7748 ladder, x/crypto/curve25519, crypto/ecdh) on every X25519 entry point and conversion; field-contract monitor for the ladder's multiply-by-constant",
         "Exploration: all low-order and non-canonical u (incl. bit-255 forms), u in [p-40,p+18], clamping-sensitive scalars, PRNG pairs; exact error condition; lengths 0..72; DH symmetry; Ed25519->X25519 conversions for every decodable key class. Sampled.",
         "Trusts math/big and the two independent Go implementations; the field-contract part needs the field graft.", "5.C07"),
 "C08": ("binary-instrumentation sanitizer: fork-differential valgrind/lackey traces (every instruction and data address, Go and assembly) must be identical across secrets; plus per-basic-block execution counters (cover instrumentation) under hundreds of secrets on all four backends",
         "Exploration: ~57 constant-time operations x 7-14 structured secrets traced under lackey in children forked from one address-space image (self-calibrating with a duplicated secret; positive controls must fire); the block-counter monitor repeats every operation with 80-1000 secrets incl. equal halves, non-canonical encodings and L-adjacent values, and covers the 190-term multiscalar shape. Holds for the secrets tried.",
         "valgrind's synthetic CPU; data-dependent instruction latency is not a trace event; the block-counter monitor sees neither assembly nor memory indices (the lackey monitor does).", "5.C08"),
 "C09": ("model-based history checking: PRNG programs on a real BatchVerifier / cache.Verifier vs a model made of single-verification verdicts",
         "Exploration: histories over Add*/ForceNoPublicKeyExpansion/Reset/Verify/VerifyBatchOnly with batch sizes crossing 94 and 190 (to 1000 in thorough), adversarial and malformed entries, per-entry options from all 32 flag sets, several entropy sources; cache programs with capacities 1..4 and key universes larger than capacity, structure inspected after every operation. Sampled.",
         "Random 128-bit batch coefficients make a false batch accept negligible; no coefficient-aware forgeries are built. Single verification itself is monitored by C01.", "5.C09"),
 "C10": ("reference-model monitor (big-integer curve) on every decode/unmarshal/encode/predicate/conversion call; predicates driven in many projective scalings via a graft",
         "Exploration: exhaustive windows of y around 0, p and 2^255 (2x96 strings quick, 2x65536 thorough) with both sign bits, all non-canonical/torsion encodings, byte-position boundaries of the canonicity test, PRNG strings, lengths 0..70 with pre-loaded receivers, predicates on torsion/mixed/prime-order points in 8 scalings, SetMontgomery on structured u. Sampled outside the windows.",
         "Trusts math/big; projective rescaling needs the curve graft (falls back to API-produced representations).", "5.C10"),
 "C11": ("reference-model monitor (RFC 9496 pseudocode in big integers) on every ristretto255 decode/encode/equality/one-way-map/group call; coset representatives built through a graft",
         "Exploration: windows of s around 0, p and 2^255 with bit 255 clear/set, each RFC failure class, lengths 0..70, all four coset representatives x projective scalings for encode/Equal, distinct elements, SetUniformBytes on boundary halves. Sampled.",
         "Trusts math/big and the RFC constants; coset representatives need the curve graft.", "5.C11"),
 "C12": ("reference-model monitor (schnorrkel over reference Merlin/STROBE/Keccak and ristretto255) with deterministic entropy: exact signature bytes; mutation, decoder and batch-history monitors",
         "Exploration: both key expansions, contexts, bytes/hash/XOF transcripts with lengths hitting every rate-boundary residue, exact signature bytes, mutations decided by the reference, the four decoders on catalogues with round trips and neutral receivers, batch histories with malformed entries vs single verification. Sampled.",
         "Trusts the reference stack (validated against SHAKE128 and by agreement on the unchanged tree).", "5.C12"),
 "C13": ("history + executable model: PRNG operation programs on live transcripts mirrored by a reference Merlin/STROBE/Keccak; twin-collision monitor; permutation differential with canaries",
         "Exploration: programs over all transcript operations with lengths around the 166-byte rate, duplex position steered to the boundary before each operation kind, clones, RNG builders with zero-length witnesses; every produced byte compared; mutated twins must differ. Both Keccak implementations. Sampled.",
         "Trusts the reference permutation (self-tested against x/crypto/sha3 at start-up).", "5.C13"),
 "C14": ("reference-model monitor (RFC 9380 expanders, hash_to_field, Elligator 2, rational map in big integers) on every expander/suite/map call",
         "Exploration: hashes below/at/above the digest bound, XOFs with dirty state, DST lengths across 255/256, output lengths across 255*b, 256*b and 65535/65536, all suites on PRNG (DST,message) pairs incl. long DSTs with prime-order test, the map driven directly on exceptional and PRNG field elements. Sampled.",
         "Trusts Go's hash implementations and math/big.", "5.C14"),
 "C15": ("reference-model monitor (RFC 9381 / draft-10 prover and verifier in big integers) incl. a malicious prover and key-validation forgeries",
         "Exploration: proofs byte-equal to the reference, honest verification, output == ProofToHash, added randomness, cross-format rejection, 30+ bit flips per proof, s+kL, special Gamma encodings, torsion-shifted Gamma with c*T = O (must verify with the honest output), small-order keys with proofs only key validation can reject, lengths. Sampled.",
         "Trusts the reference (anchored to RFC vectors by agreement on the unchanged tree). Removal of the canonical-key check alone is observationally indistinguishable here (needs a discrete log); IsCanonicalVartime itself is monitored by C10.", "5.C15"),
 "C16": ("invariant hook on every FindShortVector result (big-integer congruence) with termination decided on loop ticks of an instrumented build; small-order equivalence monitor for the triple-base multiplication",
         "Exploration: ~7k structured k (powers of two and their negatives/inverses, L/m, continued-fraction extremes, rational reconstructions on a size grid, unreduced values) + PRNG; triple-base multiplication (plain/expanded, Edwards/Ristretto, generic/vector internals) on torsion-laden operands in random scalings. Sampled.",
         "Loop-tick budget = 200x the observed maximum; needs the vinstr instrumenter and the lattice/curve grafts.", "5.C16"),
 "C17": ("invariant monitor: every digit vector reconstructed and range-checked; the same scalars consumed by table-driven multiplications against the reference",
         "Exploration: exhaustive structured families (2^k, 2^k+-1, byte fills, every nibble at every position on two backgrounds, all-half digit strings, runs and bit pairs straddling the 64-bit word seams, byte-length prefixes) + PRNG values through Bits, NAF w=2..8, radix-16, radix-2^w w=6..8; consumption through radix-16/NAF/Pippenger(w=6,7,8) lookups. Sampled beyond the families.",
         "Digit rules are the documented ranges; math/big for reconstruction.", "5.C17"),
 "C18": ("Go race detector under a multi-goroutine stress workload over shared objects; linearizability checking (porcupine) of recorded Get/Put histories against a sequential LRU model; structural inspection under the cache's own lock",
         "Exploration: -race builds (default and purego) of a stress workload whose concurrent results must equal sequential ones, race reports counted from the detector's logs; hundreds to thousands of short barrier-synchronised cache histories with injected yields between the Get and Put of an upsert, unique values per Put, checked with porcupine; table digests before/after. Holds for the schedules observed.",
         "The race detector does not see assembly (purego build covers the Go code paths); histories that drive the real Verifier upsert are checked presence-only.", "5.C18"),
 "C19": ("recover()-based sanitizer over a table of ~70 byte-taking entry points with hostile lengths/contents, pre-loaded receivers and loop-tick budgets (instrumented build)",
         "Exploration: every entry x lengths 0..nominal+40, 2*nominal, 128, 255..257, 1000 (4 KiB, 70000, 1 MiB for message-like arguments) x {zeros, ff, valid prefix + junk, PRNG, every single-bit corruption of a valid example} + nil; documented-panic table; wrong length must fail; receivers neutral or unchanged after failure; termination on loop ticks.",
         "Documented panics are transcribed from the doc comments; private-key arguments of wrong length are caller bugs and not in the table.", "5.C19"),
 "C20": ("invariant check of live data at a quiescent point, exhaustive over the finite space: every constant/table entry read limb-wise through grafts and compared with big-integer definitions, per backend",
         "Exhaustive enumeration (evidence exhaustive=true): 32x8 packed fixed-base entries and the live copy, two 64-entry odd-multiple tables, B*2^128, the three start-up generated vector tables on AVX2, base points, EIGHT_TORSION by value and by coordinates (T = XY/Z), scalar Montgomery constants, lattice constants, curve/Ristretto/Elligator/field constants, in the 64-bit, 32-bit and vector encodings.",
         "Sign conventions of square-root constants are fixed by RFC 9496 / RFC 9380; needs the constant grafts.", "5.C20"),
}

PENDING_REASON = "check under construction in this build phase (design in DESIGN.md section 5); not yet claimed"

def main():
    props = [json.loads(l) for l in open('/verif/properties.jsonl')]
    checks, na = [], []
    for p in props:
        i = p['id']
        if i in CLAIMED:
            tech, text, note, ref = CLAIMED[i]
            text = text + ADDENDA.get(i, "") + ADD6.get(i, "") + ADD7.get(i, "") + ADD8.get(i, "")
            tech = tech + TECH_ADD.get(i, "")
            checks.append({
                "property_id": i,
                "quick_cmd": "./check %s quick" % i,
                "thorough_cmd": "./check %s thorough" % i,
                "evidence_file": "/verif/evidence/%s.json" % i,
                "replay_cmd_template": "./check --replay {path}",
                "engine": "vcheck",
                "level_claimed": {"category": "exploration", "text": text, "design_ref": ref},
                "level_note": note,
                "technique": tech,
            })
        else:
            na.append({"property_id": i, "reason": PENDING_REASON})
    m = {
        "version": 1,
        "setup_cmd": "sh /verif/setup.sh",
        "hooks": {
            "guard": "verif",
            "enable": "checks copy /repo's working tree to a scratch directory, copy the in-package observer files of /verif/graft (each starts with //go:build verif) into the copy, optionally run the vinstr source instrumenter on the copy, and build the drivers with -tags verif; nothing guarded is committed to /repo",
            "baseline_off_cmd": "cd /repo && GOFLAGS=-mod=mod GOPROXY=off GOSUMDB=off GOTOOLCHAIN=local go test -json -vet=off -count=1 -timeout 25m ./...",
            "source_commits": [],
            "add_only": True,
        },
        "engines": [
            {"name": "vcheck", "path": "/verif/tools/vcheck", "serves_properties": [c["property_id"] for c in checks],
             "kind_free_text": "orchestrator: scratch copy of the working tree, graft/instrument, build per configuration, run monitored driver processes, merge observations, known-findings filter, evidence"},
            {"name": "harness", "path": "/verif/harness", "serves_properties": [c["property_id"] for c in checks],
             "kind_free_text": "Go module with reference oracles (ref/), generators (gen/), monitor runtime (mon/) and one driver per property (drv/cNN)"},
            {"name": "lackeydiff", "path": "/verif/tools/lackeydiff", "serves_properties": ["C08"],
             "kind_free_text": "streams valgrind/lackey traces of forked children between two marker calls and reports the first diverging record, symbolised"},
            {"name": "vinstr", "path": "/verif/tools/vinstr", "serves_properties": ["C16", "C19"],
             "kind_free_text": "go/ast source instrumenter applied to the scratch copy: loop ticks (logical step budgets) and Pre/Post boundary wrappers"},
        ],
        "checks": checks,
        "not_applicable": na,
        "notes": "Technique family: runtime monitoring and sanitizers. All verdicts are 'held on the executions observed'. Exit codes of ./check: 0 held, 1 violation (VIOLATION line), 2 harness error, 3 inconclusive. Fix commits in /repo: 5fc114c, 58ddb44, 2f37ebb (see known_findings.json).",
    }
    json.dump(m, open('/verif/MANIFEST.json', 'w'), indent=1)
    print("claimed", len(checks), "not_applicable", len(na))

main()
