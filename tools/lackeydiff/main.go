package main

func main() {}
