// lackeydiff compares the lackey traces of forked children between two marker calls.
//
//	lackeydiff -dir D -marker HEXADDR -nm NMFILE pid0 pid1 pid2 ...
//
// pid0 and pid1 ran the SAME secret (calibration); pid2.. ran different secrets. Output: one JSON object.
package main

import (
	"bufio"
	"encoding/json"
	"flag"
	"fmt"
	"os"
	"path/filepath"
	"sort"
	"strconv"
	"strings"
)

type sym struct {
	addr uint64
	name string
}

var syms []sym

func loadNm(path string) {
	f, err := os.Open(path)
	if err != nil {
		return
	}
	defer f.Close()
	sc := bufio.NewScanner(f)
	sc.Buffer(make([]byte, 1<<20), 1<<20)
	for sc.Scan() {
		fs := strings.Fields(sc.Text())
		if len(fs) < 3 {
			continue
		}
		a, err := strconv.ParseUint(fs[0], 16, 64)
		if err != nil {
			continue
		}
		syms = append(syms, sym{a, fs[2]})
	}
	sort.Slice(syms, func(i, j int) bool { return syms[i].addr < syms[j].addr })
}

func symbolize(addr uint64) string {
	i := sort.Search(len(syms), func(i int) bool { return syms[i].addr > addr })
	if i == 0 {
		return fmt.Sprintf("0x%x", addr)
	}
	s := syms[i-1]
	return fmt.Sprintf("%s+0x%x", s.name, addr-s.addr)
}

// segment streams the lines between the first and the second execution of the marker.
type segReader struct {
	sc     *bufio.Scanner
	f      *os.File
	marker string
	state  int // 0 before, 1 inside, 2 done
}

func open(path, marker string) (*segReader, error) {
	f, err := os.Open(path)
	if err != nil {
		return nil, err
	}
	sc := bufio.NewScanner(f)
	sc.Buffer(make([]byte, 1<<16), 1<<16)
	return &segReader{sc: sc, f: f, marker: marker}, nil
}

func (s *segReader) next() (string, bool) {
	for s.state < 2 && s.sc.Scan() {
		l := s.sc.Text()
		isMarker := strings.HasPrefix(l, "I") && strings.HasPrefix(strings.TrimLeft(l[1:], " "), s.marker)
		switch s.state {
		case 0:
			if isMarker {
				s.state = 1
			}
		case 1:
			if isMarker {
				s.state = 2
				return "", false
			}
			return l, true
		}
	}
	return "", false
}

type cmp struct {
	Pid        string `json:"pid"`
	Identical  bool   `json:"identical"`
	Lines      int64  `json:"lines"`
	DiffAt     int64  `json:"diff_at,omitempty"`
	Kind       string `json:"kind,omitempty"` // control-flow | memory-address | length
	A          string `json:"a,omitempty"`
	B          string `json:"b,omitempty"`
	LastInstr  string `json:"last_instr,omitempty"`
	MarkerSeen bool   `json:"marker_seen"`
}

func compare(dir, marker, pa, pb string) cmp {
	out := cmp{Pid: pb}
	ra, err := open(filepath.Join(dir, "t."+pa), marker)
	if err != nil {
		out.Kind = "missing-trace"
		return out
	}
	defer ra.f.Close()
	rb, err := open(filepath.Join(dir, "t."+pb), marker)
	if err != nil {
		out.Kind = "missing-trace"
		return out
	}
	defer rb.f.Close()
	lastI := ""
	for {
		la, oka := ra.next()
		lb, okb := rb.next()
		if !oka && !okb {
			out.Identical = ra.state == 2 && rb.state == 2
			out.MarkerSeen = out.Identical
			if !out.Identical {
				out.Kind = "marker-not-found"
			}
			return out
		}
		if oka != okb {
			out.Kind, out.DiffAt, out.A, out.B = "length", out.Lines, la, lb
			out.LastInstr = lastI
			return out
		}
		if la != lb {
			out.DiffAt, out.A, out.B = out.Lines, la, lb
			if strings.HasPrefix(la, "I") || strings.HasPrefix(lb, "I") {
				out.Kind = "control-flow"
			} else {
				out.Kind = "memory-address"
			}
			out.LastInstr = lastI
			return out
		}
		if strings.HasPrefix(la, "I") {
			lastI = la
		}
		out.Lines++
	}
}

func instrAddr(l string) (uint64, bool) {
	l = strings.TrimSpace(strings.TrimPrefix(l, "I"))
	if i := strings.Index(l, ","); i > 0 {
		l = l[:i]
	}
	a, err := strconv.ParseUint(l, 16, 64)
	return a, err == nil
}

func main() {
	dir := flag.String("dir", "", "trace directory")
	marker := flag.String("marker", "", "hex address of the marker function (as printed by lackey, without 0x)")
	nm := flag.String("nm", "", "output of go tool nm -n for symbolisation")
	flag.Parse()
	pids := flag.Args()
	if len(pids) < 3 {
		fmt.Println(`{"error":"need at least 3 pids"}`)
		os.Exit(2)
	}
	loadNm(*nm)
	res := map[string]any{}
	cal := compare(*dir, *marker, pids[0], pids[1])
	res["calibration"] = cal
	var cmps []cmp
	for _, p := range pids[2:] {
		c := compare(*dir, *marker, pids[0], p)
		if !c.Identical && c.LastInstr != "" {
			if a, ok := instrAddr(c.LastInstr); ok {
				c.LastInstr = symbolize(a)
			}
		}
		cmps = append(cmps, c)
	}
	res["comparisons"] = cmps
	b, _ := json.Marshal(res)
	fmt.Println(string(b))
}
