// vinstr instruments a scratch copy of the library: a Tick() call at the head of every loop body
// (logical-step budgets) and Pre/Post wrappers around configured functions (boundary hooks).
package main

import (
	"bytes"
	"encoding/json"
	"flag"
	"fmt"
	"go/ast"
	"go/parser"
	"go/printer"
	"go/token"
	"os"
	"path/filepath"
	"sort"
	"strings"
)

const rtPath = "github.com/oasisprotocol/curve25519-voi/internal/zzverifrt"

func recvName(fd *ast.FuncDecl) string {
	if fd.Recv == nil || len(fd.Recv.List) == 0 {
		return ""
	}
	t := fd.Recv.List[0].Type
	if s, ok := t.(*ast.StarExpr); ok {
		t = s.X
	}
	if id, ok := t.(*ast.Ident); ok {
		return id.Name
	}
	return "?"
}

func main() {
	rootF := flag.String("root", "", "library tree to instrument in place (a scratch copy)")
	modeF := flag.String("mode", "tick", "comma list of tick, wrap")
	wrapF := flag.String("wrap", "", "comma list of dir:Recv.Func targets (dir relative to root; Recv empty for plain functions)")
	reportF := flag.String("report", "", "JSON report path")
	flag.Parse()
	root := *rootF
	doTick := strings.Contains(*modeF, "tick")
	doWrap := strings.Contains(*modeF, "wrap")
	wrapSet := map[string]bool{}
	wrapped := map[string]bool{}
	if doWrap {
		for _, w := range strings.Split(*wrapF, ",") {
			if w != "" {
				wrapSet[w] = true
			}
		}
	}
	nt, nw := 0, 0
	filepath.Walk(root, func(path string, info os.FileInfo, err error) error {
		if err != nil || info.IsDir() || !strings.HasSuffix(path, ".go") || strings.HasSuffix(path, "_test.go") {
			return nil
		}
		if strings.Contains(path, "/internal/asm/") || strings.Contains(path, "/internal/zzverifrt/") {
			return nil
		}
		fset := token.NewFileSet()
		f, err := parser.ParseFile(fset, path, nil, parser.ParseComments)
		if err != nil {
			panic(err)
		}
		rel, _ := filepath.Rel(root, filepath.Dir(path))
		changed := false
		// tick
		if doTick {
			ast.Inspect(f, func(n ast.Node) bool {
				var body *ast.BlockStmt
				switch s := n.(type) {
				case *ast.ForStmt:
					body = s.Body
				case *ast.RangeStmt:
					body = s.Body
				}
				if body != nil {
					call := &ast.ExprStmt{X: &ast.CallExpr{Fun: &ast.SelectorExpr{X: ast.NewIdent("zzverifrt"), Sel: ast.NewIdent("Tick")}}}
					body.List = append([]ast.Stmt{call}, body.List...)
					changed = true
					nt++
				}
				return true
			})
		}
		// wrap
		var extra []ast.Decl
		for _, d := range f.Decls {
			fd, ok := d.(*ast.FuncDecl)
			if !ok || fd.Body == nil {
				continue
			}
			key := rel + ":" + recvName(fd) + "." + fd.Name.Name
			if !wrapSet[key] {
				continue
			}
			wrapped[key] = true
			orig := fd.Name.Name
			// name all params / results
			var args []ast.Expr
			hookArgs := []ast.Expr{&ast.BasicLit{Kind: token.STRING, Value: fmt.Sprintf("%q", key)}}
			var newRecv *ast.FieldList
			if fd.Recv != nil {
				newRecv = &ast.FieldList{List: []*ast.Field{{Names: []*ast.Ident{ast.NewIdent("zzr")}, Type: fd.Recv.List[0].Type}}}
				hookArgs = append(hookArgs, ast.NewIdent("zzr"))
			}
			newParams := &ast.FieldList{}
			i := 0
			for _, p := range fd.Type.Params.List {
				n := len(p.Names)
				if n == 0 {
					n = 1
				}
				var names []*ast.Ident
				for j := 0; j < n; j++ {
					id := ast.NewIdent(fmt.Sprintf("zza%d", i))
					i++
					names = append(names, id)
					args = append(args, id)
					hookArgs = append(hookArgs, id)
				}
				newParams.List = append(newParams.List, &ast.Field{Names: names, Type: p.Type})
			}
			var fun ast.Expr = ast.NewIdent("zzOrig" + orig)
			if fd.Recv != nil {
				fun = &ast.SelectorExpr{X: ast.NewIdent("zzr"), Sel: ast.NewIdent("zzOrig" + orig)}
			}
			call := &ast.CallExpr{Fun: fun, Args: args}
			pre := &ast.ExprStmt{X: &ast.CallExpr{Fun: &ast.SelectorExpr{X: ast.NewIdent("zzverifrt"), Sel: ast.NewIdent("Pre")}, Args: hookArgs}}
			var stmts []ast.Stmt
			stmts = append(stmts, pre)
			postArgs := append([]ast.Expr{}, hookArgs...)
			if fd.Type.Results != nil && len(fd.Type.Results.List) > 0 {
				var lhs []ast.Expr
				k := 0
				for _, r := range fd.Type.Results.List {
					n := len(r.Names)
					if n == 0 {
						n = 1
					}
					for j := 0; j < n; j++ {
						id := ast.NewIdent(fmt.Sprintf("zzres%d", k))
						k++
						lhs = append(lhs, id)
						postArgs = append(postArgs, id)
					}
				}
				stmts = append(stmts, &ast.AssignStmt{Lhs: lhs, Tok: token.DEFINE, Rhs: []ast.Expr{call}})
				stmts = append(stmts, &ast.ExprStmt{X: &ast.CallExpr{Fun: &ast.SelectorExpr{X: ast.NewIdent("zzverifrt"), Sel: ast.NewIdent("Post")}, Args: postArgs}})
				stmts = append(stmts, &ast.ReturnStmt{Results: lhs})
			} else {
				stmts = append(stmts, &ast.ExprStmt{X: call})
				stmts = append(stmts, &ast.ExprStmt{X: &ast.CallExpr{Fun: &ast.SelectorExpr{X: ast.NewIdent("zzverifrt"), Sel: ast.NewIdent("Post")}, Args: postArgs}})
			}
			// results type list without names
			var resT *ast.FieldList
			if fd.Type.Results != nil {
				resT = &ast.FieldList{}
				for _, r := range fd.Type.Results.List {
					n := len(r.Names)
					if n == 0 {
						n = 1
					}
					for j := 0; j < n; j++ {
						resT.List = append(resT.List, &ast.Field{Type: r.Type})
					}
				}
			}
			w := &ast.FuncDecl{Recv: newRecv, Name: ast.NewIdent(orig), Type: &ast.FuncType{Params: newParams, Results: resT}, Body: &ast.BlockStmt{List: stmts}}
			fd.Name = ast.NewIdent("zzOrig" + orig)
			extra = append(extra, w)
			changed = true
			nw++
		}
		if !changed {
			return nil
		}
		f.Decls = append(f.Decls, extra...)
		// add import
		imp := &ast.GenDecl{Tok: token.IMPORT, Specs: []ast.Spec{&ast.ImportSpec{Path: &ast.BasicLit{Kind: token.STRING, Value: fmt.Sprintf("%q", rtPath)}}}}
		f.Decls = append([]ast.Decl{imp}, f.Decls...)
		var buf bytes.Buffer
		if err := printer.Fprint(&buf, fset, f); err != nil {
			panic(err)
		}
		os.WriteFile(path, buf.Bytes(), 0o644)
		return nil
	})
	var missing []string
	for w := range wrapSet {
		if !wrapped[w] {
			missing = append(missing, w)
		}
	}
	sort.Strings(missing)
	rep, _ := json.Marshal(map[string]interface{}{"loop_ticks_injected": nt, "wrappers_injected": nw, "wrap_targets_missing": missing})
	if *reportF != "" {
		os.WriteFile(*reportF, rep, 0o644)
	}
	fmt.Println(string(rep))
}
