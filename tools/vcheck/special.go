package main

import (
	"encoding/json"
	"fmt"
	"os"
	"path/filepath"
	"regexp"
	"sort"
	"strings"
	"sync"
)

func runC08(c *ctx, cfgNames []string) []procOut { return nil }

// runC18 runs the -race builds with the detector's reports sent to log files, then turns every distinct
// report into a violation (deduplicated by the pair of outermost library entry points).
func runC18(c *ctx, cfgNames []string) []procOut {
	outs := make([]procOut, len(cfgNames))
	var wg sync.WaitGroup
	for i, cn := range cfgNames {
		wg.Add(1)
		go func(i int, cn string) {
			defer wg.Done()
			logBase := filepath.Join(c.scratch, "out", "race-"+cn)
			env := []string{"GORACE=halt_on_error=0 log_path=" + logBase + " history_size=4"}
			po := c.runConfig(configs[cn], 8, nil, env, "")
			files, _ := filepath.Glob(logBase + ".*")
			type rep struct {
				key, text string
			}
			var reps []rep
			for _, f := range files {
				b, err := os.ReadFile(f)
				if err != nil {
					continue
				}
				for _, block := range strings.Split(string(b), "==================") {
					if !strings.Contains(block, "WARNING: DATA RACE") {
						continue
					}
					reps = append(reps, rep{raceKey(block), block})
				}
			}
			if po.res != nil {
				if po.res.Observed == nil {
					po.res.Observed = map[string]any{}
				}
				po.res.Observed["race_reports"] = len(reps)
				seen := map[string]bool{}
				var keys []string
				for _, rp := range reps {
					if seen[rp.key] {
						continue
					}
					seen[rp.key] = true
					keys = append(keys, rp.key)
					txt := rp.text
					if len(txt) > 4000 {
						txt = txt[:4000]
					}
					raw, _ := json.Marshal(map[string]any{"report": txt, "case": map[string]any{"kind": "stress", "stream": "c18/stress/0", "clients": 8, "ops": 40}})
					po.res.Violations = append(po.res.Violations, violation{Sig: "data-race/" + rp.key, What: fmt.Sprintf("race detector report (%d reports in this run): %s", len(reps), rp.key), Config: cn, Case: raw})
					po.res.NViolations++
				}
				sort.Strings(keys)
				po.res.Observed["race_report_classes"] = keys
			} else if len(reps) > 0 {
				// the process died but left reports
				raw, _ := json.Marshal(map[string]any{"report": reps[0].text})
				po.res = &result{Property: "C18", Config: cn, Complete: true, Evaluations: 1, Violations: []violation{{Sig: "data-race/" + reps[0].key, What: reps[0].key, Config: cn, Case: raw}}, NViolations: 1}
			}
			outs[i] = po
		}(i, cn)
	}
	wg.Wait()
	return outs
}

var frameRe = regexp.MustCompile(`(?m)^  (github\.com/oasisprotocol/curve25519-voi/[^\s(]+)\(`)

// raceKey: the outermost library functions of the two stacks, line numbers stripped.
func raceKey(block string) string {
	parts := strings.Split(block, "\n\n")
	var outer []string
	for _, p := range parts {
		if !(strings.Contains(p, "by goroutine") || strings.Contains(p, "by main goroutine")) || strings.Contains(p, "created at") {
			continue
		}
		ms := frameRe.FindAllStringSubmatch(p, -1)
		last := ""
		for _, m := range ms {
			if !strings.Contains(m[1], "/zzverif/") {
				last = m[1]
			}
		}
		if last != "" {
			outer = append(outer, strings.TrimPrefix(last, "github.com/oasisprotocol/curve25519-voi/"))
		}
		if len(outer) == 2 {
			break
		}
	}
	sort.Strings(outer)
	if len(outer) == 0 {
		return "unattributed"
	}
	return strings.Join(outer, " <-> ")
}
