package main

import (
	"context"
	"encoding/json"
	"fmt"
	"os"
	"os/exec"
	"path/filepath"
	"regexp"
	"sort"
	"strconv"
	"strings"
	"sync"
	"time"
)

// runC18 runs the -race builds with the detector's reports sent to log files, then turns every distinct
// report into a violation (deduplicated by the pair of outermost library entry points).
func runC18(c *ctx, cfgNames []string) []procOut {
	outs := make([]procOut, len(cfgNames))
	var wg sync.WaitGroup
	for i, cn := range cfgNames {
		wg.Add(1)
		go func(i int, cn string) {
			defer wg.Done()
			logBase := filepath.Join(c.scratch, "out", "race-"+cn)
			env := []string{"GORACE=halt_on_error=0 log_path=" + logBase + " history_size=4"}
			// cold starts: fresh processes whose first library operations are concurrent (lazy initialisation under
			// contention); their race reports land in the same log set
			nCold := 4
			if c.tier == "thorough" {
				nCold = 16
			}
			var coldViol []violation
			var coldFailed []string
			coldHisto := map[string]int64{}
			var coldEvals int64
			for k := 0; k < nCold; k++ {
				cc := configs[cn]
				// scheduling varies with the number of Ps: cold starts alternate between all cores, 2 and 1
				cenv := append([]string{}, env...)
				if gm := []string{"", "2", "1", "4"}[k%4]; gm != "" {
					cenv = append(cenv, "GOMAXPROCS="+gm)
				}
				cpo := c.runConfig(cc, 8, []string{"-coldstart"}, cenv, fmt.Sprintf("+cold%d", k))
				if cpo.res != nil {
					coldViol = append(coldViol, cpo.res.Violations...)
					coldEvals += cpo.res.Evaluations
					for hk, hv := range cpo.res.Histo {
						coldHisto[hk] += hv
					}
				} else {
					coldFailed = append(coldFailed, fmt.Sprintf("cold-start process %d (%s) gave no result: exit=%d %s", k, cn, cpo.exitCode, tail(cpo.stderr, 300)))
				}
			}
			po := c.runConfig(configs[cn], 8, nil, env, "")
			if po.res != nil {
				po.res.Violations = append(po.res.Violations, coldViol...)
				po.res.NViolations += int64(len(coldViol))
				po.res.Evaluations += coldEvals
				if po.res.Histo == nil {
					po.res.Histo = map[string]int64{}
				}
				po.res.Histo["coldstart/processes"] += int64(nCold)
				for hk, hv := range coldHisto {
					po.res.Histo[hk] += hv
				}
				po.res.Inconclusive = append(po.res.Inconclusive, coldFailed...)
			}
			files, _ := filepath.Glob(logBase + ".*")
			type rep struct {
				key, text string
			}
			var reps []rep
			for _, f := range files {
				b, err := os.ReadFile(f)
				if err != nil {
					continue
				}
				for _, block := range strings.Split(string(b), "==================") {
					if !strings.Contains(block, "WARNING: DATA RACE") {
						continue
					}
					reps = append(reps, rep{raceKey(block), block})
				}
			}
			if po.res != nil {
				if po.res.Observed == nil {
					po.res.Observed = map[string]any{}
				}
				po.res.Observed["race_reports"] = len(reps)
				seen := map[string]bool{}
				var keys []string
				for _, rp := range reps {
					if seen[rp.key] {
						continue
					}
					seen[rp.key] = true
					keys = append(keys, rp.key)
					txt := rp.text
					if len(txt) > 4000 {
						txt = txt[:4000]
					}
					raw, _ := json.Marshal(map[string]any{"report": txt, "case": map[string]any{"kind": "stress", "stream": "c18/stress/0", "clients": 8, "ops": 40}})
					po.res.Violations = append(po.res.Violations, violation{Sig: "data-race/" + rp.key, What: fmt.Sprintf("race detector report (%d reports in this run): %s", len(reps), rp.key), Config: cn, Case: raw})
					po.res.NViolations++
				}
				sort.Strings(keys)
				po.res.Observed["race_report_classes"] = keys
			} else if len(reps) > 0 {
				// the process died but left reports
				raw, _ := json.Marshal(map[string]any{"report": reps[0].text})
				po.res = &result{Property: "C18", Config: cn, Complete: true, Evaluations: 1, Violations: []violation{{Sig: "data-race/" + reps[0].key, What: reps[0].key, Config: cn, Case: raw}}, NViolations: 1}
			}
			outs[i] = po
		}(i, cn)
	}
	wg.Wait()
	return outs
}

var frameRe = regexp.MustCompile(`(?m)^  (github\.com/oasisprotocol/curve25519-voi/[^\s(]+)\(`)

// raceKey: the outermost library functions of the two stacks, line numbers stripped.
func raceKey(block string) string {
	parts := strings.Split(block, "\n\n")
	var outer []string
	for _, p := range parts {
		if !(strings.Contains(p, "by goroutine") || strings.Contains(p, "by main goroutine")) || strings.Contains(p, "created at") {
			continue
		}
		ms := frameRe.FindAllStringSubmatch(p, -1)
		last := ""
		for _, m := range ms {
			if !strings.Contains(m[1], "/zzverif/") {
				last = m[1]
			}
		}
		if last != "" {
			outer = append(outer, strings.TrimPrefix(last, "github.com/oasisprotocol/curve25519-voi/"))
		}
		if len(outer) == 2 {
			break
		}
	}
	sort.Strings(outer)
	if len(outer) == 0 {
		return "unattributed"
	}
	return strings.Join(outer, " <-> ")
}

// ---------------------------------------------------------------- C08: fork-differential lackey traces

type ldCmp struct {
	Pid       string `json:"pid"`
	Identical bool   `json:"identical"`
	Lines     int64  `json:"lines"`
	DiffAt    int64  `json:"diff_at"`
	Kind      string `json:"kind"`
	A         string `json:"a"`
	B         string `json:"b"`
	LastInstr string `json:"last_instr"`
}

type ldOut struct {
	Calibration ldCmp   `json:"calibration"`
	Comparisons []ldCmp `json:"comparisons"`
	Error       string  `json:"error"`
}

type c08Job struct {
	cfg string
	op  string
}

func runC08(c *ctx, cfgNames []string) []procOut {
	nsecrets := 7
	if c.tier == "thorough" {
		nsecrets = 14
	}
	if v := os.Getenv("VERIF_C08_SECRETS"); v != "" {
		nsecrets, _ = strconv.Atoi(v)
	}
	type cfgInfo struct {
		bin, nm, marker string
		ops             []string
	}
	infos := map[string]*cfgInfo{}
	results := map[string]*result{}
	var jobs []c08Job
	for _, cn := range cfgNames {
		bin := c.binPath(configs[cn].Build)
		info := &cfgInfo{bin: bin, nm: filepath.Join(c.scratch, "out", "nm."+configs[cn].Build)}
		if _, err := os.Stat(info.nm); err != nil {
			out, _ := run("", goEnv(), "go", "tool", "nm", "-n", bin)
			os.WriteFile(info.nm, []byte(out), 0o644)
		}
		nmb, _ := os.ReadFile(info.nm)
		for _, l := range strings.Split(string(nmb), "\n") {
			if strings.HasSuffix(l, " main.marker") {
				a, _ := strconv.ParseUint(strings.Fields(l)[0], 16, 64)
				info.marker = fmt.Sprintf("%08x,", a)
			}
		}
		lst, _ := run("", nil, bin, "-list")
		for _, op := range strings.Split(strings.TrimSpace(lst), "\n") {
			if op == "" {
				continue
			}
			if strings.Contains(op, "n=190") && c.tier != "thorough" && os.Getenv("VERIF_C08_BIG") == "" {
				continue
			}
			info.ops = append(info.ops, op)
			jobs = append(jobs, c08Job{cn, op})
		}
		infos[cn] = info
		results[cn] = &result{Property: "C08", Config: cn, Complete: true, Histo: map[string]int64{}, Max: map[string]int64{}, Observed: map[string]any{},
			Rule: "operations x secrets: each operation is traced (valgrind lackey: every instruction address and every load/store address) in forked children that start from one address-space image and differ only in the secret {two copies of one PRNG value (calibration), another PRNG value, 0^64, ff^64, 0x88.., equal halves, non-canonical field encoding (+ 0x77.., one-hot low/high, L-1|L+1, two more PRNG values in the thorough tier)}; the trace segment between the markers must be byte-identical; non-trivial = (operation, secret) comparison against the first child; distinct = operation x secret"}
		if info.marker == "" {
			results[cn].Inconclusive = append(results[cn].Inconclusive, "marker symbol not found")
		}
	}
	if only := os.Getenv("VERIF_C08_OPS"); only != "" {
		var f []c08Job
		for _, j := range jobs {
			if strings.Contains(j.op, only) {
				f = append(f, j)
			}
		}
		jobs = f
	}
	var mu sync.Mutex
	sem := make(chan struct{}, 8)
	var wg sync.WaitGroup
	for ji, j := range jobs {
		wg.Add(1)
		sem <- struct{}{}
		go func(ji int, j c08Job) {
			defer wg.Done()
			defer func() { <-sem }()
			info := infos[j.cfg]
			res := results[j.cfg]
			dir := filepath.Join(c.scratch, "out", fmt.Sprintf("tr-%s-%d", j.cfg, ji))
			os.MkdirAll(dir, 0o755)
			defer os.RemoveAll(dir)
			cctx, cancel := context.WithTimeout(context.Background(), 15*time.Minute)
			defer cancel()
			cmd := exec.CommandContext(cctx, "valgrind", "--tool=lackey", "--trace-mem=yes", "--log-file="+filepath.Join(dir, "t.%p"), info.bin, j.op, strconv.Itoa(nsecrets))
			cmd.Env = append(goEnv(), configs[j.cfg].Env...)
			outb, err := cmd.CombinedOutput()
			var pids []string
			for _, l := range strings.Split(string(outb), "\n") {
				if strings.HasPrefix(l, "pids ") {
					pids = strings.Fields(l)[1:]
				}
			}
			mu.Lock()
			defer mu.Unlock()
			if err != nil || len(pids) < 3 {
				res.Inconclusive = append(res.Inconclusive, fmt.Sprintf("%s: traced run failed (%v): %s", j.op, err, tail(string(outb), 300)))
				return
			}
			mu.Unlock()
			args := append([]string{"-dir", dir, "-marker", info.marker, "-nm", info.nm}, pids...)
			ldo, _ := run("", nil, filepath.Join(verifDir, "bin", "lackeydiff"), args...)
			mu.Lock()
			var ld ldOut
			if json.Unmarshal([]byte(strings.TrimSpace(ldo)), &ld) != nil || ld.Error != "" {
				res.Inconclusive = append(res.Inconclusive, fmt.Sprintf("%s: trace comparison failed: %s", j.op, tail(ldo, 200)))
				return
			}
			isControl := strings.HasPrefix(j.op, "control.")
			if !ld.Calibration.Identical {
				// two children with the same secret differ: the environment is noisy for this operation
				res.Inconclusive = append(res.Inconclusive, fmt.Sprintf("%s: calibration pair (same secret) differs at record %d (%s): not comparable", j.op, ld.Calibration.DiffAt, ld.Calibration.Kind))
				return
			}
			res.Histo["operations-traced"]++
			if ld.Calibration.Lines > res.Max["trace-records-per-child"] {
				res.Max["trace-records-per-child"] = ld.Calibration.Lines
			}
			res.Histo["trace-records-compared"] += ld.Calibration.Lines * int64(1+len(ld.Comparisons))
			flagged := false
			for i, cm := range ld.Comparisons {
				res.Evaluations++
				res.Distinct++
				if cm.Identical {
					continue
				}
				flagged = true
				if isControl {
					continue
				}
				raw, _ := json.Marshal(map[string]any{"operation": j.op, "config": j.cfg, "secret_index": i + 2, "kind": cm.Kind, "record": cm.DiffAt, "child0": cm.A, "childN": cm.B, "after_instruction": cm.LastInstr})
				res.Violations = append(res.Violations, violation{Sig: "not-constant-time/" + j.op + "/" + cm.Kind, What: fmt.Sprintf("%s: trace of secret #%d diverges from secret #0 at record %d (%s) after %s: %q vs %q", j.op, i+2, cm.DiffAt, cm.Kind, cm.LastInstr, cm.A, cm.B), Config: j.cfg, Case: raw})
				res.NViolations++
				break
			}
			if isControl {
				if flagged {
					res.Histo["controls-fired"]++
				} else {
					res.Inconclusive = append(res.Inconclusive, j.op+": the positive control was NOT flagged; the monitor is blind")
				}
			} else if !flagged {
				res.Histo["operations-identical"]++
			}
			if len(res.Samples) < 4 {
				res.Samples = append(res.Samples, map[string]any{"category": "traced-operation", "case": map[string]any{"operation": j.op, "config": j.cfg, "children": len(pids), "records_per_child": ld.Calibration.Lines, "all_identical": !flagged}})
			}
		}(ji, j)
	}
	wg.Wait()
	var outs []procOut
	if os.Getenv("VERIF_C08_OPS") == "" || os.Getenv("VERIF_C08_COV") != "" {
		outs = append(outs, runC08Cov(c)...)
	}
	for _, cn := range cfgNames {
		r := results[cn]
		r.Observed["secrets_per_operation"] = nsecrets
		r.Observed["operations"] = infos[cn].ops
		if r.Histo["controls-fired"] < 2 && os.Getenv("VERIF_C08_OPS") == "" {
			r.Inconclusive = append(r.Inconclusive, fmt.Sprintf("only %d of 2 positive controls fired", r.Histo["controls-fired"]))
		}
		outs = append(outs, procOut{cfg: cn, res: r})
	}
	return outs
}

// runC08Cov builds the block-counter driver with coverage instrumentation of the library packages and runs
// it in all four configurations.
func runC08Cov(c *ctx) []procOut {
	const lib = "github.com/oasisprotocol/curve25519-voi/"
	coverpkg := lib + "curve/...," + lib + "internal/...," + lib + "primitives/...," + lib + "zzverif/drv/c08cov"
	var wg sync.WaitGroup
	var mu sync.Mutex
	var outs []procOut
	buildErr := map[string]string{}
	for _, bn := range []string{"default", "purego", "force32bit"} {
		wg.Add(1)
		go func(bn string) {
			defer wg.Done()
			b := builds[bn]
			tags := append([]string{}, b.Tags...)
			if c.useGraft {
				tags = append(tags, "verif")
			}
			args := []string{"build", "-trimpath", "-cover", "-covermode=atomic", "-coverpkg=" + coverpkg}
			if len(tags) > 0 {
				args = append(args, "-tags", strings.Join(tags, ","))
			}
			args = append(args, "-o", c.binPath("cov."+bn), "./drv/c08cov")
			if out, err := run(filepath.Join(c.scratch, "h"), goEnv(), "go", args...); err != nil {
				mu.Lock()
				buildErr[bn] = firstLines(out, 10)
				mu.Unlock()
			}
		}(bn)
	}
	wg.Wait()
	for _, cn := range all4 {
		cfg := configs[cn]
		if e, bad := buildErr[cfg.Build]; bad {
			outs = append(outs, procOut{cfg: cn + "+blocks", exitCode: 2, stderr: "HARNESS-ERROR cover build failed: " + e})
			continue
		}
		wg.Add(1)
		go func(cn string, cfg configSpec) {
			defer wg.Done()
			covdir := filepath.Join(c.scratch, "out", "covdir-"+cn)
			os.MkdirAll(covdir, 0o755)
			cc := cfg
			cc.Build = "cov." + cfg.Build
			var extra []string
			if rp := os.Getenv("VERIF_C08_REPLAY"); rp != "" {
				extra = []string{"-replay", rp}
			}
			po := c.runConfig(cc, 1, extra, []string{"GOCOVERDIR=" + covdir}, "+blocks")
			os.RemoveAll(covdir)
			mu.Lock()
			outs = append(outs, po)
			mu.Unlock()
		}(cn, cfg)
	}
	wg.Wait()
	sort.Slice(outs, func(i, j int) bool { return outs[i].cfg < outs[j].cfg })
	return outs
}

// reachMeter (C06): builds the workload driver with coverage instrumentation of the library packages, runs it
// once per build and lists the exported functions and methods that the workload never executed, so that an API
// that is not monitored shows up in the evidence instead of being silently skipped.
func reachMeter(c *ctx) map[string]any {
	const lib = "github.com/oasisprotocol/curve25519-voi/"
	coverpkg := lib + "curve/...," + lib + "internal/...," + lib + "primitives/...," + lib + "zzverif/drv/c06"
	out := map[string]any{}
	var mu sync.Mutex
	var wg sync.WaitGroup
	for _, bn := range []string{"default", "purego", "force32bit"} {
		wg.Add(1)
		go func(bn string) {
			defer wg.Done()
			b := builds[bn]
			tags := append([]string{}, b.Tags...)
			if c.useGraft {
				tags = append(tags, "verif")
			}
			bin := c.binPath("reach." + bn)
			args := []string{"build", "-trimpath", "-cover", "-coverpkg=" + coverpkg}
			if len(tags) > 0 {
				args = append(args, "-tags", strings.Join(tags, ","))
			}
			args = append(args, "-o", bin, "./drv/c06")
			if o, err := run(filepath.Join(c.scratch, "h"), goEnv(), "go", args...); err != nil {
				mu.Lock()
				out[bn] = "cover build failed: " + firstLines(o, 5)
				mu.Unlock()
				return
			}
			covdir := filepath.Join(c.scratch, "out", "reach-"+bn)
			os.MkdirAll(covdir, 0o755)
			cmd := exec.Command(bin, "-config", bn, "-tier", "quick", "-seed", strconv.FormatInt(c.seed, 10), "-out", filepath.Join(covdir, "result.json"))
			cmd.Env = append(goEnv(), "GOCOVERDIR="+covdir)
			cmd.Dir = covdir
			cmd.CombinedOutput()
			fo, _ := run(covdir, goEnv(), "go", "tool", "covdata", "func", "-i="+covdir)
			var missed []string
			total, exported := 0, 0
			for _, l := range strings.Split(fo, "\n") {
				f := strings.Fields(l)
				if len(f) != 3 || !strings.HasSuffix(f[2], "%") {
					continue
				}
				total++
				name := f[1]
				loc := strings.TrimPrefix(f[0], lib)
				if strings.Contains(loc, "/zzverif") || strings.Contains(loc, "zz_verif") || strings.Contains(loc, "internal/asm/") || strings.Contains(loc, "internal/testhelpers") {
					continue
				}
				// exported function, or exported method of an exported type
				base := name
				recvOK := true
				if i := strings.LastIndex(name, "."); i >= 0 {
					base = name[i+1:]
					recv := strings.TrimLeft(name[:i], "(*")
					recvOK = recv != "" && recv[0] >= 'A' && recv[0] <= 'Z'
				}
				if base == "" || base[0] < 'A' || base[0] > 'Z' || !recvOK {
					continue
				}
				exported++
				if f[2] == "0.0%" {
					missed = append(missed, loc[:strings.Index(loc, ":")]+" "+name)
				}
			}
			sort.Strings(missed)
			mu.Lock()
			out[bn] = map[string]any{"functions_in_profile": total, "exported_functions": exported, "exported_not_executed": missed}
			mu.Unlock()
			os.RemoveAll(covdir)
		}(bn)
	}
	wg.Wait()
	return out
}

// ---------------------------------------------------------------- in-situ contract monitors (wrap instrumentation)

var wrapTargets = []string{
	"internal/field:Element.Add", "internal/field:Element.Sub", "internal/field:Element.Neg", "internal/field:Element.Mul",
	"internal/field:Element.Square", "internal/field:Element.Square2", "internal/field:Element.Pow2k", "internal/field:Element.Mul121666",
	"internal/field:Element.Invert", "internal/field:Element.SqrtRatioI", "internal/field:Element.ToBytes", "internal/field:Element.SetBytes",
	"internal/field:Element.SetBytesWide", "internal/field:Element.ConditionalSelect", "internal/field:Element.ConditionalSwap",
	"internal/field:Element.ConditionalAssign", "internal/field:Element.ConditionalNegate", "internal/field:Element.IsNegative",
	"internal/field:Element.IsZero", "internal/field:Element.Equal",
	"curve/scalar:Scalar.ToRadix16", "curve/scalar:Scalar.NonAdjacentForm", "curve/scalar:Scalar.ToRadix2w", "curve/scalar:Scalar.Bits",
	"curve:projectiveNielsPointLookupTable.Lookup", "curve:affineNielsPointLookupTable.Lookup", "curve:cachedPointLookupTable.Lookup",
	"curve:projectiveNielsPointNafLookupTable.Lookup", "curve:cachedPointNafLookupTable.Lookup", "curve:affineNielsPointNafLookupTable.Lookup",
	"curve:cachedPointNafLookupTable8.Lookup",
	"internal/lattice:.FindShortVector",
}

// runSitu makes a second scratch copy, wraps the target functions with boundary hooks, builds the situ driver against
// it and runs it in every configuration of the check.
func runSitu(c *ctx, monitor string, cfgNames []string) []procOut {
	voi2 := filepath.Join(c.scratch, "situ", "voi")
	h2 := filepath.Join(c.scratch, "situ", "h")
	os.MkdirAll(filepath.Join(c.scratch, "situ"), 0o755)
	fail := func(msg string) []procOut {
		return []procOut{{cfg: "situ", exitCode: 2, stderr: "HARNESS-ERROR in-situ monitor: " + msg}}
	}
	if !c.useGraft {
		c.notes = append(c.notes, "in-situ monitor skipped: grafts do not fit this tree")
		return nil
	}
	// start from the pristine working tree (the main copy may carry tick instrumentation)
	if out, err := run("", nil, "rsync", "-a", "--exclude=.git", c.repo+"/", voi2+"/"); err != nil {
		return fail(out)
	}
	if out, err := run("", nil, "rsync", "-a", filepath.Join(c.scratch, "h")+"/", h2+"/"); err != nil {
		return fail(out)
	}
	graftRoot := filepath.Join(verifDir, "graft")
	filepath.Walk(graftRoot, func(p string, info os.FileInfo, err error) error {
		if err != nil || info.IsDir() {
			return nil
		}
		rel, _ := filepath.Rel(graftRoot, p)
		dst := filepath.Join(voi2, rel)
		os.MkdirAll(filepath.Dir(dst), 0o755)
		b, _ := os.ReadFile(p)
		os.WriteFile(dst, b, 0o644)
		return nil
	})
	rep := filepath.Join(c.scratch, "out", "instr-situ.json")
	if out, err := run("", nil, filepath.Join(verifDir, "bin", "vinstr"), "-root", voi2, "-mode", "tick,wrap", "-wrap", strings.Join(wrapTargets, ","), "-report", rep); err != nil {
		return fail("vinstr: " + out)
	}
	if b, err := os.ReadFile(rep); err == nil {
		var v any
		if json.Unmarshal(b, &v) == nil {
			if c.extra == nil {
				c.extra = map[string]any{}
			}
			c.extra["in_situ_instrumentation"] = v
		}
	}
	bset := map[string]bool{}
	var wg sync.WaitGroup
	var mu sync.Mutex
	berr := ""
	for _, cn := range cfgNames {
		bn := configs[cn].Build
		if bset[bn] {
			continue
		}
		bset[bn] = true
		wg.Add(1)
		go func(bn string) {
			defer wg.Done()
			b := builds[bn]
			tags := append(append([]string{}, b.Tags...), "verif")
			args := []string{"build", "-trimpath", "-tags", strings.Join(tags, ","), "-o", c.binPath("situ." + bn), "./drv/situ"}
			if out, err := run(h2, goEnv(), "go", args...); err != nil {
				mu.Lock()
				berr = firstLines(out, 15)
				mu.Unlock()
			}
		}(bn)
	}
	wg.Wait()
	if berr != "" {
		return fail("build: " + berr)
	}
	outs := make([]procOut, len(cfgNames))
	for i, cn := range cfgNames {
		wg.Add(1)
		go func(i int, cn string) {
			defer wg.Done()
			cc := configs[cn]
			cc.Build = "situ." + cc.Build
			outs[i] = c.runConfig(cc, 1, []string{"-monitor", monitor}, nil, "+situ")
		}(i, cn)
	}
	wg.Wait()
	return outs
}

// runThresh builds the size-threshold discovery driver with coverage instrumentation of the library packages and
// runs it for this property's operations in the given configurations (see harness/drv/thresh).
func runThresh(c *ctx, cfgNames []string, replay string) []procOut {
	const lib = "github.com/oasisprotocol/curve25519-voi/"
	coverpkg := lib + "curve/...," + lib + "internal/...," + lib + "primitives/...," + lib + "zzverif/drv/thresh"
	var outs []procOut
	var mu sync.Mutex
	var wg sync.WaitGroup
	built := map[string]string{}
	for _, cn := range cfgNames {
		bn := configs[cn].Build
		if _, done := built[bn]; done {
			continue
		}
		built[bn] = ""
		b := builds[bn]
		tags := append([]string{}, b.Tags...)
		if c.useGraft {
			tags = append(tags, "verif")
		} else if c.minTag {
			tags = append(tags, "verifmin")
		}
		args := []string{"build", "-trimpath", "-cover", "-covermode=atomic", "-coverpkg=" + coverpkg}
		if len(tags) > 0 {
			args = append(args, "-tags", strings.Join(tags, ","))
		}
		args = append(args, "-o", c.binPath("thresh."+bn), "./drv/thresh")
		if out, err := run(filepath.Join(c.scratch, "h"), append(goEnv(), b.Env...), "go", args...); err != nil {
			built[bn] = firstLines(out, 10)
		}
	}
	for _, cn := range cfgNames {
		cfg := configs[cn]
		if e := built[cfg.Build]; e != "" {
			outs = append(outs, procOut{cfg: cn + "+thresh", exitCode: 2, stderr: "HARNESS-ERROR cover build failed: " + e})
			continue
		}
		wg.Add(1)
		go func(cn string, cfg configSpec) {
			defer wg.Done()
			covdir := filepath.Join(c.scratch, "out", "covdir-thresh-"+cn)
			os.MkdirAll(covdir, 0o755)
			cc := cfg
			cc.Build = "thresh." + cfg.Build
			extra := []string{"-prop", c.spec.ID}
			if replay != "" {
				extra = append(extra, "-replay", replay)
			}
			po := c.runConfig(cc, 1, extra, []string{"GOCOVERDIR=" + covdir}, "+thresh")
			os.RemoveAll(covdir)
			mu.Lock()
			outs = append(outs, po)
			mu.Unlock()
		}(cn, cfg)
	}
	wg.Wait()
	sort.Slice(outs, func(i, j int) bool { return outs[i].cfg < outs[j].cfg })
	return outs
}
