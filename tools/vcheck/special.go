package main

func runC08(c *ctx, cfgNames []string) []procOut { return nil }
func runC18(c *ctx, cfgNames []string) []procOut { return nil }
