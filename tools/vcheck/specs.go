package main

var two = []string{"avx2", "u32"}
var three = []string{"avx2", "purego", "u32"}

// five = the four configurations of the property texts + a real 32-bit target (GOARCH=386: 32-bit limb backends
// selected by architecture and a 32-bit native int), which runs natively on this host
var five = []string{"avx2", "asm", "purego", "u32", "i386", "i386f64"}

// wide = five + the configuration dimensions that are not backends in the sense of the property texts but that real
// builds and hosts differ in: GOAMD64 level, CPU feature bits other than AVX2, number of Ps
var wide = []string{"avx2", "asm", "purego", "u32", "i386", "i386f64", "v3", "nocpu", "purego-p6", "asm-p3", "u32-p1", "avx2-p7"}
var seven = []string{"avx2", "asm", "purego", "u32", "i386", "i386f64", "v3", "nocpu"}

// fivePlusP / sevenPlusP add two runs of non-vector backends under numbers of Ps that divide no power of two
var fivePlusP = []string{"avx2", "asm", "purego", "u32", "i386", "i386f64", "purego-p6", "asm-p3"}
var sevenPlusP = []string{"avx2", "asm", "purego", "u32", "i386", "i386f64", "v3", "nocpu", "purego-p6", "asm-p3"}

var specs = map[string]propSpec{
	"C01": {ID: "C01", Thresh: true, Instr: "tick", Quick: five, Thorough: seven, Assume: []string{"SHA-512 of the Go standard library", "the reference predicate is the formula in the property statement evaluated on affine big-integer points"}},
	"C02": {ID: "C02", Thresh: true, Quick: five, Thorough: seven, Assume: []string{"crypto/ed25519 and the big-integer RFC 8032 signer are independent oracles that agree with each other"}},
	"C03": {ID: "C03", Thresh: true, Quick: five, Thorough: sevenPlusP, Assume: []string{"affine big-integer group law; discrete-log bookkeeping for long sums"}},
	"C04": {ID: "C04", Situ: "field", Quick: five, Thorough: seven, Assume: []string{"limb headroom stressed = the budget documented in the code comments (u64 < 2^54, u32 +1.75 bits) and, for AVX2 lanes, the envelope measured in situ"}},
	"C05": {ID: "C05", Quick: seven, Thorough: seven},
	"C06": {ID: "C06", Quick: wide, Thorough: wide, Special: "c06", Assume: []string{"the deterministic workload enumerates the exported API by hand; the reach meter reports exported functions it does not execute"}},
	"C07": {ID: "C07", Quick: five, Thorough: seven, Assume: []string{"big-integer RFC 7748 ladder; golang.org/x/crypto/curve25519 and crypto/ecdh as second oracles"}},
	"C08": {ID: "C08", Quick: []string{"avx2", "purego"}, Thorough: three, Special: "c08", TimeoutS: 1800, Assume: []string{"valgrind 3.19 lackey traces (instruction and data addresses) of forked children sharing one address-space image; data-dependent instruction latency is not a trace event; holds for the secrets tried"}},
	"C09": {ID: "C09", Thresh: true, Quick: five, Thorough: seven, Assume: []string{"random 128-bit batch coefficients make a false batch accept negligible (2^-120); no coefficient-aware forgeries are constructed"}},
	"C10": {ID: "C10", Quick: five, Thorough: seven},
	"C11": {ID: "C11", Quick: fivePlusP, Thorough: sevenPlusP, Assume: []string{"RFC 9496 pseudocode in big integers"}},
	"C12": {ID: "C12", Thresh: true, Quick: five, Thorough: seven, Assume: []string{"reference schnorrkel over the reference Merlin/STROBE/Keccak and ristretto255"}},
	"C13": {ID: "C13", Thresh: true, Quick: seven, Thorough: seven, Assume: []string{"reference Keccak-f[1600] validated against x/crypto/sha3 SHAKE128 at start-up"}},
	"C14": {ID: "C14", Quick: five, Thorough: seven, Assume: []string{"RFC 9380 pseudocode in big integers; Go standard hashes and x/crypto/sha3"}},
	"C15": {ID: "C15", Quick: five, Thorough: seven, Assume: []string{"RFC 9381 reference prover/verifier in big integers"}},
	"C16": {ID: "C16", Instr: "tick", Situ: "lattice", Quick: five, Thorough: seven, Assume: []string{"termination is decided on loop ticks (budget >= 100x the observed maximum), not wall-clock"}},
	"C17": {ID: "C17", Situ: "digits", Quick: []string{"avx2", "u32", "i386", "i386f64", "v3", "nocpu"}, Thorough: seven},
	"C18": {ID: "C18", Quick: []string{"race", "racepurego"}, Thorough: []string{"race", "racepurego"}, Special: "c18", TimeoutS: 1800, Assume: []string{"Go race detector (does not see assembly: the purego build makes the serial Go code visible)", "porcupine v1.3.0 linearizability checker against a sequential LRU model"}},
	"C19": {ID: "C19", Instr: "tick", Quick: five, Thorough: seven, Assume: []string{"documented panics are taken from the doc comments; termination is decided on loop ticks"}},
	"C20": {ID: "C20", Quick: seven, Thorough: seven, Assume: []string{"exhaustive over the finite set of constants/table entries enumerated by the dumper"}},
}
