// vcheck is the orchestrator behind /verif/check: it copies /repo's working tree to a
// scratch directory, grafts/instruments it as the property's check requires, builds the
// driver for each configuration, runs the driver processes, merges what their monitors
// observed, applies the known-findings file, writes the evidence file and prints the
// verdict lines.
//
// Exit codes: 0 held on everything observed; 1 violation; 2 harness error; 3 inconclusive.
package main

import (
	"context"
	"crypto/sha256"
	"encoding/hex"
	"encoding/json"
	"fmt"
	"os"
	"os/exec"
	"path/filepath"
	"sort"
	"strconv"
	"strings"
	"sync"
	"syscall"
	"time"
)

var verifDir = func() string {
	if d := os.Getenv("VERIF_DIR"); d != "" {
		return d
	}
	return "/verif"
}()

type buildSpec struct {
	Name string
	Tags []string
	Race bool
	Env  []string // extra build environment (GOARCH=386)
}

type configSpec struct {
	Name  string
	Build string
	Env   []string
}

type propSpec struct {
	ID       string
	Instr    string // "", "tick", "wrap", "tick,wrap"
	Quick    []string
	Thorough []string
	Special  string
	Situ     string // in-situ monitor run on a wrap-instrumented second copy (field|digits|lattice)
	Thresh   bool   // coverage-guided size-threshold discovery (drv/thresh, built with -cover) for this property's operations
	TimeoutS int
	Assume   []string
	Workers  int // 0 = auto
}

var builds = map[string]buildSpec{
	"default":    {Name: "default"},
	"purego":     {Name: "purego", Tags: []string{"purego"}},
	"force32bit": {Name: "force32bit", Tags: []string{"force32bit"}},
	"race":       {Name: "race", Race: true},
	"racepurego": {Name: "racepurego", Tags: []string{"purego"}, Race: true},
	// a real 32-bit target: the 32-bit limb backends selected by GOARCH (not by tag) AND a 32-bit native int/uint
	"i386": {Name: "i386", Env: []string{"GOARCH=386"}},
	// the amd64 micro-architecture level is a build-time choice that selects other instruction sequences in the
	// compiler's output and in hand-written assembly guarded by GOAMD64_v3
	"v3": {Name: "v3", Env: []string{"GOAMD64=v3"}},
	// the library's own backend override on a 32-bit target: 64-bit limb code with a 32-bit native int
	"i386f64": {Name: "i386f64", Tags: []string{"force64bit"}, Env: []string{"GOARCH=386"}},
}

var configs = map[string]configSpec{
	"avx2":       {Name: "avx2", Build: "default"},
	"asm":        {Name: "asm", Build: "default", Env: []string{"GODEBUG=cpu.avx2=off"}},
	"purego":     {Name: "purego", Build: "purego"},
	"u32":        {Name: "u32", Build: "force32bit"},
	"race":       {Name: "race", Build: "race"},
	"racepurego": {Name: "racepurego", Build: "racepurego"},
	"i386":       {Name: "i386", Build: "i386"},
	"v3":         {Name: "v3", Build: "v3"},
	"i386f64":    {Name: "i386f64", Build: "i386f64"},
	// every optional CPU feature reported as absent (AVX2 and BMI2, ADX, ... alike)
	"nocpu": {Name: "nocpu", Build: "default", Env: []string{"GODEBUG=cpu.all=off"}},
	// scheduling-dependent code sees other numbers of Ps (values that do not divide powers of two included)
	"purego-p6": {Name: "purego-p6", Build: "purego", Env: []string{"GOMAXPROCS=6"}},
	"asm-p3":    {Name: "asm-p3", Build: "default", Env: []string{"GODEBUG=cpu.avx2=off", "GOMAXPROCS=3"}},
	"u32-p1":    {Name: "u32-p1", Build: "force32bit", Env: []string{"GOMAXPROCS=1"}},
	"avx2-p7":   {Name: "avx2-p7", Build: "default", Env: []string{"GOMAXPROCS=7"}},
}

var all4 = []string{"avx2", "asm", "purego", "u32"}

type violation struct {
	Sig    string          `json:"sig"`
	What   string          `json:"what"`
	Config string          `json:"config"`
	Case   json.RawMessage `json:"case,omitempty"`
}

type result struct {
	Property     string            `json:"property"`
	Config       string            `json:"config"`
	Evaluations  int64             `json:"evaluations"`
	Distinct     int64             `json:"distinct_nontrivial"`
	Rule         string            `json:"rule"`
	Histo        map[string]int64  `json:"histogram"`
	Max          map[string]int64  `json:"maxima"`
	Observed     map[string]any    `json:"observed"`
	Samples      []any             `json:"samples"`
	Violations   []violation       `json:"violations"`
	NViolations  int64             `json:"n_violations"`
	Inconclusive []string          `json:"inconclusive"`
	HooksMissing []string          `json:"hooks_missing"`
	Digests      map[string]string `json:"digests"`
	WallS        float64           `json:"wall_s"`
	Complete     bool              `json:"complete"`
}

type known struct {
	Findings []struct {
		Property string `json:"property"`
		Sig      string `json:"sig"`
		What     string `json:"what"`
	} `json:"findings"`
	Fixed []string `json:"fixed"`
}

type ctx struct {
	spec     propSpec
	tier     string
	seed     int64
	scratch  string
	repo     string
	useGraft bool
	notes    []string
	log      *os.File
	extra    map[string]any
	minTag   bool
}

func die(code int, format string, a ...any) {
	fmt.Fprintf(os.Stderr, format+"\n", a...)
	os.Exit(code)
}

func goEnv() []string {
	env := os.Environ()
	env = append(env, "GOFLAGS=-mod=mod", "GOPROXY=off", "GOSUMDB=off", "GOTOOLCHAIN=local", "CGO_ENABLED=1")
	return env
}

func run(dir string, env []string, name string, args ...string) (string, error) {
	cmd := exec.Command(name, args...)
	cmd.Dir = dir
	if env != nil {
		cmd.Env = env
	}
	out, err := cmd.CombinedOutput()
	return string(out), err
}

func main() {
	args := os.Args[1:]
	if len(args) >= 2 && args[0] == "--replay" {
		os.Exit(replay(args[1]))
	}
	if len(args) < 1 {
		die(2, "usage: check <ID> [quick|thorough] | check --replay <file>")
	}
	id := strings.ToUpper(args[0])
	tier := os.Getenv("VERIF_TIER")
	if len(args) >= 2 {
		tier = args[1]
	}
	if tier == "" {
		tier = "quick"
	}
	if tier != "quick" && tier != "thorough" {
		die(2, "bad tier %q", tier)
	}
	seed := int64(1)
	if s := os.Getenv("VERIF_SEED"); s != "" {
		v, err := strconv.ParseInt(s, 10, 64)
		if err != nil {
			die(2, "bad VERIF_SEED")
		}
		seed = v
	}
	spec, ok := specs[id]
	if !ok {
		die(2, "unknown property %s", id)
	}
	os.Exit(check(spec, tier, seed, ""))
}

func newCtx(spec propSpec, tier string, seed int64) *ctx {
	repo := os.Getenv("VERIF_REPO")
	if repo == "" {
		repo = "/repo"
	}
	base := os.Getenv("VERIF_SCRATCH")
	if base == "" {
		base = "/tmp/vscratch"
	}
	scratch := filepath.Join(base, fmt.Sprintf("%s.%d", spec.ID, os.Getpid()))
	return &ctx{spec: spec, tier: tier, seed: seed, scratch: scratch, repo: repo, useGraft: true}
}

// prepare copies the working tree and the harness, grafts and instruments.
func (c *ctx) prepare() error {
	os.RemoveAll(c.scratch)
	if err := os.MkdirAll(filepath.Join(c.scratch, "out"), 0o755); err != nil {
		return err
	}
	if out, err := run("", nil, "rsync", "-a", "--exclude=.git", c.repo+"/", filepath.Join(c.scratch, "voi")+"/"); err != nil {
		return fmt.Errorf("rsync repo: %v %s", err, out)
	}
	if out, err := run("", nil, "rsync", "-a", verifDir+"/harness/", filepath.Join(c.scratch, "h")+"/"); err != nil {
		return fmt.Errorf("rsync harness: %v %s", err, out)
	}
	// the harness needs the library's go.sum lines as well
	libsum, _ := os.ReadFile(filepath.Join(c.scratch, "voi", "go.sum"))
	hsum, _ := os.ReadFile(filepath.Join(c.scratch, "h", "go.sum"))
	os.WriteFile(filepath.Join(c.scratch, "h", "go.sum"), append(hsum, libsum...), 0o644)
	// grafts
	graftRoot := filepath.Join(verifDir, "graft")
	filepath.Walk(graftRoot, func(p string, info os.FileInfo, err error) error {
		if err != nil || info.IsDir() {
			return nil
		}
		rel, _ := filepath.Rel(graftRoot, p)
		dst := filepath.Join(c.scratch, "voi", rel)
		os.MkdirAll(filepath.Dir(dst), 0o755)
		b, _ := os.ReadFile(p)
		os.WriteFile(dst, b, 0o644)
		return nil
	})
	if c.spec.Instr != "" {
		out, err := run("", nil, filepath.Join(verifDir, "bin", "vinstr"), "-root", filepath.Join(c.scratch, "voi"), "-mode", c.spec.Instr, "-report", filepath.Join(c.scratch, "out", "instr.json"))
		if err != nil {
			return fmt.Errorf("vinstr: %v\n%s", err, out)
		}
	}
	return nil
}

func (c *ctx) cleanup() {
	if os.Getenv("VERIF_KEEP") == "" {
		os.RemoveAll(c.scratch)
	}
}

func (c *ctx) binPath(b string) string { return filepath.Join(c.scratch, "bin", "drv."+b) }

// buildOne builds the driver for one build spec; returns compiler output on failure.
func (c *ctx) buildOne(b buildSpec, graft bool) (string, error) {
	tags := append([]string{}, b.Tags...)
	if graft && c.minTag {
		tags = append(tags, "verifmin")
	} else if graft {
		tags = append(tags, "verif")
	}
	args := []string{"build", "-trimpath"}
	if b.Race {
		args = append(args, "-race")
	}
	if len(tags) > 0 {
		args = append(args, "-tags", strings.Join(tags, ","))
	}
	args = append(args, "-o", c.binPath(b.Name), "./drv/"+strings.ToLower(c.spec.ID))
	return run(filepath.Join(c.scratch, "h"), append(goEnv(), b.Env...), "go", args...)
}

func (c *ctx) buildAll(names []string) error {
	type br struct {
		name string
		out  string
		err  error
	}
	doBuild := func(graft bool) []br {
		var wg sync.WaitGroup
		res := make([]br, len(names))
		for i, n := range names {
			wg.Add(1)
			go func(i int, n string) {
				defer wg.Done()
				out, err := c.buildOne(builds[n], graft)
				res[i] = br{n, out, err}
			}(i, n)
		}
		wg.Wait()
		return res
	}
	res := doBuild(true)
	failed := false
	for _, r := range res {
		if r.err != nil {
			failed = true
			c.notes = append(c.notes, fmt.Sprintf("build %s with grafts failed: %s", r.name, firstLines(r.out, 12)))
		}
	}
	if !failed {
		return nil
	}
	// The fallbacks below exist for trees whose internals no longer fit the in-package observers. A build error
	// that is not in an observer file (zz_verif_*) is a defect of the harness itself and must not silently weaken
	// the check.
	inObserver := false
	for _, r := range res {
		if r.err != nil && (strings.Contains(r.out, "zz_verif_") || strings.Contains(r.out, "zzverifrt")) {
			inObserver = true
		}
	}
	if !inObserver {
		probe := []string{"build", "./..."}
		if c.spec.Instr != "" {
			probe = []string{"build", "-tags", "verifmin", "./..."}
		}
		if out, err := run(filepath.Join(c.scratch, "voi"), goEnv(), "go", probe...); err != nil {
			return fmt.Errorf("the working tree does not build: %s", firstLines(out, 20))
		}
		return fmt.Errorf("driver build failed outside the in-package observers (harness defect):\n%s", strings.Join(c.notes, "\n"))
	}
	if c.spec.Instr != "" {
		// instrumented checks need the zzverifrt runtime: retry with the minimal observer set (runtime + lattice)
		if out, err := run(filepath.Join(c.scratch, "voi"), goEnv(), "go", "build", "-tags", "verifmin", "./..."); err != nil {
			return fmt.Errorf("the working tree does not build: %s", firstLines(out, 20))
		}
		c.useGraft = false
		c.minTag = true
		for _, r := range doBuild(true) {
			if r.err != nil {
				return fmt.Errorf("instrumented build failed even with the minimal observer set:\n%s\n%s", strings.Join(c.notes, "\n"), firstLines(r.out, 20))
			}
		}
		c.notes = append(c.notes, "built with the minimal observer set (verifmin): in-package observers of curve/field/scalar are not in use")
		return nil
	}
	// Does the tree itself build?  If not this is not a verdict about a property.
	if out, err := run(filepath.Join(c.scratch, "voi"), goEnv(), "go", "build", "./..."); err != nil {
		return fmt.Errorf("the working tree does not build: %s", firstLines(out, 20))
	}
	// Fall back to API-level monitors only (in-package observers do not fit this tree).
	c.useGraft = false
	res = doBuild(false)
	for _, r := range res {
		if r.err != nil {
			return fmt.Errorf("driver build %s failed even without grafts:\n%s", r.name, firstLines(r.out, 30))
		}
	}
	return nil
}

func firstLines(s string, n int) string {
	l := strings.Split(s, "\n")
	if len(l) > n {
		l = l[:n]
	}
	return strings.Join(l, "\n")
}

type procOut struct {
	cfg      string
	res      *result
	exitCode int
	timedOut bool
	stderr   string
	journal  string
}

func (c *ctx) runConfig(cfg configSpec, workers int, extraArgs []string, extraEnv []string, tag string) procOut {
	name := cfg.Name + tag
	outp := filepath.Join(c.scratch, "out", name+".json")
	jp := filepath.Join(c.scratch, "out", name+".journal")
	ep := filepath.Join(c.scratch, "out", name+".stderr")
	args := []string{"-config", cfg.Name, "-tier", c.tier, "-seed", strconv.FormatInt(c.seed, 10), "-out", outp, "-journal", jp, "-workers", strconv.Itoa(workers)}
	args = append(args, extraArgs...)
	to := time.Duration(c.spec.TimeoutS) * time.Second
	if to == 0 {
		to = 20 * time.Minute
	}
	if c.tier == "thorough" {
		to *= 4
	}
	cctx, cancel := context.WithTimeout(context.Background(), to)
	defer cancel()
	cmd := exec.CommandContext(cctx, c.binPath(cfg.Build), args...)
	cmd.Cancel = func() error { return cmd.Process.Signal(syscall.SIGQUIT) }
	cmd.WaitDelay = 10 * time.Second
	cmd.Dir = filepath.Join(c.scratch, "out")
	cmd.Env = append(append(goEnv(), cfg.Env...), extraEnv...)
	ef, _ := os.Create(ep)
	cmd.Stdout = ef
	cmd.Stderr = ef
	err := cmd.Run()
	ef.Close()
	po := procOut{cfg: name}
	if cctx.Err() == context.DeadlineExceeded {
		po.timedOut = true
	}
	if err != nil {
		if ee, ok := err.(*exec.ExitError); ok {
			po.exitCode = ee.ExitCode()
		} else {
			po.exitCode = -1
		}
	}
	if b, err := os.ReadFile(ep); err == nil {
		po.stderr = tail(string(b), 6000)
	}
	if b, err := os.ReadFile(jp); err == nil {
		po.journal = tail(string(b), 1500)
	}
	if b, err := os.ReadFile(outp); err == nil {
		var r result
		if json.Unmarshal(b, &r) == nil && r.Complete {
			po.res = &r
		}
	}
	return po
}

func tail(s string, n int) string {
	if len(s) > n {
		return s[len(s)-n:]
	}
	return s
}

type evidence struct {
	PropertyID  string         `json:"property_id"`
	Tier        string         `json:"tier"`
	Seed        int64          `json:"seed"`
	Level       string         `json:"level"`
	Coverage    map[string]any `json:"coverage"`
	Assumptions []string       `json:"assumptions"`
	WallS       float64        `json:"wall_s"`
	Violations  int            `json:"violations"`
	Verdict     string         `json:"verdict"`
}

func check(spec propSpec, tier string, seed int64, replayFile string) int {
	t0 := time.Now()
	c := newCtx(spec, tier, seed)
	defer c.cleanup()
	if err := c.prepare(); err != nil {
		c.cleanup()
		die(2, "HARNESS-ERROR prepare: %v", err)
	}
	cfgNames := spec.Quick
	if tier == "thorough" && spec.Thorough != nil {
		cfgNames = spec.Thorough
	}
	if replayFile != "" {
		cfgNames = []string{replayConfig(replayFile)}
		if spec.Special == "c06" {
			cfgNames = five // a divergence is replayed in every configuration and the per-call digests are compared
		}
	}
	bset := map[string]bool{}
	var bnames []string
	for _, cn := range cfgNames {
		b := configs[cn].Build
		if !bset[b] {
			bset[b] = true
			bnames = append(bnames, b)
		}
	}
	if err := c.buildAll(bnames); err != nil {
		c.cleanup()
		die(2, "HARNESS-ERROR build: %v", err)
	}
	if spec.ID == "C14" {
		// an auxiliary program with a minimal link set (see harness/drv/c14min); the driver runs it and compares
		if out, err := run(filepath.Join(c.scratch, "h"), goEnv(), "go", "build", "-trimpath", "-o", c.binPath("aux.c14min"), "./drv/c14min"); err != nil {
			c.notes = append(c.notes, "auxiliary program c14min did not build: "+firstLines(out, 6))
		} else {
			os.Setenv("VERIF_AUX_C14MIN", c.binPath("aux.c14min"))
		}
	}
	var outs []procOut
	switch {
	case replayFile != "" && strings.HasSuffix(replayViolation(replayFile).Config, "+situ") && spec.Situ != "":
		// an in-situ hook violation is replayed by re-running the (deterministic) hooked workload in that configuration
		base := strings.TrimSuffix(replayViolation(replayFile).Config, "+situ")
		if _, ok := configs[base]; !ok {
			base = "avx2"
		}
		if err := c.buildAll([]string{configs[base].Build}); err != nil {
			die(2, "HARNESS-ERROR build: %v", err)
		}
		outs = runSitu(c, spec.Situ, []string{base})
	case replayFile != "" && strings.HasSuffix(replayViolation(replayFile).Config, "+thresh") && spec.Thresh:
		base := strings.TrimSuffix(replayViolation(replayFile).Config, "+thresh")
		if _, ok := configs[base]; !ok {
			base = "avx2"
		}
		abs, _ := filepath.Abs(replayFile)
		outs = runThresh(c, []string{base}, abs)
	case replayFile != "" && spec.Special == "c08":
		v := replayViolation(replayFile)
		var cs struct {
			Operation string `json:"operation"`
			Op        string `json:"op"`
		}
		json.Unmarshal(v.Case, &cs)
		op := cs.Operation
		if op == "" {
			op = cs.Op
		}
		os.Setenv("VERIF_C08_OPS", op)
		if strings.HasSuffix(v.Config, "+blocks") {
			abs, _ := filepath.Abs(replayFile)
			os.Setenv("VERIF_C08_REPLAY", abs)
			outs = runC08Cov(c)
		} else {
			base := v.Config
			if _, ok := configs[base]; !ok {
				base = "avx2"
			}
			outs = runC08(c, []string{base})
		}
	case replayFile != "" && spec.Special == "c06":
		abs, _ := filepath.Abs(replayFile)
		details := map[string][]string{}
		for _, cn := range cfgNames {
			po := c.runConfig(configs[cn], 1, []string{"-replay", abs}, nil, "")
			outs = append(outs, po)
			if b, err := os.ReadFile(filepath.Join(c.scratch, "out", cn+".stderr")); err == nil {
				for _, l := range strings.Split(string(b), "\n") {
					if strings.HasPrefix(l, "DETAIL ") {
						details[cn] = append(details[cn], l)
					}
				}
			}
		}
		ref := details[cfgNames[0]]
		for _, cn := range cfgNames[1:] {
			d := details[cn]
			for i := 0; i < len(ref) || i < len(d); i++ {
				a, b := "(no call)", "(no call)"
				if i < len(ref) {
					a = ref[i]
				}
				if i < len(d) {
					b = d[i]
				}
				if a != b {
					fmt.Printf("replay: first diverging call between %s and %s:\n  %s: %s\n  %s: %s\n", cfgNames[0], cn, cfgNames[0], a, cn, b)
					if outs[0].res != nil {
						outs[0].res.Violations = append(outs[0].res.Violations, violation{Sig: "backend-divergence/replayed", What: fmt.Sprintf("%s vs %s: %s | %s", cfgNames[0], cn, a, b), Config: cn})
						outs[0].res.NViolations++
					}
					break
				}
			}
		}
	case replayFile != "":
		abs, _ := filepath.Abs(replayFile)
		outs = append(outs, c.runConfig(configs[cfgNames[0]], 1, []string{"-replay", abs}, nil, ""))
	case spec.Special == "c08":
		outs = runC08(c, cfgNames)
	case spec.Special == "c18":
		outs = runC18(c, cfgNames)
	default:
		workers := spec.Workers
		if workers == 0 {
			workers = 16 / len(cfgNames)
			if workers < 2 {
				workers = 2
			}
		}
		var wg sync.WaitGroup
		outs = make([]procOut, len(cfgNames))
		for i, cn := range cfgNames {
			wg.Add(1)
			go func(i int, cn string) {
				defer wg.Done()
				outs[i] = c.runConfig(configs[cn], workers, nil, nil, "")
			}(i, cn)
		}
		wg.Wait()
	}
	if spec.Situ != "" && replayFile == "" && os.Getenv("VERIF_NO_SITU") == "" {
		outs = append(outs, runSitu(c, spec.Situ, cfgNames)...)
	}
	if spec.Thresh && replayFile == "" && os.Getenv("VERIF_NO_THRESH") == "" {
		outs = append(outs, runThresh(c, []string{"avx2", "purego"}, "")...)
	}
	if spec.Special == "c06" && replayFile == "" && (tier == "thorough" || os.Getenv("VERIF_C06_REACH") != "") {
		c.extra = map[string]any{"reach_meter": reachMeter(c)}
	}
	return conclude(c, outs, t0, replayFile != "")
}

func conclude(c *ctx, outs []procOut, t0 time.Time, isReplay bool) int {
	spec := c.spec
	var viols []violation
	var inconcl []string
	harnessErr := []string{}
	cov := map[string]any{}
	perCfg := map[string]any{}
	histo := map[string]int64{}
	maxima := map[string]int64{}
	observed := map[string]any{}
	var samples []any
	var evals, distinct, nviol int64
	rule := ""
	hooksMissing := map[string]bool{}
	digests := map[string]map[string]string{}
	for _, po := range outs {
		if po.res == nil {
			switch {
			case po.timedOut:
				inconcl = append(inconcl, fmt.Sprintf("%s: wall-clock watchdog fired (last journal: %s)", po.cfg, lastLine(po.journal)))
			case po.exitCode == 2 && strings.Contains(po.stderr, "HARNESS-ERROR"):
				harnessErr = append(harnessErr, po.cfg+": "+tail(po.stderr, 800))
			case strings.Contains(po.stderr, "fatal error:") || strings.Contains(po.stderr, "panic:") || strings.Contains(po.stderr, "SIGSEGV"):
				// the process died inside an observed call: the journal holds the witness
				raw, _ := json.Marshal(map[string]any{"journal_tail": po.journal, "stderr_tail": tail(po.stderr, 2500)})
				viols = append(viols, violation{Sig: "process-fatal/" + fatalKind(po.stderr), What: "driver process died with a Go fatal error / unrecovered panic while executing: " + lastLine(po.journal), Config: po.cfg, Case: raw})
				nviol++
			default:
				harnessErr = append(harnessErr, fmt.Sprintf("%s: exit %d without result: %s", po.cfg, po.exitCode, tail(po.stderr, 800)))
			}
			continue
		}
		r := po.res
		evals += r.Evaluations
		if r.Distinct > distinct {
			distinct = r.Distinct
		}
		nviol += r.NViolations
		rule = r.Rule
		for k, v := range r.Histo {
			histo[k] += v
		}
		for k, v := range r.Max {
			if cur, ok := maxima[k]; !ok || v > cur {
				maxima[k] = v
			}
		}
		for k, v := range r.Observed {
			observed[po.cfg+"/"+k] = v
		}
		if len(samples) < 9 {
			for _, s := range r.Samples {
				if len(samples) < 9 {
					samples = append(samples, s)
				}
			}
		}
		for _, h := range r.HooksMissing {
			hooksMissing[h] = true
		}
		viols = append(viols, r.Violations...)
		for _, s := range r.Inconclusive {
			inconcl = append(inconcl, po.cfg+": "+s)
		}
		perCfg[po.cfg] = map[string]any{"evaluations": r.Evaluations, "distinct_nontrivial": r.Distinct, "violations": r.NViolations, "wall_s": r.WallS}
		digests[po.cfg] = r.Digests
	}
	if spec.Special == "c06" && !isReplay {
		dv, nops := compareDigests(digests)
		viols = append(viols, dv...)
		nviol += int64(len(dv))
		cov["operations_compared_across_configs"] = nops
	}
	// known findings
	kf := loadKnown()
	var unlisted []violation
	knownHit := map[string]bool{}
	for _, v := range viols {
		listed := false
		for _, f := range kf.Findings {
			if f.Property == spec.ID && f.Sig == v.Sig {
				listed = true
				if !knownHit[f.Sig] {
					knownHit[f.Sig] = true
					fmt.Printf("KNOWN-FINDING: property=%s %s\n", spec.ID, f.What)
				}
			}
		}
		if !listed {
			unlisted = append(unlisted, v)
		}
	}
	verdict := "held-on-observed"
	code := 0
	if len(harnessErr) > 0 {
		verdict, code = "harness-error", 2
	}
	if len(inconcl) > 0 && code == 0 {
		verdict, code = "inconclusive", 3
	}
	if evals == 0 && code == 0 {
		verdict, code = "inconclusive", 3
		inconcl = append(inconcl, "no evaluations observed")
	}
	var replayPaths []string
	if len(unlisted) > 0 {
		verdict, code = "violated", 1
		os.MkdirAll(filepath.Join(verifDir, "replays"), 0o755)
		seen := map[string]bool{}
		for _, v := range unlisted {
			if seen[v.Sig+v.Config] {
				continue
			}
			seen[v.Sig+v.Config] = true
			body, _ := json.MarshalIndent(map[string]any{"property": spec.ID, "tier": c.tier, "seed": c.seed, "violation": v}, "", " ")
			h := sha256.Sum256(body)
			p := filepath.Join(verifDir, "replays", fmt.Sprintf("%s-%s.json", spec.ID, hex.EncodeToString(h[:6])))
			if !isReplay {
				os.WriteFile(p, body, 0o644)
			} else {
				p = "(replayed)"
			}
			replayPaths = append(replayPaths, p)
			fmt.Printf("VIOLATION property=%s replay=%s\n", spec.ID, p)
			fmt.Printf("  [%s] %s: %s\n", v.Config, v.Sig, v.What)
			if len(replayPaths) >= 10 {
				break
			}
		}
	}
	for _, s := range inconcl {
		fmt.Printf("INCONCLUSIVE property=%s %s\n", spec.ID, s)
	}
	for _, s := range harnessErr {
		fmt.Fprintf(os.Stderr, "HARNESS-ERROR property=%s %s\n", spec.ID, s)
	}
	if isReplay {
		fmt.Printf("replay of %s: verdict=%s evaluations=%d\n", spec.ID, verdict, evals)
		return code
	}
	if len(samples) == 0 {
		samples = append(samples, "no samples recorded")
	}
	cov["evaluations"] = evals
	cov["distinct_nontrivial"] = distinct
	cov["rule"] = rule
	cov["samples"] = samples
	cov["per_configuration"] = perCfg
	cov["histogram"] = histo
	cov["maxima"] = maxima
	cov["observed"] = observed
	cov["grafts_in_use"] = c.useGraft
	cov["exhaustive"] = false
	if v, ok := observed[firstCfg(outs)+"/exhaustive"]; ok {
		if b, ok := v.(bool); ok {
			cov["exhaustive"] = b
		}
	}
	var hm []string
	for h := range hooksMissing {
		hm = append(hm, h)
	}
	sort.Strings(hm)
	cov["hooks_missing"] = hm
	cov["notes"] = c.notes
	cov["inconclusive"] = inconcl
	cov["replays"] = replayPaths
	for k, v := range c.extra {
		cov[k] = v
	}
	if b, err := os.ReadFile(filepath.Join(c.scratch, "out", "instr.json")); err == nil {
		var v any
		if json.Unmarshal(b, &v) == nil {
			cov["instrumentation"] = v
		}
	}
	ev := evidence{PropertyID: spec.ID, Tier: c.tier, Seed: c.seed, Level: "exploration", Coverage: cov,
		Assumptions: append([]string{"verdict is 'held on the executions observed', not a proof", "math/big, crypto/sha512, crypto/sha256 and the Go toolchain are trusted"}, spec.Assume...),
		WallS:       time.Since(t0).Seconds(), Violations: len(unlisted), Verdict: verdict}
	os.MkdirAll(filepath.Join(verifDir, "evidence"), 0o755)
	b, _ := json.MarshalIndent(&ev, "", " ")
	if os.Getenv("VERIF_NO_EVIDENCE") != "" {
		// self-test runs against seeded changes must not overwrite the evidence of the real tree
	} else if err := os.WriteFile(filepath.Join(verifDir, "evidence", spec.ID+".json"), append(b, '\n'), 0o644); err != nil {
		die(2, "HARNESS-ERROR evidence: %v", err)
	}
	fmt.Printf("%s %s seed=%d verdict=%s evaluations=%d distinct_nontrivial=%d violations=%d wall=%.1fs\n", spec.ID, c.tier, c.seed, verdict, evals, distinct, len(unlisted), time.Since(t0).Seconds())
	return code
}

func firstCfg(outs []procOut) string {
	if len(outs) == 0 {
		return ""
	}
	return outs[0].cfg
}

func lastLine(s string) string {
	l := strings.Split(strings.TrimSpace(s), "\n")
	return l[len(l)-1]
}

func fatalKind(stderr string) string {
	for _, l := range strings.Split(stderr, "\n") {
		if strings.HasPrefix(l, "fatal error:") || strings.HasPrefix(l, "panic:") {
			if len(l) > 80 {
				l = l[:80]
			}
			return l
		}
	}
	return "unknown"
}

func loadKnown() known {
	var k known
	b, err := os.ReadFile(filepath.Join(verifDir, "known_findings.json"))
	if err == nil {
		json.Unmarshal(b, &k)
	}
	return k
}

// compareDigests: every operation's digest chain must be identical in all configurations.
func compareDigests(d map[string]map[string]string) ([]violation, int) {
	var cfgs []string
	for c := range d {
		cfgs = append(cfgs, c)
	}
	sort.Strings(cfgs)
	if len(cfgs) < 2 {
		return nil, 0
	}
	ops := map[string]bool{}
	for _, c := range cfgs {
		for op := range d[c] {
			ops[op] = true
		}
	}
	var out []violation
	for op := range ops {
		ref := d[cfgs[0]][op]
		for _, c := range cfgs[1:] {
			if d[c][op] != ref {
				raw, _ := json.Marshal(map[string]any{"op": op, cfgs[0]: ref, c: d[c][op]})
				out = append(out, violation{Sig: "backend-divergence/" + op, What: fmt.Sprintf("operation %s: output digest differs between %s and %s", op, cfgs[0], c), Config: c, Case: raw})
			}
		}
	}
	sort.Slice(out, func(i, j int) bool { return out[i].Sig < out[j].Sig })
	return out, len(ops)
}

func replayViolation(file string) violation {
	b, err := os.ReadFile(file)
	if err != nil {
		die(2, "replay: %v", err)
	}
	var f struct {
		Violation violation `json:"violation"`
	}
	json.Unmarshal(b, &f)
	return f.Violation
}

func replayConfig(file string) string {
	b, err := os.ReadFile(file)
	if err != nil {
		die(2, "replay: %v", err)
	}
	var f struct {
		Violation violation `json:"violation"`
	}
	json.Unmarshal(b, &f)
	cn := f.Violation.Config
	for _, suf := range []string{"+situ", "+blocks", "+thresh"} {
		cn = strings.TrimSuffix(cn, suf)
	}
	if _, ok := configs[cn]; !ok {
		cn = "avx2"
	}
	return cn
}

func replay(file string) int {
	b, err := os.ReadFile(file)
	if err != nil {
		die(2, "replay: %v", err)
	}
	var f struct {
		Property string `json:"property"`
		Tier     string `json:"tier"`
		Seed     int64  `json:"seed"`
	}
	if err := json.Unmarshal(b, &f); err != nil {
		die(2, "replay: %v", err)
	}
	spec, ok := specs[f.Property]
	if !ok {
		die(2, "replay: unknown property %q", f.Property)
	}
	return check(spec, f.Tier, f.Seed, file)
}
