#!/usr/bin/env python3
"""Confirms seeded changes delivered by sub-agents under /tmp/seed/<ID>-out and stores the confirmed ones under
/verif/seeded/<ID>-<n>/ (patch.diff, demonstration, meta.json). For each change, in the scratch worktree /tmp/seed/<ID>:
patch applies; go build + full go test pass; demonstration FAILS with the patch and PASSES without it."""
import json, os, re, shutil, subprocess, sys, glob

ENV = dict(os.environ, GOFLAGS="-mod=mod", GOPROXY="off", GOSUMDB="off", GOTOOLCHAIN="local")

def sh(cmd, cwd, env=None, timeout=900):
    p = subprocess.run(cmd, shell=True, cwd=cwd, env=env or ENV, capture_output=True, text=True, timeout=timeout)
    return p.returncode, (p.stdout + p.stderr)

def main():
    only = sys.argv[1:] 
    for out in sorted(glob.glob('/tmp/seed/C*-out')) + sorted(glob.glob('/tmp/seed/C*-out2')) + sorted(glob.glob('/tmp/seed/C*-out3')) + sorted(glob.glob('/tmp/seed/C*-out4')) + sorted(glob.glob('/tmp/seed/C*-out5')) + sorted(glob.glob('/tmp/seed/C*-out6')) + sorted(glob.glob('/tmp/seed/C*-out7')) + sorted(glob.glob('/tmp/seed/C*-out8')):
        off = 2 if out.endswith('-out2') else 4 if out.endswith('-out3') else 6 if out.endswith('-out4') else 8 if out.endswith('-out5') else 10 if out.endswith('-out6') else 11 if out.endswith('-out7') else 11 if out.endswith('-out8') else 0
        pid = os.path.basename(out)[:3]
        wt = '/tmp/seed/' + pid
        for n in (1, 2):
            if not os.path.exists(f'{out}/meta{n}.json') or not os.path.exists(f'{out}/patch{n}.diff'):
                continue
            name = f'{pid}-{n + off}'
            if os.path.exists(f'/verif/seeded/{name}/meta.json') and not only:
                continue
            if only and name not in only and pid not in only:
                continue
            dst = f'/verif/seeded/{name}'
            meta = json.load(open(f'{out}/meta{n}.json'))
            cmd = re.split(r'\s{2,}\(|#', meta['demo_cmd'])[0]
            rc, o = sh('git checkout -- . && git clean -fdq', wt)
            rc, o = sh(f'git apply {out}/patch{n}.diff', wt)
            if rc != 0:
                print(name, 'PATCH DOES NOT APPLY', o[:200]); continue
            rc_b, o_b = sh('go build ./...', wt)
            rc_t, o_t = sh('go test -count=1 ./...', wt)
            # demonstration
            env = dict(ENV)
            extra_env = {}
            for seg in cmd.split('&&'):
                if re.search(r'\bgo (test|run|build)\b', seg):
                    for tok in seg.strip().split():
                        if tok == 'go':
                            break
                        m2 = re.match(r'^([A-Z][A-Z0-9_]*)=(\S+)$', tok)
                        if m2 and m2.group(1) in ('GODEBUG', 'GOARCH', 'GOAMD64', 'GOMAXPROCS'):
                            extra_env[m2.group(1)] = m2.group(2)
            env.update(extra_env)
            cpu = re.search(r'-cpu[ =](\S+)', cmd)
            if os.path.isdir(f'{out}/demo{n}'):
                shutil.copytree(f'{out}/demo{n}', f'{wt}/zzseeddemo', dirs_exist_ok=True)
                if 'go run' not in cmd and 'go test' in cmd:
                    pass
                tags = re.search(r'-tags (\S+)', cmd)
                demo = f"GOCOVERDIR=$(mktemp -d) go run {'-tags '+tags.group(1) if tags else ''} -cover -covermode=atomic ./zzseeddemo"
                demofile = f'demo{n}'
            else:
                pkg = re.search(r'go test [^#]*?(\./\S+)', cmd).group(1).rstrip('/')
                tags = re.search(r'-tags (\S+)', cmd.split('#')[0])
                run = re.search(r"-run '?\"?([^'\" ]+)", cmd).group(1)
                shutil.copy(f'{out}/demo{n}_test.go', f'{wt}/{pkg}/zz_seed_demo_test.go')
                race = '-race' if re.search(r'go test [^#]*-race', cmd) else ''
                demo = f"go test {race} -count=1 {'-cpu '+cpu.group(1) if cpu else ''} {'-tags '+tags.group(1) if tags else ''} -run '{run}' {pkg}/"
                demofile = f'demo{n}_test.go'
            rc_with, o_with = sh(demo, wt, env)
            sh('git checkout -- .', wt)
            rc_without, o_without = sh(demo, wt, env)
            sh('git checkout -- . && git clean -fdq', wt)
            ok = rc_b == 0 and rc_t == 0 and rc_with != 0 and rc_without == 0
            print(name, 'CONFIRMED' if ok else 'NOT CONFIRMED', f'build={rc_b} tests={rc_t} demo_with_patch={rc_with} demo_without={rc_without}')
            if not ok:
                print('   tests tail:', o_t[-300:].replace('\n', ' | ') if rc_t else '', '\n   with:', o_with[-300:].replace('\n', ' | '), '\n   without:', o_without[-300:].replace('\n', ' | '))
                continue
            os.makedirs(dst, exist_ok=True)
            shutil.copy(f'{out}/patch{n}.diff', f'{dst}/patch.diff')
            if os.path.isdir(f'{out}/demo{n}'):
                shutil.copytree(f'{out}/demo{n}', f'{dst}/demo', dirs_exist_ok=True)
            else:
                shutil.copy(f'{out}/demo{n}_test.go', f'{dst}/demo_test.go')
            old = {}
            if os.path.exists(f'{dst}/meta.json'):
                old = json.load(open(f'{dst}/meta.json'))
            meta_out = {
                'property': pid, 'summary': meta.get('summary'), 'needs': meta.get('needs'), 'files': meta.get('files'),
                'origin': 'fresh sub-agent given only the property text and its own scratch worktree',
                'demonstration': {'file': 'demo/' if os.path.isdir(f'{out}/demo{n}') else 'demo_test.go', 'command_run': demo, 'env': extra_env},
                'confirmed': {'patch_applies': True, 'go_build': 'ok', 'go_test_all_packages_with_patch': 'ok', 'demo_with_patch': 'FAIL (exit %d)' % rc_with, 'demo_without_patch': 'PASS',
                              'demo_failure_excerpt': [l for l in o_with.splitlines() if 'FAIL' in l or 'LEAK' in l or 'demo' in l.lower()][:3]},
                'checks': old.get('checks', {}),
            }
            json.dump(meta_out, open(f'{dst}/meta.json', 'w'), indent=1)

main()
