#!/usr/bin/env python3
"""tools/seedmatrix.py [tier] [names...] — runs the check of each seeded change's property against a scratch copy of
/repo with the change applied (VERIF_REPO), records the verdict in seeded/<name>/meta.json and prints a table.
/repo itself is not touched."""
import json, os, subprocess, sys, glob, shutil, time

tier = 'quick'
names = []
for a in sys.argv[1:]:
    if a in ('quick', 'thorough'): tier = a
    else: names.append(a)
extra = {}  # name -> additional check ids to run
rows = []
for d in sorted(glob.glob('/verif/seeded/*')):
    name = os.path.basename(d)
    if names and name not in names and name.split('-')[0] not in names: continue
    meta = json.load(open(d + '/meta.json'))
    prop = meta['property']
    scratch = '/tmp/seedrun/' + name
    shutil.rmtree(scratch, ignore_errors=True)
    os.makedirs('/tmp/seedrun', exist_ok=True)
    subprocess.run(['rsync', '-a', '--exclude=.git', '/repo/', scratch + '/'], check=True)
    r = subprocess.run(['patch', '-p1', '-s', '-i', d + '/patch.diff'], cwd=scratch, capture_output=True, text=True)
    if r.returncode != 0:
        print(name, 'patch failed', r.stdout, r.stderr); continue
    for cid in [prop] + meta.get('also_run', []):
        env = dict(os.environ, VERIF_REPO=scratch, VERIF_NO_EVIDENCE='1', VERIF_SCRATCH='/tmp/vscratch-seed.%d' % os.getpid())
        t0 = time.time()
        p = subprocess.run(['./check', cid, tier], cwd='/verif', env=env, capture_output=True, text=True)
        dt = time.time() - t0
        viol = [l for l in p.stdout.splitlines() if l.startswith('  [')]
        verdict = {0: 'MISSED (exit 0)', 1: 'caught (exit 1)', 2: 'harness error (exit 2)', 3: 'inconclusive (exit 3)'}.get(p.returncode, 'exit %d' % p.returncode)
        meta.setdefault('checks', {})[f'{cid} {tier}'] = {'verdict': verdict, 'wall_s': round(dt, 1), 'first_violation': viol[0].strip()[:300] if viol else None}
        rows.append((name, cid, tier, verdict, round(dt, 1), (viol[0].strip()[:110] if viol else '')))
        print(*rows[-1], flush=True)
    json.dump(meta, open(d + '/meta.json', 'w'), indent=1)
    shutil.rmtree(scratch, ignore_errors=True)
shutil.rmtree('/tmp/vscratch-seed.%d' % os.getpid(), ignore_errors=True)
missed = [r for r in rows if not r[3].startswith('caught')]
print('TOTAL', len(rows), 'caught', len(rows) - len(missed), 'not caught', [(r[0], r[1], r[3]) for r in missed])
