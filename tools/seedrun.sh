#!/bin/sh
# tools/seedrun.sh <patch.diff> <ID> [tier]  — apply a seeded change to /repo, run the check, undo it straight afterwards.
patch="$1"; id="$2"; tier="${3:-quick}"
cd /verif || exit 2
[ -z "$(git -C /repo status --porcelain)" ] || { echo "/repo not clean"; exit 2; }
git -C /repo apply "$patch" || { echo "patch does not apply"; exit 2; }
trap 'git -C /repo checkout -- . ; git -C /repo clean -fdq' EXIT INT TERM
VERIF_NO_EVIDENCE=1 ./check "$id" "$tier"
rc=$?
echo "seedrun: $patch $id exit=$rc"
exit $rc
