#!/bin/sh
# tools/runall.sh [tier] — runs every registered check once and validates the evidence files.
tier="${1:-quick}"
cd "$(dirname "$0")/.." || exit 2
fail=0
for id in $(python3 -c "import json;print(' '.join(c['property_id'] for c in json.load(open('MANIFEST.json'))['checks']))"); do
  s=$(date +%s)
  out=$(./check $id $tier 2>&1); rc=$?
  e=$(date +%s)
  echo "$id rc=$rc $((e-s))s :: $(echo "$out" | tail -1)"
  [ $rc -ne 0 ] && { fail=1; echo "$out" | head -20; }
done
python3-vt - <<'PY'
import json,jsonschema,glob
sch=json.load(open('/root/.vp/EVIDENCE.schema.json'))
for f in sorted(glob.glob('evidence/*.json')):
    try:
        jsonschema.validate(json.load(open(f)),sch)
    except Exception as ex:
        print('INVALID',f,str(ex)[:200])
print('evidence validated')
PY
exit $fail
