#!/bin/sh
# Builds the framework tools from files on disk only (offline).
set -e
export GOFLAGS=-mod=mod GOPROXY=off GOSUMDB=off GOTOOLCHAIN=local
DIR=$(cd "$(dirname "$0")" && pwd)
cd "$DIR/tools"
mkdir -p "$DIR/bin" "$DIR/evidence"
go build -o "$DIR/bin/vcheck" ./vcheck
go build -o "$DIR/bin/vinstr" ./vinstr
go build -o "$DIR/bin/lackeydiff" ./lackeydiff
echo "setup ok"
