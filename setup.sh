#!/bin/sh
# Builds the framework tools from files on disk only (offline).
set -e
export GOFLAGS=-mod=mod GOPROXY=off GOSUMDB=off GOTOOLCHAIN=local
cd /verif/tools
mkdir -p /verif/bin /verif/evidence
go build -o /verif/bin/vcheck ./vcheck
go build -o /verif/bin/vinstr ./vinstr
go build -o /verif/bin/lackeydiff ./lackeydiff
echo "setup ok"
